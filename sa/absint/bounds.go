package absint

import (
	"fmt"
	"strconv"
	"strings"

	"golang.org/x/tools/go/ssa"
)

// IdxRec is one index or slice expression that was evaluated on a symbolic
// container: Go checks its bounds at run time and aborts the process when they
// do not hold. Proved says whether the comparisons taken on the path so far
// establish them.
type IdxRec struct {
	Kind   string // "index" or "slice"
	X, I   string // container and index / high bound (canonical keys)
	Proved bool
	Why    string
	Site   ssa.Instruction
}

func (r IdxRec) String() string {
	p := "unproved"
	if r.Proved {
		p = "proved: " + r.Why
	}
	if r.Kind == "slice" {
		return fmt.Sprintf("%s[..%s] (%s)", r.X, r.I, p)
	}
	return fmt.Sprintf("%s[%s] (%s)", r.X, r.I, p)
}

// noteIndex records x[idx] (need: 0 <= idx < len(x)) or x[:idx] (need: 0 <=
// idx <= len(x)) on a symbolic x.
func (in *Interp) noteIndex(kind string, x, idx Val, site ssa.Instruction) {
	if idx == nil {
		return
	}
	rec := IdxRec{Kind: kind, X: Key(x), I: Key(idx), Site: site}
	if len(rec.X)+len(rec.I) > 4000 {
		// a term that has grown this large comes out of an unbounded loop over
		// symbolic data: no proof is attempted
		rec.X, rec.I = rec.X[:min(len(rec.X), 200)]+"…", rec.I[:min(len(rec.I), 200)]+"…"
		in.IdxLog = append(in.IdxLog, rec)
		in.Undecided("symbolic term too large (an unbounded loop over symbolic data)", site)
	}
	need := int64(1) // index: len > idx
	if kind == "slice" {
		need = 0 // slice high: len >= idx
	}
	lb, lbWhy := in.lenLowerBound(rec.X)
	switch {
	case isConstInt(idx):
		c, _ := ConstInt(idx)
		if c >= 0 && lb >= c+need {
			rec.Proved, rec.Why = true, lbWhy
		}
	default:
		// len(x) - k
		if s, ok := idx.(*Sym); ok && s.Op == "lin" && len(s.Terms) == 1 && s.Terms["len("+rec.X+")"] == 1 && s.C <= 0 {
			k := -s.C
			if k >= need && lb >= k {
				rec.Proved, rec.Why = true, lbWhy
			}
			break
		}
		// idx < len(x) decided on the path, idx known non-negative
		lenK := "len(" + rec.X + ")"
		for _, c := range in.CondV {
			ck := Key(c.V)
			lt := ck == "<("+rec.I+","+lenK+")" && c.B || ck == ">=("+rec.I+","+lenK+")" && !c.B || ck == ">("+lenK+","+rec.I+")" && c.B || ck == "<=("+lenK+","+rec.I+")" && !c.B
			le := ck == "<=("+rec.I+","+lenK+")" && c.B || ck == ">("+rec.I+","+lenK+")" && !c.B
			if lt || (le && kind == "slice") {
				if in.nonNegative(idx) {
					rec.Proved, rec.Why = true, ck
				}
			}
		}
	}
	if !rec.Proved {
		// linear arithmetic over everything decided on the path (linprove.go):
		// 0 <= idx and idx (+1) <= len(x) follow from the comparisons, however
		// they are spelt and through however many intermediate variables
		if li, ok := LinOf(idx); ok {
			f := &LinFacts{}
			for _, c := range in.CondV {
				f.AddCond(c)
			}
			ll := LinAtom("len(" + rec.X + ")")
			atoms := map[string]bool{"len(" + rec.X + ")": true}
			for _, g := range f.GE {
				for k := range g.T {
					atoms[k] = true
				}
			}
			for k := range li.T {
				atoms[k] = true
			}
			for k := range atoms {
				if strings.HasPrefix(k, "len(") {
					f.AddGE(LinAtom(k))
				}
			}
			if (in.nonNegative(idx) || f.Proves(li)) && f.Proves(ll.Sub(li).Plus(-need)) {
				rec.Proved, rec.Why = true, "linear arithmetic over the decisions of the path"
			}
		}
	}
	in.IdxLog = append(in.IdxLog, rec)
}

func isConstInt(v Val) bool { _, ok := ConstInt(v); return ok }

func (in *Interp) nonNegative(v Val) bool {
	if s, ok := v.(*Sym); ok && s.Lo != nil && *s.Lo >= 0 {
		return true
	}
	return in.nonNegKey(Key(v), 0)
}

func (in *Interp) nonNegKey(k string, depth int) bool {
	if depth > 3 {
		return false
	}
	if n, err := strconv.ParseInt(k, 10, 64); err == nil {
		return n >= 0
	}
	if strings.HasPrefix(k, "len(") {
		return true
	}
	for _, c := range in.CondV {
		ck := Key(c.V)
		if ck == "<("+k+",0)" && !c.B || ck == ">=("+k+",0)" && c.B {
			return true
		}
		// k >= w with w non-negative
		for _, f := range []struct {
			pre string
			b   bool
		}{{"<(" + k + ",", false}, {">=(" + k + ",", true}} {
			if strings.HasPrefix(ck, f.pre) && strings.HasSuffix(ck, ")") && c.B == f.b {
				w := ck[len(f.pre) : len(ck)-1]
				if w != k && in.nonNegKey(w, depth+1) {
					return true
				}
			}
		}
	}
	return false
}

// lenLowerBound: the largest n such that a comparison decided on this path
// implies len(x) >= n.
func (in *Interp) lenLowerBound(xk string) (int64, string) {
	best, why := in.lenLowerBound1(xk)
	// a comparison that makes two lengths equal carries the bound over
	lenK := "len(" + xk + ")"
	for _, c := range in.CondV {
		ck := Key(c.V)
		eq := strings.HasPrefix(ck, "==(") && c.B || strings.HasPrefix(ck, "!=(") && !c.B
		if !eq || !strings.Contains(ck, lenK) {
			continue
		}
		inner := ck[strings.Index(ck, "(")+1 : len(ck)-1]
		var other string
		switch {
		case strings.HasPrefix(inner, lenK+",len("):
			other = inner[len(lenK)+1:]
		case strings.HasSuffix(inner, ","+lenK) && strings.HasPrefix(inner, "len("):
			other = inner[:len(inner)-len(lenK)-1]
		}
		if strings.HasPrefix(other, "len(") && strings.HasSuffix(other, ")") {
			if b, w := in.lenLowerBound1(other[4 : len(other)-1]); b > best {
				best, why = b, w+" and "+ck
			}
		}
	}
	return best, why
}

func (in *Interp) lenLowerBound1(xk string) (int64, string) {
	best, why := int64(0), ""
	lenK := "len(" + xk + ")"
	upd := func(n int64, w string) {
		if n > best {
			best, why = n, w
		}
	}
	for _, c := range in.CondV {
		ck := Key(c.V)
		try := func(prefix, suffix string) (int64, bool) {
			if !strings.HasPrefix(ck, prefix) || !strings.HasSuffix(ck, suffix) || len(ck) < len(prefix)+len(suffix) {
				return 0, false
			}
			n, err := strconv.ParseInt(ck[len(prefix):len(ck)-len(suffix)], 10, 64)
			return n, err == nil
		}
		if n, ok := try("<(", ","+lenK+")"); ok && c.B {
			upd(n+1, ck)
		}
		if n, ok := try("<("+lenK+",", ")"); ok && !c.B {
			upd(n, ck)
		}
		if n, ok := try(">("+lenK+",", ")"); ok && c.B {
			upd(n+1, ck)
		}
		if n, ok := try(">=("+lenK+",", ")"); ok && c.B {
			upd(n, ck)
		}
		if n, ok := try("<=("+lenK+",", ")"); ok && !c.B {
			upd(n+1, ck)
		}
		if n, ok := try("==("+lenK+",", ")"); ok && c.B {
			upd(n, ck)
		}
		if (ck == "==("+lenK+",0)" || ck == "==("+xk+",\"\")") && !c.B {
			upd(1, ck)
		}
		if (ck == "!=("+lenK+",0)" || ck == "!=("+xk+",\"\")") && c.B {
			upd(1, ck)
		}
	}
	return best, why
}

// CanonCmp brings a recorded integer comparison ("<(a,b)", "!>=(a,b)",
// "<=(b,a)", …, as it appears in a condition log without the ":= value" part)
// into one of two forms, "<(x,y)" or "!<(x,y)": however the source spells
// "x is below y", the rules see one spelling. Anything else is returned as is.
func CanonCmp(c string) string {
	neg := false
	for strings.HasPrefix(c, "!") && !strings.HasPrefix(c, "!=(") {
		neg = !neg
		c = c[1:]
	}
	op := ""
	for _, o := range []string{"<=(", ">=(", "<(", ">("} {
		if strings.HasPrefix(c, o) && strings.HasSuffix(c, ")") {
			op = o[:len(o)-1]
			break
		}
	}
	if op == "" {
		if neg {
			return "!" + c
		}
		return c
	}
	inner := c[len(op)+1 : len(c)-1]
	depth, cut := 0, -1
	for i, ch := range inner {
		switch ch {
		case '(', '[', '{':
			depth++
		case ')', ']', '}':
			depth--
		case ',':
			if depth == 0 && cut < 0 {
				cut = i
			}
		}
	}
	if cut < 0 {
		if neg {
			return "!" + c
		}
		return c
	}
	a, b := inner[:cut], inner[cut+1:]
	switch op {
	case "<":
	case ">":
		a, b = b, a
	case "<=": // a <= b  ==  !(b < a)
		a, b = b, a
		neg = !neg
	case ">=": // a >= b  ==  !(a < b)
		neg = !neg
	}
	if neg {
		return "!<(" + a + "," + b + ")"
	}
	return "<(" + a + "," + b + ")"
}
