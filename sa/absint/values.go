// Package absint is a small abstract interpreter over go/ssa.
//
// It evaluates functions of the analysed program over a domain in which
// everything the source makes concrete stays concrete (constants, struct
// records, slices of known length, closures, pointers to allocation cells) and
// everything else is abstract (symbolic scalars with optional interval facts,
// opaque values, client defined abstract objects). A branch on an abstract
// condition forks; forks are explored by re-execution under a choice oracle,
// so no interpreter state is ever copied or merged. Nothing of the analysed
// program is executed: the SSA form of its source is interpreted.
package absint

import (
	"fmt"
	"go/constant"
	"go/types"
	"sort"
	"strings"

	"golang.org/x/tools/go/ssa"
)

// Val is an abstract value.
type Val interface{}

// Const is a concrete scalar (bool, string, int, float) or typed nil.
type Const struct {
	V constant.Value // nil means the nil pointer / nil interface / nil slice / nil func / nil map
	T types.Type
}

// Sym is a symbolic scalar: an expression tree over named unknowns.
type Sym struct {
	Op   string // "var", "lin", or an operator / function name
	Name string // for "var"
	Args []Val
	T    types.Type
	// interval facts for integers (nil = unbounded)
	Lo, Hi *int64
	// linear form for Op == "lin": sum coef*var + c
	Terms map[string]int64
	C     int64
	key   string
}

// Struct is a struct value (immutable: updates copy).
type Struct struct {
	T types.Type
	F []Val
}

// Array is an array value (immutable: updates copy).
type Array struct {
	T types.Type // element type
	E []Val
}

// Cell is an addressable location.
type Cell struct {
	V    Val
	Name string
}

// Ptr points into a cell at a path of field / element indices.
type Ptr struct {
	Cell *Cell
	Path []int
	As   types.Type // non nil: the pointer was converted through unsafe.Pointer to *As
}

// Slice is a slice with concrete bounds over an array cell.
type Slice struct {
	Cell          *Cell // holds *Array
	Off, Len, Cap int
	T             types.Type // element type
}

// Iface is an interface value holding a concrete dynamic value.
type Iface struct {
	T types.Type // dynamic type
	V Val
}

// Closure is a function value.
type Closure struct {
	Fn   *ssa.Function
	Bind []Val
}

// Builtin is a reference to a builtin or body-less function.
type Builtin struct{ Name string }

// Tuple is a multi-value result.
type Tuple struct{ E []Val }

// Global is the opaque identity of a package level variable's initial value.
type Global struct {
	G *ssa.Global
}

// Top is an unknown value. Reaching a decision on it makes the path undecided.
type Top struct{ Why string }

// Map is a map with constant keys, used for small concrete maps.
type Map struct {
	M map[string]Val
	T types.Type
}

// Object is a client defined abstract object (a node reference, a code
// segment, ...). The interpreter asks the hooks what operations on it mean.
type Object interface {
	ObjString() string
}

func nilOf(t types.Type) Const { return Const{T: t} }

func IsNil(v Val) bool {
	c, ok := v.(Const)
	return ok && c.V == nil
}

func mkBool(b bool) Const { return Const{V: constant.MakeBool(b), T: types.Typ[types.Bool]} }
func MkInt(i int64) Const { return Const{V: constant.MakeInt64(i), T: types.Typ[types.Int]} }
func MkIntT(i int64, t types.Type) Const {
	return Const{V: constant.MakeInt64(i), T: t}
}
func MkString(s string) Const { return Const{V: constant.MakeString(s), T: types.Typ[types.String]} }
func MkBool(b bool) Const     { return mkBool(b) }

// NewVar makes a fresh symbolic unknown.
func NewVar(name string, t types.Type) *Sym { return &Sym{Op: "var", Name: name, T: t} }

// NewVarRange makes a symbolic integer with interval facts.
func NewVarRange(name string, t types.Type, lo, hi *int64) *Sym {
	return &Sym{Op: "var", Name: name, T: t, Lo: lo, Hi: hi}
}

func I64(i int64) *int64 { return &i }

// ConstInt extracts a concrete integer.
func ConstInt(v Val) (int64, bool) {
	c, ok := v.(Const)
	if !ok || c.V == nil {
		return 0, false
	}
	if c.V.Kind() != constant.Int {
		return 0, false
	}
	if i, ok := constant.Int64Val(c.V); ok {
		return i, true
	}
	if u, ok := constant.Uint64Val(c.V); ok {
		return int64(u), true
	}
	return 0, false
}

func ConstBool(v Val) (bool, bool) {
	c, ok := v.(Const)
	if !ok || c.V == nil || c.V.Kind() != constant.Bool {
		return false, false
	}
	return constant.BoolVal(c.V), true
}

func ConstString(v Val) (string, bool) {
	c, ok := v.(Const)
	if !ok || c.V == nil || c.V.Kind() != constant.String {
		return "", false
	}
	return constant.StringVal(c.V), true
}

// Key renders a value canonically (used for path-condition memoisation and
// for comparing results against reference tables).
func Key(v Val) string {
	switch x := v.(type) {
	case nil:
		return "<none>"
	case Const:
		if x.V == nil {
			return "nil"
		}
		return x.V.ExactString()
	case *Sym:
		return x.Key()
	case *Struct:
		var b strings.Builder
		b.WriteString(typeName(x.T))
		b.WriteString("{")
		for i, f := range x.F {
			if i > 0 {
				b.WriteString(",")
			}
			b.WriteString(Key(f))
		}
		b.WriteString("}")
		return b.String()
	case *Array:
		var b strings.Builder
		b.WriteString("[")
		for i, f := range x.E {
			if i > 0 {
				b.WriteString(",")
			}
			b.WriteString(Key(f))
		}
		b.WriteString("]")
		return b.String()
	case *Ptr:
		s := fmt.Sprintf("&%s%v", x.Cell.Name, x.Path)
		if x.As != nil {
			s += " as " + typeName(x.As)
		}
		return s
	case *Slice:
		var b strings.Builder
		b.WriteString("slice[")
		arr, _ := x.Cell.V.(*Array)
		for i := 0; i < x.Len; i++ {
			if i > 0 {
				b.WriteString(",")
			}
			if arr != nil && x.Off+i < len(arr.E) {
				b.WriteString(Key(arr.E[x.Off+i]))
			}
		}
		b.WriteString("]")
		return b.String()
	case *Iface:
		return "iface(" + typeName(x.T) + ":" + Key(x.V) + ")"
	case *Closure:
		return "func " + x.Fn.String()
	case *Builtin:
		return "builtin " + x.Name
	case *Tuple:
		var b strings.Builder
		b.WriteString("(")
		for i, f := range x.E {
			if i > 0 {
				b.WriteString(", ")
			}
			b.WriteString(Key(f))
		}
		b.WriteString(")")
		return b.String()
	case *Global:
		return "global " + x.G.Pkg.Pkg.Name() + "." + x.G.Name()
	case Top:
		return "TOP(" + x.Why + ")"
	case *Map:
		ks := make([]string, 0, len(x.M))
		for k := range x.M {
			ks = append(ks, k)
		}
		sort.Strings(ks)
		var b strings.Builder
		b.WriteString("map{")
		for _, k := range ks {
			b.WriteString(k + ":" + Key(x.M[k]) + ",")
		}
		b.WriteString("}")
		return b.String()
	case Object:
		return x.ObjString()
	}
	return fmt.Sprintf("%T", v)
}

func typeName(t types.Type) string {
	if t == nil {
		return "?"
	}
	return types.TypeString(t, func(p *types.Package) string { return p.Name() })
}

// Key of a symbolic value.
func (s *Sym) Key() string {
	if s.key != "" {
		return s.key
	}
	switch s.Op {
	case "var":
		s.key = s.Name
	case "lin":
		ks := make([]string, 0, len(s.Terms))
		for k := range s.Terms {
			ks = append(ks, k)
		}
		sort.Strings(ks)
		var b strings.Builder
		b.WriteString("(")
		for i, k := range ks {
			c := s.Terms[k]
			if i > 0 || c < 0 {
				if c < 0 {
					b.WriteString("-")
					c = -c
				} else {
					b.WriteString("+")
				}
			}
			if c != 1 {
				fmt.Fprintf(&b, "%d*", c)
			}
			b.WriteString(k)
		}
		if s.C != 0 || len(ks) == 0 {
			fmt.Fprintf(&b, "%+d", s.C)
		}
		b.WriteString(")")
		s.key = b.String()
	default:
		var b strings.Builder
		b.WriteString(s.Op)
		b.WriteString("(")
		for i, a := range s.Args {
			if i > 0 {
				b.WriteString(",")
			}
			b.WriteString(Key(a))
		}
		b.WriteString(")")
		s.key = b.String()
	}
	return s.key
}

// zero returns the zero value of type t.
func Zero(t types.Type) Val {
	switch u := t.Underlying().(type) {
	case *types.Basic:
		switch {
		case u.Info()&types.IsBoolean != 0:
			return Const{V: constant.MakeBool(false), T: t}
		case u.Info()&types.IsString != 0:
			return Const{V: constant.MakeString(""), T: t}
		case u.Info()&types.IsInteger != 0:
			return Const{V: constant.MakeInt64(0), T: t}
		case u.Info()&types.IsFloat != 0:
			return Const{V: constant.MakeFloat64(0), T: t}
		case u.Kind() == types.UnsafePointer:
			return nilOf(t)
		}
		return Top{"zero of " + t.String()}
	case *types.Struct:
		f := make([]Val, u.NumFields())
		for i := range f {
			f[i] = Zero(u.Field(i).Type())
		}
		return &Struct{T: t, F: f}
	case *types.Array:
		e := make([]Val, u.Len())
		for i := range e {
			e[i] = Zero(u.Elem())
		}
		return &Array{T: u.Elem(), E: e}
	default:
		return nilOf(t)
	}
}

func getPath(v Val, path []int) Val {
	for _, i := range path {
		switch x := v.(type) {
		case *Struct:
			if i < 0 || i >= len(x.F) {
				return Top{"field index out of range"}
			}
			v = x.F[i]
		case *Array:
			if i < 0 || i >= len(x.E) {
				return Top{"array index out of range"}
			}
			v = x.E[i]
		case *Sym:
			var ft types.Type
			if x.T != nil {
				switch u := x.T.Underlying().(type) {
				case *types.Struct:
					if i >= 0 && i < u.NumFields() {
						ft = u.Field(i).Type()
					}
				case *types.Array:
					ft = u.Elem()
				}
			}
			v = &Sym{Op: FieldOp(x.T, i), Args: []Val{x}, T: ft}
		default:
			return Top{fmt.Sprintf("path through %T", v)}
		}
	}
	return v
}

func setPath(v Val, path []int, nv Val) Val {
	if len(path) == 0 {
		return nv
	}
	i := path[0]
	switch x := v.(type) {
	case *Struct:
		if i < 0 || i >= len(x.F) {
			return Top{"field index out of range"}
		}
		f := append([]Val(nil), x.F...)
		f[i] = setPath(f[i], path[1:], nv)
		return &Struct{T: x.T, F: f}
	case *Array:
		if i < 0 || i >= len(x.E) {
			return Top{"array index out of range"}
		}
		e := append([]Val(nil), x.E...)
		e[i] = setPath(e[i], path[1:], nv)
		return &Array{T: x.T, E: e}
	}
	return Top{fmt.Sprintf("store through %T", v)}
}

// Elems returns the elements of a concrete slice.
func (s *Slice) Elems() []Val {
	arr, ok := s.Cell.V.(*Array)
	if !ok {
		return nil
	}
	if s.Off+s.Len > len(arr.E) {
		return nil
	}
	return arr.E[s.Off : s.Off+s.Len]
}

// NewSlice builds a fresh concrete slice.
func NewSlice(elem types.Type, elems []Val) *Slice {
	e := append([]Val(nil), elems...)
	return &Slice{Cell: &Cell{V: &Array{T: elem, E: e}, Name: "slice"}, Off: 0, Len: len(e), Cap: len(e), T: elem}
}

// FieldOp names the selection of field i of a struct (or pointer to struct) type.
func FieldOp(t types.Type, i int) string {
	if t != nil {
		u := t.Underlying()
		if p, ok := u.(*types.Pointer); ok {
			u = p.Elem().Underlying()
		}
		if st, ok := u.(*types.Struct); ok && i >= 0 && i < st.NumFields() {
			return "." + st.Field(i).Name()
		}
	}
	return fmt.Sprintf("field%d", i)
}
