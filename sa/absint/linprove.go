package absint

import (
	"fmt"
	"go/token"
	"sort"
	"strings"
)

// Lin is a linear form sum(T[k]*k) + C over named integer atoms (the keys of
// symbolic values). The prover below decides whether "form >= 0" follows from
// a set of such facts over the rationals (Fourier-Motzkin elimination), which
// is sound for integers: what follows over the rationals holds for integers.
type Lin struct {
	T map[string]int64
	C int64
}

// LinOf brings an integer value into linear form.
func LinOf(v Val) (Lin, bool) {
	t, c, ok := toLin(v)
	if !ok {
		return Lin{}, false
	}
	m := map[string]int64{}
	for k, x := range t {
		m[k] = x
	}
	return Lin{T: m, C: c}, true
}

// LinConst is the constant form c.
func LinConst(c int64) Lin { return Lin{T: map[string]int64{}, C: c} }

// LinAtom is the form 1*k.
func LinAtom(k string) Lin { return Lin{T: map[string]int64{k: 1}} }

// Sub is a - b.
func (a Lin) Sub(b Lin) Lin { return a.addMul(b, -1) }

// Add is a + b.
func (a Lin) Add(b Lin) Lin { return a.addMul(b, 1) }

// Plus is a + c.
func (a Lin) Plus(c int64) Lin { r := a.addMul(Lin{}, 1); r.C += c; return r }

func (a Lin) addMul(b Lin, f int64) Lin {
	m := map[string]int64{}
	for k, x := range a.T {
		m[k] = x
	}
	for k, x := range b.T {
		m[k] += f * x
		if m[k] == 0 {
			delete(m, k)
		}
	}
	return Lin{T: m, C: a.C + f*b.C}
}

func (a Lin) String() string {
	ks := make([]string, 0, len(a.T))
	for k := range a.T {
		ks = append(ks, k)
	}
	sort.Strings(ks)
	var sb strings.Builder
	for _, k := range ks {
		fmt.Fprintf(&sb, "%+d*%s ", a.T[k], k)
	}
	fmt.Fprintf(&sb, "%+d", a.C)
	return sb.String()
}

// LinFacts is a conjunction of facts "form >= 0" and "form != 0".
type LinFacts struct {
	GE []Lin
	NE []Lin
	// Alt: each entry is a disjunction of alternatives, each alternative a
	// conjunction of forms >= 0 (max/min: m is one operand and not below /
	// above the other).
	Alt [][][]Lin
}

// AddAlt records that at least one of the alternatives holds.
func (f *LinFacts) AddAlt(alts ...[]Lin) { f.Alt = append(f.Alt, alts) }

// AddMax records m == max(a, b) (isMax) or m == min(a, b).
func (f *LinFacts) AddMax(m, a, b Lin, isMax bool) {
	eq := func(x, y Lin) []Lin { return []Lin{x.Sub(y), y.Sub(x)} }
	if isMax {
		f.AddAlt(append(eq(m, a), a.Sub(b)), append(eq(m, b), b.Sub(a)))
	} else {
		f.AddAlt(append(eq(m, a), b.Sub(a)), append(eq(m, b), a.Sub(b)))
	}
}

// Copy is an independent copy of the facts.
func (f *LinFacts) Copy() *LinFacts {
	return &LinFacts{GE: append([]Lin(nil), f.GE...), NE: append([]Lin(nil), f.NE...), Alt: append([][][]Lin(nil), f.Alt...)}
}

// AddGE records l >= 0.
func (f *LinFacts) AddGE(l Lin) { f.GE = append(f.GE, l) }

// AddEQ records l == 0.
func (f *LinFacts) AddEQ(l Lin) { f.GE = append(f.GE, l, LinConst(0).Sub(l)) }

// AddCmp records "x op y" (when holds) or its negation; false when the
// operands are not linear integer forms (nothing is recorded then).
func (f *LinFacts) AddCmp(op token.Token, x, y Val, holds bool) bool {
	a, ok1 := LinOf(x)
	b, ok2 := LinOf(y)
	if !ok1 || !ok2 {
		return false
	}
	if !holds {
		op = cmpNeg[op]
	}
	switch op {
	case token.LSS: // a < b: b - a - 1 >= 0
		f.AddGE(b.Sub(a).Plus(-1))
	case token.LEQ:
		f.AddGE(b.Sub(a))
	case token.GTR:
		f.AddGE(a.Sub(b).Plus(-1))
	case token.GEQ:
		f.AddGE(a.Sub(b))
	case token.EQL:
		f.AddEQ(a.Sub(b))
	case token.NEQ:
		f.NE = append(f.NE, a.Sub(b))
	default:
		return false
	}
	return true
}

var cmpOps = map[string]token.Token{"<": token.LSS, "<=": token.LEQ, ">": token.GTR, ">=": token.GEQ, "==": token.EQL, "!=": token.NEQ}

// AddCond records a branch decision of a path, when it is an integer comparison.
func (f *LinFacts) AddCond(c CondRec) bool {
	s, ok := c.V.(*Sym)
	if !ok || len(s.Args) != 2 {
		return false
	}
	op, isCmp := cmpOps[s.Op]
	if !isCmp {
		return false
	}
	return f.AddCmp(op, s.Args[0], s.Args[1], c.B)
}

// Proves: goal >= 0 follows from the facts. The disequalities are split into
// their two strict cases (at most 6 of them are used).
func (f *LinFacts) Proves(goal Lin) bool {
	ne := f.NE
	if len(ne) > 6 {
		ne = ne[:6]
	}
	neg := LinConst(0).Sub(goal).Plus(-1) // -goal - 1 >= 0
	alts := f.Alt
	if len(alts) > 8 {
		alts = alts[:8]
	}
	// every combination of one alternative per disjunction
	combos := [][]Lin{nil}
	for _, d := range alts {
		var next [][]Lin
		for _, c := range combos {
			for _, a := range d {
				next = append(next, append(append([]Lin(nil), c...), a...))
			}
		}
		combos = next
		if len(combos) > 1024 {
			return false
		}
	}
	for _, extra := range combos {
		if !f.provesUnder(neg, ne, extra) {
			return false
		}
	}
	return true
}

func (f *LinFacts) provesUnder(neg Lin, ne []Lin, extra []Lin) bool {
	for mask := 0; mask < 1<<len(ne); mask++ {
		cs := append([]Lin(nil), f.GE...)
		cs = append(cs, extra...)
		cs = append(cs, neg)
		for i, d := range ne {
			if mask&(1<<i) != 0 {
				cs = append(cs, d.Plus(-1)) // d >= 1
			} else {
				cs = append(cs, LinConst(0).Sub(d).Plus(-1)) // d <= -1
			}
		}
		if !infeasible(cs) {
			return false
		}
	}
	return true
}

// infeasible: the conjunction of "form >= 0" has no rational solution.
func infeasible(cs []Lin) bool {
	const big = int64(1) << 40
	for {
		// a contradiction among the constant constraints
		var rest []Lin
		for _, c := range cs {
			if len(c.T) == 0 {
				if c.C < 0 {
					return true
				}
				continue
			}
			rest = append(rest, c)
		}
		cs = rest
		if len(cs) == 0 {
			return false
		}
		// pick the variable with the fewest pos*neg combinations
		cnt := map[string][2]int{}
		for _, c := range cs {
			for k, x := range c.T {
				e := cnt[k]
				if x > 0 {
					e[0]++
				} else {
					e[1]++
				}
				cnt[k] = e
			}
		}
		best, bestN := "", -1
		keys := make([]string, 0, len(cnt))
		for k := range cnt {
			keys = append(keys, k)
		}
		sort.Strings(keys)
		for _, k := range keys {
			n := cnt[k][0] * cnt[k][1]
			if bestN < 0 || n < bestN {
				best, bestN = k, n
			}
		}
		var pos, negs, zero []Lin
		for _, c := range cs {
			switch x := c.T[best]; {
			case x > 0:
				pos = append(pos, c)
			case x < 0:
				negs = append(negs, c)
			default:
				zero = append(zero, c)
			}
		}
		if len(pos)*len(negs)+len(zero) > 4000 {
			return false // not decided: too many combinations
		}
		for _, p := range pos {
			for _, n := range negs {
				a, b := p.T[best], -n.T[best] // a, b > 0: b*p + a*n eliminates best
				m := map[string]int64{}
				for k, x := range p.T {
					m[k] += b * x
				}
				for k, x := range n.T {
					m[k] += a * x
				}
				c := b*p.C + a*n.C
				over := c > big || c < -big
				for k, x := range m {
					if x == 0 {
						delete(m, k)
					}
					if x > big || x < -big {
						over = true
					}
				}
				if over {
					return false // not decided: coefficients out of range
				}
				zero = append(zero, Lin{T: m, C: c})
			}
		}
		cs = zero
	}
}

// Subst replaces atom k by the form r.
func (a Lin) Subst(k string, r Lin) Lin {
	c, ok := a.T[k]
	if !ok {
		return a
	}
	m := map[string]int64{}
	for x, v := range a.T {
		if x != k {
			m[x] = v
		}
	}
	return Lin{T: m, C: a.C}.addMul(r, c)
}

// Mentions reports whether atom k occurs in the form.
func (a Lin) Mentions(k string) bool { return a.T[k] != 0 }
