package absint

import (
	"fmt"
	"go/token"
	"go/types"
	"strings"

	"golang.org/x/tools/go/ssa"
)

// LoopSym evaluates the counting loops of one function at a single symbolic
// position: on the first arrival at a loop header ("for i := a; i < b; i++" or
// "for i := range s", as go/ssa builds them) whose bound is not a constant,
// the counter is replaced by a fresh unknown not below its initial value; the
// header's test then forks into "body" and "exit" like any symbolic decision
// and is recorded on the path; when control comes back to the header the loop
// is left. What a rule proves inside the body therefore holds at every
// position the test admits, not at the first one only.
//
// Use: call OnInstr from Hooks.Instr and OnBranch from Hooks.Branch.
type LoopSym struct {
	Fn *ssa.Function
	// In, when set, widens the treatment from Fn to every function it accepts
	// (helpers the analysed function was split into).
	In    func(*ssa.Function) bool
	Facts *LinFacts // receives counter >= initial value
	// Vars lists the counters made symbolic on this path, in order.
	Vars   []LoopVar
	visits map[*ssa.BasicBlock]int
	n      int
}

// LoopVar is one symbolic loop counter.
type LoopVar struct {
	Atom   string // its key in linear forms
	HeadAt int    // len(in.CondV) when the header was reached: CondV[HeadAt] is the header's decision
	Step1  bool   // the counter advances by exactly 1 per round (every position is visited)
}

func (l *LoopSym) covers(fn *ssa.Function) bool {
	if fn == nil {
		return false
	}
	if fn == l.Fn {
		return true
	}
	return l.In != nil && l.In(fn)
}

func isLoopHeader(b *ssa.BasicBlock) bool {
	return b != nil && (strings.HasPrefix(b.Comment, "for.loop") || strings.HasPrefix(b.Comment, "rangeindex.loop"))
}

// OnInstr must see every instruction before it is evaluated.
func (l *LoopSym) OnInstr(in *Interp, fr *Frame, ins ssa.Instruction) {
	b := ins.Block()
	if !l.covers(fr.Fn) || !isLoopHeader(b) {
		return
	}
	if _, isPhi := ins.(*ssa.Phi); isPhi {
		return
	}
	// the first instruction after the phis
	first := -1
	for i, x := range b.Instrs {
		if _, isPhi := x.(*ssa.Phi); !isPhi {
			first = i
			break
		}
	}
	if first < 0 || b.Instrs[first] != ins {
		return
	}
	if l.visits == nil {
		l.visits = map[*ssa.BasicBlock]int{}
	}
	l.visits[b]++
	if l.visits[b] != 1 {
		return
	}
	iff, ok := b.Instrs[len(b.Instrs)-1].(*ssa.If)
	if !ok {
		return
	}
	cmp, ok := iff.Cond.(*ssa.BinOp)
	if !ok {
		return
	}
	for _, x := range b.Instrs[:first] {
		ph := x.(*ssa.Phi)
		if bt, ok := ph.Type().Underlying().(*types.Basic); !ok || bt.Info()&types.IsInteger == 0 {
			continue
		}
		// the counter is what the header's test compares (directly or plus a constant)
		var other ssa.Value
		for _, side := range [][2]ssa.Value{{cmp.X, cmp.Y}, {cmp.Y, cmp.X}} {
			v := side[0]
			if bo, isB := v.(*ssa.BinOp); isB && bo.Op == token.ADD && bo.X == ssa.Value(ph) {
				v = ph
			}
			if v == ssa.Value(ph) {
				other = side[1]
			}
		}
		if other == nil {
			continue
		}
		cur := fr.Regs[ph]
		bound, known := fr.Regs[other]
		if c, isC := other.(*ssa.Const); isC {
			bound, known = Const{V: c.Value, T: c.Type()}, true
		}
		_, curConst := ConstInt(cur)
		_, boundConst := ConstInt(bound)
		if known && curConst && boundConst {
			continue // a concrete loop runs as it is
		}
		l.n++
		j := NewVar(fmt.Sprintf("LOOP#%d", l.n), ph.Type())
		if l.Facts != nil && cur != nil {
			l.Facts.AddCmp(token.GEQ, j, cur, true)
		}
		fr.Regs[ph] = j
		step1 := strings.HasPrefix(b.Comment, "rangeindex.loop")
		for _, e := range ph.Edges {
			if bo, isB := e.(*ssa.BinOp); isB && bo.Op == token.ADD && bo.X == ssa.Value(ph) {
				if c, isC := bo.Y.(*ssa.Const); isC && c.Value != nil && c.Int64() == 1 {
					step1 = true
				}
			}
		}
		l.Vars = append(l.Vars, LoopVar{Atom: Key(j), HeadAt: len(in.CondV), Step1: step1})
	}
}

// OnBranch leaves a symbolic loop when control returns to its header.
func (l *LoopSym) OnBranch(in *Interp, cond Val, site ssa.Instruction) (bool, bool) {
	if site == nil || !l.covers(site.Parent()) || !isLoopHeader(site.Block()) {
		return false, false
	}
	if l.visits[site.Block()] >= 2 {
		if _, concrete := ConstBool(cond); concrete {
			return false, false
		}
		return false, true
	}
	return false, false
}
