package absint

import (
	"fmt"
	"go/constant"
	"go/token"
	"go/types"
	"sort"
	"strconv"
	"strings"
	"unicode/utf8"

	"golang.org/x/tools/go/ssa"
)

// Hooks let a client engine give meaning to abstract objects and intercept calls.
type Hooks struct {
	// Call intercepts a call to a function (static callee, with or without body).
	Call func(in *Interp, fn *ssa.Function, args []Val, site ssa.Instruction) (Val, bool)
	// Invoke handles an interface method call whose receiver is not a concrete Iface.
	Invoke func(in *Interp, recv Val, m *types.Func, args []Val, site ssa.Instruction) (Val, bool)
	// TypeAssert handles a type assertion on a value that is not a concrete Iface.
	TypeAssert func(in *Interp, x Val, asserted types.Type, commaOk bool, site ssa.Instruction) (Val, bool)
	// BinOp handles operators with abstract object operands.
	BinOp func(in *Interp, op token.Token, x, y Val, t types.Type) (Val, bool)
	// Global provides the value of a package level variable on first access.
	Global func(in *Interp, g *ssa.Global) (Val, bool)
	// Load / Store through pointers the interpreter does not understand.
	Load  func(in *Interp, p Val, t types.Type, site ssa.Instruction) (Val, bool)
	Store func(in *Interp, p Val, v Val, site ssa.Instruction) bool
	// Index handles IndexAddr / Index / Slice / len / append on abstract objects.
	IndexAddr func(in *Interp, x Val, idx Val, site ssa.Instruction) (Val, bool)
	Slice     func(in *Interp, x Val, lo, hi, max Val, site ssa.Instruction) (Val, bool)
	Len       func(in *Interp, x Val) (Val, bool)
	Append    func(in *Interp, s Val, elems Val, site ssa.Instruction) (Val, bool)
	// Branch is asked before forking on a symbolic condition.
	Branch func(in *Interp, cond Val, site ssa.Instruction) (bool, bool)
	// Instr is called for every instruction before it is evaluated (events).
	Instr func(in *Interp, fr *Frame, i ssa.Instruction)
	// MapUpdate handles m[k] = v on abstract maps.
	MapUpdate func(in *Interp, m, k, v Val, site ssa.Instruction) bool
	// Lookup handles map lookups on abstract maps.
	Lookup func(in *Interp, m, k Val, commaOk bool, site ssa.Instruction) (Val, bool)
	// Builtin intercepts builtin calls (copy, append, len, max, ...) before the default modelling.
	Builtin func(in *Interp, name string, args []Val, site ssa.Instruction) (Val, bool)
	// CallValue handles a call through a function value that is not a closure.
	CallValue func(in *Interp, fnv Val, args []Val, site ssa.Instruction) (Val, bool)
	// Panic is told about every reached panic before the path ends.
	Panic func(in *Interp, v Val, site ssa.Instruction)
}

// CondRec is one symbolic branch decision of a path.
type CondRec struct {
	V Val
	B bool
}

// PathEnd is how a path terminated abnormally.
type PathEnd struct {
	Kind string // "panic", "undecided", "budget"
	Msg  string
	Pos  token.Pos
	Site ssa.Instruction
}

func (p *PathEnd) Error() string { return p.Kind + ": " + p.Msg }

// Oracle enumerates fork decisions depth first by re-execution.
type Oracle struct {
	prefix []int
	widths []int
	tags   []string
	pos    int
}

func (o *Oracle) Choose(n int, tag string) int {
	if n <= 1 {
		return 0
	}
	if o.pos < len(o.prefix) {
		c := o.prefix[o.pos]
		o.pos++
		return c
	}
	o.prefix = append(o.prefix, 0)
	o.widths = append(o.widths, n)
	o.tags = append(o.tags, tag)
	o.pos++
	return 0
}

// Next advances to the next unexplored path; false when the space is exhausted.
func (o *Oracle) Next() bool {
	for i := len(o.prefix) - 1; i >= 0; i-- {
		if o.prefix[i]+1 < o.widths[i] {
			o.prefix[i]++
			o.prefix = o.prefix[:i+1]
			o.widths = o.widths[:i+1]
			o.tags = o.tags[:i+1]
			o.pos = 0
			return true
		}
	}
	return false
}

// Reset rewinds for re-execution of the current prefix.
func (o *Oracle) Reset() { o.pos = 0 }

// Trace renders the decisions of the current path.
func (o *Oracle) Trace() []string {
	var out []string
	for i := 0; i < o.pos && i < len(o.prefix); i++ {
		out = append(out, fmt.Sprintf("%s=%d/%d", o.tags[i], o.prefix[i], o.widths[i]))
	}
	return out
}

// Frame is one activation.
type Frame struct {
	Fn     *ssa.Function
	Regs   map[ssa.Value]Val
	Caller *Frame
	Site   ssa.Instruction
	defers []func()
}

// Interp is the state of one path.
type Interp struct {
	Prog      *ssa.Program
	Oracle    *Oracle
	Hooks     Hooks
	Globals   map[*ssa.Global]*Cell
	Conds     map[string]bool // memo of symbolic branch decisions on this path
	CondLog   []string
	CondV     []CondRec
	IdxLog    []IdxRec       // index / slice expressions on symbolic containers (bounds.go)
	MapChoice map[string]int // which entry an unknown key of a concrete map was taken for (per path)
	Steps     int
	MaxStep   int
	Depth     int
	MaxDep    int
	Cur       *Frame
	Client    any // engine state of this path
	// Module is the import path prefix of the analysed module; functions outside
	// it are not interpreted on abstract arguments.
	Module string
	// Edge is called on every control transfer inside the interpreted functions.
	Edge  func(in *Interp, fr *Frame, from, to *ssa.BasicBlock) bool
	ncell int
	// siteDecisions counts the new symbolic decisions taken at each branch on this path
	siteDecisions map[ssa.Instruction]int
}

// MaxSiteDecisions bounds the number of distinct symbolic questions one branch
// instruction may ask on a single path.
var MaxSiteDecisions = 200

func NewInterp(prog *ssa.Program, o *Oracle) *Interp {
	return &Interp{Module: DefaultModule, Prog: prog, Oracle: o, Globals: map[*ssa.Global]*Cell{}, Conds: map[string]bool{}, MaxStep: 200000, MaxDep: 60}
}

func (in *Interp) abort(kind, msg string, site ssa.Instruction) {
	pe := &PathEnd{Kind: kind, Msg: msg, Site: site}
	if site != nil {
		pe.Pos = site.Pos()
		if !pe.Pos.IsValid() {
			pe.Pos = nearestPos(site)
		}
	}
	panic(pe)
}

func nearestPos(i ssa.Instruction) token.Pos {
	b := i.Block()
	if b == nil {
		return token.NoPos
	}
	idx := -1
	for k, x := range b.Instrs {
		if x == i {
			idx = k
		}
	}
	for k := idx; k >= 0; k-- {
		if p := b.Instrs[k].Pos(); p.IsValid() {
			return p
		}
	}
	for k := idx + 1; k < len(b.Instrs) && idx >= 0; k++ {
		if p := b.Instrs[k].Pos(); p.IsValid() {
			return p
		}
	}
	if b.Parent() != nil {
		return b.Parent().Pos()
	}
	return token.NoPos
}

// Undecided ends the path as undecided.
func (in *Interp) Undecided(msg string, site ssa.Instruction) { in.abort("undecided", msg, site) }

// Run interprets fn on args; abnormal termination is returned as *PathEnd.
func (in *Interp) Run(fn *ssa.Function, args []Val) (res Val, end *PathEnd) {
	defer func() {
		if r := recover(); r != nil {
			if pe, ok := r.(*PathEnd); ok {
				end = pe
				return
			}
			panic(r)
		}
	}()
	return in.CallFn(fn, args, nil, nil), nil
}

// Stack renders the current call stack (function names).
func (in *Interp) Stack() []string {
	var out []string
	for f := in.Cur; f != nil; f = f.Caller {
		out = append(out, f.Fn.String())
	}
	return out
}

func (in *Interp) newCell(v Val, name string) *Cell {
	in.ncell++
	return &Cell{V: v, Name: fmt.Sprintf("%s#%d", name, in.ncell)}
}

// NewCell allocates a client cell.
func (in *Interp) NewCell(v Val, name string) *Cell { return in.newCell(v, name) }

// Decide resolves a boolean condition, forking on symbolic values.
func (in *Interp) Decide(cond Val, site ssa.Instruction) bool {
	if b, ok := ConstBool(cond); ok {
		return b
	}
	if t, ok := cond.(Top); ok {
		in.Undecided("branch on unknown value: "+t.Why, site)
	}
	if in.Hooks.Branch != nil {
		if b, ok := in.Hooks.Branch(in, cond, site); ok {
			return b
		}
	}
	// a decision on !x is the decision on x, recorded under x; a != b is
	// recorded as the decision on a == b: one spelling per question, however
	// the code phrases it
	if sy, ok := cond.(*Sym); ok && sy.Op == "!" && len(sy.Args) == 1 {
		return !in.Decide(sy.Args[0], site)
	}
	if sy, ok := cond.(*Sym); ok && sy.Op == "!=" && len(sy.Args) == 2 {
		return !in.Decide(&Sym{Op: "==", Args: sy.Args, T: sy.T}, site)
	}
	k := Key(cond)
	if len(k) > 20000 {
		in.Undecided("symbolic condition too large (an unbounded loop over symbolic data)", site)
	}
	if b, ok := in.Conds[k]; ok {
		return b
	}
	nk := Key(in.Not(cond))
	if b, ok := in.Conds[nk]; ok {
		return !b
	}
	// the same test decided anew again and again on one path is a loop whose
	// bound is symbolic: every round asks a new question (i < n for the next i)
	// and the exploration would never end
	if site != nil {
		if in.siteDecisions == nil {
			in.siteDecisions = map[ssa.Instruction]int{}
		}
		in.siteDecisions[site]++
		if in.siteDecisions[site] > MaxSiteDecisions {
			in.Undecided(fmt.Sprintf("a loop with a symbolic bound: the test was decided %d times on one path, each time as a new question (last: %s)", MaxSiteDecisions, k), site)
		}
	}
	c := in.Oracle.Choose(2, "if "+k)
	b := c == 0
	in.Conds[k] = b
	in.CondLog = append(in.CondLog, fmt.Sprintf("%s := %v", k, b))
	in.CondV = append(in.CondV, CondRec{V: cond, B: b})
	return b
}

// Assumed reports whether cond (by key) was decided on this path, and how.
func (in *Interp) Assumed(cond Val) (bool, bool) {
	b, ok := in.Conds[Key(cond)]
	if ok {
		return b, true
	}
	b, ok = in.Conds[Key(in.Not(cond))]
	if ok {
		return !b, true
	}
	return false, false
}

// CallFn interprets one function activation.
func (in *Interp) CallFn(fn *ssa.Function, args []Val, bind []Val, site ssa.Instruction) Val {
	if in.Hooks.Call != nil {
		if r, ok := in.Hooks.Call(in, fn, args, site); ok {
			return r
		}
	}
	if r, ok := pureStd(fn, args); ok {
		return r
	}
	if fn.Blocks == nil {
		if r, ok := in.extern(fn, args, site); ok {
			return r
		}
		return Top{"call of body-less function " + fn.String()}
	}
	// library code is interpreted on concrete arguments only; on abstract ones
	// its result is an opaque symbolic value named after the call
	if in.Module != "" && !inModule(fn, in.Module) && !allConcrete(args) && !(containerAlgo(fn) && shapeConcrete(args)) {
		if r, ok := in.extern(fn, args, site); ok {
			return r
		}
		return opaqueResult(fn, args)
	}
	if in.Depth >= in.MaxDep {
		in.abort("budget", "recursion depth exceeded in "+fn.String(), site)
	}
	in.Depth++
	fr := &Frame{Fn: fn, Regs: map[ssa.Value]Val{}, Caller: in.Cur, Site: site}
	in.Cur = fr
	defer func() { in.Cur = fr.Caller; in.Depth-- }()
	if len(args) != len(fn.Params) {
		in.Undecided(fmt.Sprintf("arity mismatch calling %s: %d args for %d params", fn, len(args), len(fn.Params)), site)
	}
	for i, p := range fn.Params {
		fr.Regs[p] = args[i]
	}
	for i, fv := range fn.FreeVars {
		if i < len(bind) {
			fr.Regs[fv] = bind[i]
		}
	}
	return in.runBlocks(fr, fn.Blocks[0], nil)
}

// RunFrom interprets fn starting at block start (as if entered from block
// prev) with the given register environment. Used to evaluate one region of a
// large function (a case clause of a dispatch loop) in isolation. Edge is
// called on every control transfer; returning true ends the path with kind
// "stop".
func (in *Interp) RunFrom(fn *ssa.Function, start, prev *ssa.BasicBlock, regs map[ssa.Value]Val) (res Val, end *PathEnd) {
	defer func() {
		if r := recover(); r != nil {
			if pe, ok := r.(*PathEnd); ok {
				end = pe
				return
			}
			panic(r)
		}
	}()
	fr := &Frame{Fn: fn, Regs: regs}
	in.Cur = fr
	in.Depth++
	defer func() { in.Cur = nil; in.Depth-- }()
	return in.runBlocks(fr, start, prev), nil
}

func (in *Interp) runBlocks(fr *Frame, b, prev *ssa.BasicBlock) Val {
	fn := fr.Fn
	for {
		var next *ssa.BasicBlock
		for _, ins := range b.Instrs {
			in.Steps++
			if in.Steps > in.MaxStep {
				in.abort("budget", "step budget exceeded in "+fn.String(), ins)
			}
			if in.Hooks.Instr != nil {
				in.Hooks.Instr(in, fr, ins)
			}
			switch x := ins.(type) {
			case *ssa.Phi:
				for i, p := range b.Preds {
					if p == prev {
						fr.Regs[x] = in.get(fr, x.Edges[i])
						break
					}
				}
			case *ssa.If:
				if in.Decide(in.get(fr, x.Cond), x) {
					next = b.Succs[0]
				} else {
					next = b.Succs[1]
				}
			case *ssa.Jump:
				next = b.Succs[0]
			case *ssa.Return:
				in.runDefers(fr)
				switch len(x.Results) {
				case 0:
					return nil
				case 1:
					return in.get(fr, x.Results[0])
				}
				t := &Tuple{}
				for _, r := range x.Results {
					t.E = append(t.E, in.get(fr, r))
				}
				return t
			case *ssa.Panic:
				v := in.get(fr, x.X)
				if in.Hooks.Panic != nil {
					in.Hooks.Panic(in, v, x)
				}
				in.abort("panic", Key(v), x)
			case *ssa.RunDefers:
				in.runDefers(fr)
			default:
				in.step(fr, ins)
			}
			if next != nil {
				break
			}
		}
		if next == nil {
			in.Undecided("fell off block", nil)
		}
		if in.Edge != nil && in.Edge(in, fr, b, next) {
			panic(&PathEnd{Kind: "stop", Msg: fmt.Sprintf("block %d -> %d", b.Index, next.Index)})
		}
		prev, b = b, next
	}
}

func (in *Interp) runDefers(fr *Frame) {
	for len(fr.defers) > 0 {
		d := fr.defers[len(fr.defers)-1]
		fr.defers = fr.defers[:len(fr.defers)-1]
		d()
	}
}

func (in *Interp) get(fr *Frame, v ssa.Value) Val {
	switch x := v.(type) {
	case *ssa.Const:
		if x.Value == nil {
			t := x.Type()
			switch t.Underlying().(type) {
			case *types.Struct, *types.Array:
				return Zero(t)
			case *types.Basic:
				if b := basicOf(t); b != nil && b.Kind() != types.UnsafePointer && b.Kind() != types.UntypedNil {
					return Zero(t)
				}
			}
			return nilOf(t)
		}
		cv := x.Value
		if isIntType(x.Type()) {
			cv = wrapInt(constant.ToInt(cv), x.Type())
		} else if isFloatType(x.Type()) {
			cv = constant.ToFloat(cv)
		}
		return Const{V: cv, T: x.Type()}
	case *ssa.Function:
		return &Closure{Fn: x}
	case *ssa.Builtin:
		return &Builtin{Name: x.Name()}
	case *ssa.Global:
		return &Ptr{Cell: in.globalCell(x)}
	}
	r, ok := fr.Regs[v]
	if !ok {
		return Top{"unset register " + v.Name()}
	}
	return r
}

// Get reads an SSA value in frame fr (for hooks).
func (in *Interp) Get(fr *Frame, v ssa.Value) Val { return in.get(fr, v) }

func (in *Interp) globalCell(g *ssa.Global) *Cell {
	if c, ok := in.Globals[g]; ok {
		return c
	}
	var v Val
	if in.Hooks.Global != nil {
		if r, ok := in.Hooks.Global(in, g); ok {
			v = r
		}
	}
	if v == nil {
		v = &Global{G: g}
	}
	c := &Cell{V: v, Name: "global " + g.Name()}
	in.Globals[g] = c
	return c
}

// Load reads through a pointer value.
func (in *Interp) Load(p Val, t types.Type, site ssa.Instruction) Val {
	switch x := p.(type) {
	case *Ptr:
		v := getPath(x.Cell.V, x.Path)
		if x.As != nil {
			// reinterpreting load
			nat := natType(v)
			if nat == nil || !types.Identical(nat, x.As) {
				if _, isTop := v.(Top); !isTop {
					return Reinterpret(v, x.As)
				}
			}
		}
		if g, ok := v.(*Global); ok && len(x.Path) == 0 {
			return g
		}
		return v
	case Top:
		return x
	}
	if in.Hooks.Load != nil {
		if r, ok := in.Hooks.Load(in, p, t, site); ok {
			return r
		}
	}
	if s, ok := p.(*Sym); ok {
		return &Sym{Op: "deref", Args: []Val{s}, T: t}
	}
	if g, ok := p.(*Global); ok {
		return &Sym{Op: "deref", Args: []Val{NewVar(Key(g), nil)}, T: t}
	}
	if IsNil(p) {
		in.abort("panic", "nil pointer dereference", site)
	}
	return Top{fmt.Sprintf("load through %T", p)}
}

func natType(v Val) types.Type {
	switch x := v.(type) {
	case Const:
		return x.T
	case *Sym:
		return x.T
	case *Struct:
		return x.T
	}
	return nil
}

// Store writes through a pointer value.
func (in *Interp) Store(p Val, v Val, site ssa.Instruction) {
	switch x := p.(type) {
	case *Ptr:
		if x.As != nil {
			nat := natType(getPath(x.Cell.V, x.Path))
			if nat != nil && !types.Identical(nat, x.As) {
				v = Reinterpret(v, nat)
			}
		}
		x.Cell.V = setPath(x.Cell.V, x.Path, v)
		return
	}
	if in.Hooks.Store != nil && in.Hooks.Store(in, p, v, site) {
		return
	}
	in.Undecided(fmt.Sprintf("store through %s", Key(p)), site)
}

func (in *Interp) step(fr *Frame, ins ssa.Instruction) {
	switch x := ins.(type) {
	case *ssa.Alloc:
		c := in.newCell(Zero(x.Type().Underlying().(*types.Pointer).Elem()), x.Comment)
		fr.Regs[x] = &Ptr{Cell: c}
	case *ssa.Store:
		in.Store(in.get(fr, x.Addr), in.get(fr, x.Val), x)
	case *ssa.UnOp:
		v := in.get(fr, x.X)
		switch x.Op {
		case token.MUL:
			fr.Regs[x] = in.Load(v, x.Type(), x)
		case token.ARROW:
			fr.Regs[x] = Top{"channel receive"}
		default:
			fr.Regs[x] = in.UnOp(x.Op, v, x.Type())
		}
	case *ssa.BinOp:
		a, b := in.get(fr, x.X), in.get(fr, x.Y)
		fr.Regs[x] = in.BinOp(x.Op, a, b, x.Type(), x.X.Type())
	case *ssa.FieldAddr:
		p := in.get(fr, x.X)
		switch pp := p.(type) {
		case *Ptr:
			np := &Ptr{Cell: pp.Cell, Path: append(append([]int(nil), pp.Path...), x.Field)}
			fr.Regs[x] = np
		default:
			if in.Hooks.IndexAddr != nil {
				if r, ok := in.Hooks.IndexAddr(in, p, MkInt(int64(-1-x.Field)), x); ok {
					fr.Regs[x] = r
					return
				}
			}
			if s, ok := p.(*Sym); ok {
				fr.Regs[x] = &Sym{Op: FieldOp(x.X.Type(), x.Field), Args: []Val{s}, T: x.Type()}
				return
			}
			if IsNil(p) {
				in.abort("panic", "nil pointer dereference", x)
			}
			fr.Regs[x] = Top{fmt.Sprintf("FieldAddr of %T", p)}
		}
	case *ssa.Field:
		s := in.get(fr, x.X)
		switch ss := s.(type) {
		case *Struct:
			fr.Regs[x] = ss.F[x.Field]
		case *Sym:
			fr.Regs[x] = &Sym{Op: FieldOp(x.X.Type(), x.Field), Args: []Val{ss}, T: x.Type()}
		default:
			fr.Regs[x] = Top{fmt.Sprintf("Field of %T", s)}
		}
	case *ssa.IndexAddr:
		fr.Regs[x] = in.indexAddr(in.get(fr, x.X), in.get(fr, x.Index), x)
	case *ssa.Index:
		fr.Regs[x] = in.index(in.get(fr, x.X), in.get(fr, x.Index), x)
	case *ssa.Slice:
		var lo, hi, mx Val
		if x.Low != nil {
			lo = in.get(fr, x.Low)
		}
		if x.High != nil {
			hi = in.get(fr, x.High)
		}
		if x.Max != nil {
			mx = in.get(fr, x.Max)
		}
		fr.Regs[x] = in.slice(in.get(fr, x.X), lo, hi, mx, x)
	case *ssa.MakeSlice:
		n, ok1 := ConstInt(in.get(fr, x.Len))
		c, ok2 := ConstInt(in.get(fr, x.Cap))
		et := x.Type().Underlying().(*types.Slice).Elem()
		if !ok1 || !ok2 || n < 0 || c < n || c > 1<<16 {
			fr.Regs[x] = &Sym{Op: "makeslice", Args: []Val{in.get(fr, x.Len), in.get(fr, x.Cap)}, T: x.Type()}
			return
		}
		e := make([]Val, c)
		for i := range e {
			e[i] = Zero(et)
		}
		fr.Regs[x] = &Slice{Cell: in.newCell(&Array{T: et, E: e}, "makeslice"), Off: 0, Len: int(n), Cap: int(c), T: et}
	case *ssa.MakeMap:
		fr.Regs[x] = &Map{M: map[string]Val{}, T: x.Type()}
	case *ssa.MakeInterface:
		v := in.get(fr, x.X)
		if _, ok := v.(Top); ok {
			fr.Regs[x] = v
			return
		}
		fr.Regs[x] = &Iface{T: x.X.Type(), V: v}
	case *ssa.MakeClosure:
		c := &Closure{Fn: x.Fn.(*ssa.Function)}
		for _, b := range x.Bindings {
			c.Bind = append(c.Bind, in.get(fr, b))
		}
		fr.Regs[x] = c
	case *ssa.ChangeType:
		fr.Regs[x] = in.get(fr, x.X)
	case *ssa.ChangeInterface:
		fr.Regs[x] = in.get(fr, x.X)
	case *ssa.Convert:
		fr.Regs[x] = in.Convert(in.get(fr, x.X), x.X.Type(), x.Type())
	case *ssa.TypeAssert:
		fr.Regs[x] = in.typeAssert(in.get(fr, x.X), x)
	case *ssa.Extract:
		t := in.get(fr, x.Tuple)
		switch tt := t.(type) {
		case *Tuple:
			fr.Regs[x] = tt.E[x.Index]
		case Top:
			fr.Regs[x] = tt
		default:
			fr.Regs[x] = Top{fmt.Sprintf("extract from %T", t)}
		}
	case *ssa.Lookup:
		fr.Regs[x] = in.lookup(in.get(fr, x.X), in.get(fr, x.Index), x)
	case *ssa.MapUpdate:
		m, k, v := in.get(fr, x.Map), in.get(fr, x.Key), in.get(fr, x.Value)
		if mm, ok := m.(*Map); ok {
			mm.M[Key(k)] = v
			return
		}
		if in.Hooks.MapUpdate != nil && in.Hooks.MapUpdate(in, m, k, v, x) {
			return
		}
		in.Undecided("map update on "+Key(m), x)
	case *ssa.Call:
		fr.Regs[x] = in.call(fr, &x.Call, x)
	case *ssa.Defer:
		call := x.Call
		// evaluate operands now, run at function exit
		var fnv Val
		var args []Val
		if call.IsInvoke() {
			fnv = in.get(fr, call.Value)
		} else {
			fnv = in.get(fr, call.Value)
		}
		for _, a := range call.Args {
			args = append(args, in.get(fr, a))
		}
		cc := call
		fr.defers = append(fr.defers, func() { in.doCall(fr, &cc, fnv, args, x) })
	case *ssa.DebugRef:
	case *ssa.Go, *ssa.Send, *ssa.Select:
		in.Undecided("concurrency instruction", ins)
	case *ssa.Range:
		if str, ok := ConstString(in.get(fr, x.X)); ok {
			fr.Regs[x] = &strIter{s: str}
			return
		}
		fr.Regs[x] = Top{"range over map/string"}
	case *ssa.Next:
		if it, ok := in.get(fr, x.Iter).(*strIter); ok && x.IsString {
			// (ok, index, rune) of the next character of a constant string
			if it.pos >= len(it.s) {
				fr.Regs[x] = &Tuple{E: []Val{MkBool(false), MkInt(0), MkIntT(0, types.Typ[types.Rune])}}
				return
			}
			r, w := utf8.DecodeRuneInString(it.s[it.pos:])
			fr.Regs[x] = &Tuple{E: []Val{MkBool(true), MkInt(int64(it.pos)), MkIntT(int64(r), types.Typ[types.Rune])}}
			it.pos += w
			return
		}
		fr.Regs[x] = Top{"next over map/string"}
	default:
		if v, ok := ins.(ssa.Value); ok {
			fr.Regs[v] = Top{fmt.Sprintf("unsupported instruction %T", ins)}
			return
		}
		in.Undecided(fmt.Sprintf("unsupported instruction %T", ins), ins)
	}
}

func (in *Interp) indexAddr(x, idx Val, site ssa.Instruction) Val {
	switch xx := x.(type) {
	case *Slice:
		i, ok := ConstInt(idx)
		if !ok {
			if in.Hooks.IndexAddr != nil {
				if r, ok := in.Hooks.IndexAddr(in, x, idx, site); ok {
					return r
				}
			}
			return Top{"IndexAddr with abstract index " + Key(idx)}
		}
		if i < 0 || int(i) >= xx.Len {
			in.abort("panic", fmt.Sprintf("index out of range [%d] with length %d", i, xx.Len), site)
		}
		return &Ptr{Cell: xx.Cell, Path: []int{xx.Off + int(i)}}
	case *Ptr: // pointer to array
		i, ok := ConstInt(idx)
		if !ok {
			return Top{"IndexAddr with abstract index " + Key(idx)}
		}
		if arr, ok := getPath(xx.Cell.V, xx.Path).(*Array); ok {
			if i < 0 || int(i) >= len(arr.E) {
				in.abort("panic", fmt.Sprintf("index out of range [%d] with length %d", i, len(arr.E)), site)
			}
		}
		return &Ptr{Cell: xx.Cell, Path: append(append([]int(nil), xx.Path...), int(i))}
	case Top:
		return xx
	}
	if in.Hooks.IndexAddr != nil {
		if r, ok := in.Hooks.IndexAddr(in, x, idx, site); ok {
			return r
		}
	}
	if s, ok := x.(*Sym); ok {
		in.noteIndex("index", x, idx, site)
		return &Sym{Op: "elemaddr", Args: []Val{s, idx}, T: nil}
	}
	if IsNil(x) {
		in.abort("panic", "index of nil slice", site)
	}
	return Top{fmt.Sprintf("IndexAddr of %T", x)}
}

func (in *Interp) index(x, idx Val, site ssa.Instruction) Val {
	switch xx := x.(type) {
	case *Array:
		i, ok := ConstInt(idx)
		if !ok {
			return Top{"Index with abstract index"}
		}
		if i < 0 || int(i) >= len(xx.E) {
			in.abort("panic", "array index out of range", site)
		}
		return xx.E[i]
	case Const:
		if s, ok := ConstString(xx); ok {
			i, ok := ConstInt(idx)
			if !ok {
				return &Sym{Op: "strindex", Args: []Val{x, idx}, T: types.Typ[types.Byte]}
			}
			if i < 0 || int(i) >= len(s) {
				in.abort("panic", "string index out of range", site)
			}
			return MkIntT(int64(s[i]), types.Typ[types.Byte])
		}
	case *Sym:
		in.noteIndex("index", x, idx, site)
		return &Sym{Op: "index", Args: []Val{x, idx}, T: site.(ssa.Value).Type()}
	case Top:
		return xx
	}
	return Top{fmt.Sprintf("Index of %T", x)}
}

func (in *Interp) slice(x, lo, hi, mx Val, site ssa.Instruction) Val {
	geti := func(v Val, def int) (int, bool) {
		if v == nil {
			return def, true
		}
		i, ok := ConstInt(v)
		return int(i), ok
	}
	switch xx := x.(type) {
	case *Slice:
		l, ok1 := geti(lo, 0)
		h, ok2 := geti(hi, xx.Len)
		m, ok3 := geti(mx, xx.Cap)
		if !ok1 || !ok2 || !ok3 {
			break
		}
		if l < 0 || h < l || h > xx.Cap || m > xx.Cap || m < h {
			in.abort("panic", "slice bounds out of range", site)
		}
		return &Slice{Cell: xx.Cell, Off: xx.Off + l, Len: h - l, Cap: m - l, T: xx.T}
	case *Ptr: // pointer to array
		if arr, ok := getPath(xx.Cell.V, xx.Path).(*Array); ok && len(xx.Path) == 0 {
			l, ok1 := geti(lo, 0)
			h, ok2 := geti(hi, len(arr.E))
			if ok1 && ok2 {
				if l < 0 || h < l || h > len(arr.E) {
					in.abort("panic", "slice bounds out of range", site)
				}
				return &Slice{Cell: xx.Cell, Off: l, Len: h - l, Cap: len(arr.E) - l, T: arr.T}
			}
		}
	case Const:
		if s, ok := ConstString(xx); ok {
			l, ok1 := geti(lo, 0)
			h, ok2 := geti(hi, len(s))
			if ok1 && ok2 {
				if l < 0 || h < l || h > len(s) {
					in.abort("panic", "slice bounds out of range", site)
				}
				return Const{V: constant.MakeString(s[l:h]), T: xx.T}
			}
		}
		if xx.V == nil {
			return x
		}
	case Top:
		return xx
	}
	if in.Hooks.Slice != nil {
		if r, ok := in.Hooks.Slice(in, x, lo, hi, mx, site); ok {
			return r
		}
	}
	if _, isSym := x.(*Sym); isSym {
		if hi != nil {
			in.noteIndex("slice", x, hi, site)
		} else if lo != nil {
			in.noteIndex("slice", x, lo, site)
		}
	}
	args := []Val{x}
	for _, a := range []Val{lo, hi, mx} {
		if a == nil {
			args = append(args, Const{})
		} else {
			args = append(args, a)
		}
	}
	var t types.Type
	if v, ok := site.(ssa.Value); ok {
		t = v.Type()
	}
	return &Sym{Op: "slice", Args: args, T: t}
}

func (in *Interp) lookup(m, k Val, x *ssa.Lookup) Val {
	_, constKey := k.(Const)
	if _, isMap := m.(*Map); (!isMap || !constKey) && in.Hooks.Lookup != nil {
		if r, ok := in.Hooks.Lookup(in, m, k, x.CommaOk, x); ok {
			return r
		}
	}
	var res Val
	found := Val(mkBool(false))
	switch mm := m.(type) {
	case *Map:
		if v, ok := mm.M[Key(k)]; ok {
			res, found = v, mkBool(true)
		} else if kb, isBool := boolKey(k); isBool && len(mm.M) > 0 {
			// a map keyed by an unknown truth value: decide the value like a
			// branch would (the decision is shared with every other test of it)
			kc := mkBool(in.Decide(kb, x))
			if v, ok := mm.M[Key(kc)]; ok {
				res, found = v, mkBool(true)
			} else {
				res = Zero(x.X.Type().Underlying().(*types.Map).Elem())
			}
		} else if _, concrete := k.(Const); !concrete && len(mm.M) > 0 {
			// an unknown key may be any of the entries or none of them: one
			// path per possibility (the choice is remembered per key, so that
			// two lookups of the same unknown agree)
			keys := make([]string, 0, len(mm.M))
			for kk := range mm.M {
				keys = append(keys, kk)
			}
			sort.Strings(keys)
			memo := "mapkey " + Key(k) + fmt.Sprintf(" in %p", mm)
			c, seen := in.MapChoice[memo]
			if !seen {
				c = in.Oracle.Choose(len(keys)+1, "unknown key "+clipKey(Key(k))+" of a map with "+strconv.Itoa(len(keys))+" entries")
				if in.MapChoice == nil {
					in.MapChoice = map[string]int{}
				}
				in.MapChoice[memo] = c
			}
			if c < len(keys) {
				res, found = mm.M[keys[c]], mkBool(true)
				in.CondLog = append(in.CondLog, "assume "+clipKey(Key(k))+" is the map key "+keys[c])
			} else {
				res = Zero(x.X.Type().Underlying().(*types.Map).Elem())
				in.CondLog = append(in.CondLog, "assume "+clipKey(Key(k))+" is not a key of the map")
			}
		} else {
			res = Zero(x.X.Type().Underlying().(*types.Map).Elem())
		}
	case Const:
		if s, ok := ConstString(mm); ok { // string index
			i, ok := ConstInt(k)
			if ok && i >= 0 && int(i) < len(s) {
				return MkIntT(int64(s[i]), types.Typ[types.Byte])
			}
		}
		res = Top{"lookup"}
	default:
		res = Top{fmt.Sprintf("lookup in %T", m)}
		found = Top{"lookup ok"}
	}
	if x.CommaOk {
		return &Tuple{E: []Val{res, found}}
	}
	return res
}

func (in *Interp) typeAssert(v Val, x *ssa.TypeAssert) Val {
	zero := func() Val { return Zero(x.AssertedType) }
	switch vv := v.(type) {
	case *Iface:
		ok := false
		if types.IsInterface(x.AssertedType) {
			ok = types.Implements(vv.T, x.AssertedType.Underlying().(*types.Interface))
		} else {
			ok = types.Identical(vv.T, x.AssertedType)
		}
		if x.CommaOk {
			if ok {
				r := Val(vv)
				if !types.IsInterface(x.AssertedType) {
					r = vv.V
				}
				return &Tuple{E: []Val{r, mkBool(true)}}
			}
			if types.IsInterface(x.AssertedType) {
				return &Tuple{E: []Val{nilOf(x.AssertedType), mkBool(false)}}
			}
			return &Tuple{E: []Val{zero(), mkBool(false)}}
		}
		if !ok {
			in.abort("panic", fmt.Sprintf("interface conversion: %s is not %s", typeName(vv.T), typeName(x.AssertedType)), x)
		}
		if types.IsInterface(x.AssertedType) {
			return vv
		}
		return vv.V
	case Const:
		if vv.V == nil {
			if x.CommaOk {
				if types.IsInterface(x.AssertedType) {
					return &Tuple{E: []Val{nilOf(x.AssertedType), mkBool(false)}}
				}
				return &Tuple{E: []Val{zero(), mkBool(false)}}
			}
			in.abort("panic", "interface conversion on nil interface", x)
		}
	case Top:
		return vv
	}
	if in.Hooks.TypeAssert != nil {
		if r, ok := in.Hooks.TypeAssert(in, v, x.AssertedType, x.CommaOk, x); ok {
			return r
		}
	}
	return Top{fmt.Sprintf("type assertion on %s", Key(v))}
}

func (in *Interp) call(fr *Frame, c *ssa.CallCommon, site ssa.Instruction) Val {
	var args []Val
	for _, a := range c.Args {
		args = append(args, in.get(fr, a))
	}
	fnv := in.get(fr, c.Value)
	return in.doCall(fr, c, fnv, args, site)
}

func (in *Interp) doCall(fr *Frame, c *ssa.CallCommon, fnv Val, args []Val, site ssa.Instruction) Val {
	if c.IsInvoke() {
		recv := fnv
		if ifc, ok := recv.(*Iface); ok {
			// concrete dynamic type: find the method
			if fn := in.methodOf(ifc.T, c.Method); fn != nil {
				return in.CallFn(fn, append([]Val{in.recvFor(fn, ifc)}, args...), nil, site)
			}
			return Top{"method " + c.Method.Name() + " not found on " + typeName(ifc.T)}
		}
		if in.Hooks.Invoke != nil {
			if r, ok := in.Hooks.Invoke(in, recv, c.Method, args, site); ok {
				return r
			}
		}
		if IsNil(recv) {
			in.abort("panic", "method call on nil interface", site)
		}
		return Top{"invoke " + c.Method.Name() + " on " + Key(recv)}
	}
	switch f := fnv.(type) {
	case *Closure:
		return in.CallFn(f.Fn, args, f.Bind, site)
	case *Builtin:
		return in.builtin(f.Name, args, c, site)
	case Top:
		return f
	}
	if in.Hooks.CallValue != nil {
		if r, ok := in.Hooks.CallValue(in, fnv, args, site); ok {
			return r
		}
	}
	if IsNil(fnv) {
		in.abort("panic", "call of nil function", site)
	}
	return Top{"call of " + Key(fnv)}
}

func (in *Interp) recvFor(fn *ssa.Function, ifc *Iface) Val {
	// value receiver method called on a pointer dynamic type or vice versa
	recvT := fn.Signature.Recv().Type()
	_, wantPtr := recvT.Underlying().(*types.Pointer)
	_, havePtr := ifc.T.Underlying().(*types.Pointer)
	if wantPtr == havePtr {
		return ifc.V
	}
	if !wantPtr && havePtr {
		return in.Load(ifc.V, recvT, nil)
	}
	return ifc.V
}

func (in *Interp) methodOf(t types.Type, m *types.Func) *ssa.Function {
	ms := in.Prog.MethodSets.MethodSet(t)
	sel := ms.Lookup(m.Pkg(), m.Name())
	if sel == nil {
		return nil
	}
	fn := in.Prog.MethodValue(sel)
	if fn == nil {
		return nil
	}
	// unwrap trivial synthetic wrappers: declared method with identical receiver kind
	if fn.Synthetic != "" {
		if obj, ok := sel.Obj().(*types.Func); ok {
			if d := in.Prog.FuncValue(obj); d != nil && d.Blocks != nil {
				recvT := d.Signature.Recv().Type()
				_, wantPtr := recvT.Underlying().(*types.Pointer)
				_, havePtr := t.Underlying().(*types.Pointer)
				if wantPtr == havePtr || (!wantPtr && havePtr) {
					return d
				}
			}
		}
	}
	return fn
}

// MethodOf resolves method m on dynamic type t.
func (in *Interp) MethodOf(t types.Type, m *types.Func) *ssa.Function { return in.methodOf(t, m) }

func (in *Interp) builtin(name string, args []Val, c *ssa.CallCommon, site ssa.Instruction) Val {
	if in.Hooks.Builtin != nil {
		if r, ok := in.Hooks.Builtin(in, name, args, site); ok {
			return r
		}
	}
	switch name {
	case "len", "cap":
		return in.lenOf(args[0], name)
	case "append":
		return in.appendTo(args[0], args[1], c, site)
	case "copy":
		dst, ok1 := args[0].(*Slice)
		src, ok2 := args[1].(*Slice)
		if ok1 && ok2 {
			n := min(dst.Len, src.Len)
			se := src.Elems()
			for i := 0; i < n; i++ {
				(&Ptr{Cell: dst.Cell, Path: []int{dst.Off + i}}).Cell.V = setPath(dst.Cell.V, []int{dst.Off + i}, se[i])
			}
			return MkInt(int64(n))
		}
		return Top{"copy on abstract slices"}
	case "max", "min":
		allc := true
		var best int64
		for i, a := range args {
			v, ok := ConstInt(a)
			if !ok {
				allc = false
				break
			}
			if i == 0 || (name == "max" && v > best) || (name == "min" && v < best) {
				best = v
			}
		}
		if allc {
			return MkIntT(best, args[0].(Const).T)
		}
		return &Sym{Op: name, Args: args, T: c.Signature().Results().At(0).Type()}
	case "print", "println":
		return nil
	case "delete":
		if m, ok := args[0].(*Map); ok {
			delete(m.M, Key(args[1]))
			return nil
		}
		return Top{"delete"}
	case "ssa:wrapnilchk":
		return args[0]
	case "panic":
		in.abort("panic", Key(args[0]), site)
	}
	return Top{"builtin " + name}
}

func (in *Interp) lenOf(x Val, name string) Val {
	switch xx := x.(type) {
	case *Slice:
		if name == "cap" {
			return MkInt(int64(xx.Cap))
		}
		return MkInt(int64(xx.Len))
	case Const:
		if s, ok := ConstString(xx); ok {
			return MkInt(int64(len(s)))
		}
		if xx.V == nil {
			return MkInt(0)
		}
	case *Array:
		return MkInt(int64(len(xx.E)))
	case *Map:
		return MkInt(int64(len(xx.M)))
	case *Ptr:
		if arr, ok := getPath(xx.Cell.V, xx.Path).(*Array); ok {
			return MkInt(int64(len(arr.E)))
		}
	case Top:
		return xx
	}
	if in.Hooks.Len != nil {
		if r, ok := in.Hooks.Len(in, x); ok {
			return r
		}
	}
	return &Sym{Op: name, Args: []Val{x}, T: types.Typ[types.Int], Lo: I64(0)}
}

// LenOf is len(x).
func (in *Interp) LenOf(x Val) Val { return in.lenOf(x, "len") }

func (in *Interp) appendTo(s, elems Val, c *ssa.CallCommon, site ssa.Instruction) Val {
	if in.Hooks.Append != nil {
		if r, ok := in.Hooks.Append(in, s, elems, site); ok {
			return r
		}
	}
	var add []Val
	switch e := elems.(type) {
	case *Slice:
		add = e.Elems()
	case Const:
		if e.V == nil {
			add = nil
		} else if str, ok := ConstString(e); ok {
			for i := 0; i < len(str); i++ {
				add = append(add, MkIntT(int64(str[i]), types.Typ[types.Byte]))
			}
		} else {
			return Top{"append of constant"}
		}
	default:
		return &Sym{Op: "append", Args: []Val{s, elems}, T: c.Signature().Results().At(0).Type()}
	}
	switch ss := s.(type) {
	case *Slice:
		if ss.Len+len(add) <= ss.Cap {
			arr := ss.Cell.V.(*Array)
			e := append([]Val(nil), arr.E...)
			for i, a := range add {
				e[ss.Off+ss.Len+i] = a
			}
			ss.Cell.V = &Array{T: arr.T, E: e}
			return &Slice{Cell: ss.Cell, Off: ss.Off, Len: ss.Len + len(add), Cap: ss.Cap, T: ss.T}
		}
		ne := append(append([]Val(nil), ss.Elems()...), add...)
		ncap := max(2*ss.Cap, len(ne))
		for len(ne) < ncap {
			ne = append(ne, Zero(ss.T))
		}
		return &Slice{Cell: in.newCell(&Array{T: ss.T, E: ne}, "append"), Off: 0, Len: ss.Len + len(add), Cap: ncap, T: ss.T}
	case Const:
		if ss.V == nil {
			et := c.Signature().Results().At(0).Type().Underlying().(*types.Slice).Elem()
			return NewSliceIn(in, et, add)
		}
	}
	return &Sym{Op: "append", Args: []Val{s, elems}, T: c.Signature().Results().At(0).Type()}
}

// NewSliceIn allocates a concrete slice with a cell owned by this path.
func NewSliceIn(in *Interp, elem types.Type, elems []Val) *Slice {
	e := append([]Val(nil), elems...)
	return &Slice{Cell: in.newCell(&Array{T: elem, E: e}, "slice"), Off: 0, Len: len(e), Cap: len(e), T: elem}
}

// extern models a few body-less or standard library functions.
func (in *Interp) extern(fn *ssa.Function, args []Val, site ssa.Instruction) (Val, bool) {
	name := fn.String()
	switch name {
	case "strings.Contains":
		s, ok1 := ConstString(args[0])
		sub, ok2 := ConstString(args[1])
		if ok1 && ok2 {
			return mkBool(strings.Contains(s, sub)), true
		}
		return &Sym{Op: name, Args: args, T: types.Typ[types.Bool]}, true
	}
	return nil, false
}

// StdCall lets Hooks.Call implementations share the default modelling of
// standard library functions that have bodies in the SSA program but should
// not be interpreted.
func StdCall(in *Interp, fn *ssa.Function, args []Val) (Val, bool) {
	if fn.Pkg == nil {
		return nil, false
	}
	name := fn.String()
	switch name {
	case "strings.Contains":
		s, ok1 := ConstString(args[0])
		sub, ok2 := ConstString(args[1])
		if ok1 && ok2 {
			return mkBool(strings.Contains(s, sub)), true
		}
		return &Sym{Op: name, Args: args, T: types.Typ[types.Bool]}, true
	case "fmt.Errorf", "errors.New":
		return &Iface{T: types.Universe.Lookup("error").Type(), V: &Sym{Op: name, Args: args[:1], T: nil}}, true
	}
	return nil, false
}

// CallClosure calls a closure value; abnormal termination is returned.
func (in *Interp) CallClosure(c *Closure, args []Val) (res Val, end *PathEnd) {
	defer func() {
		if r := recover(); r != nil {
			if pe, ok := r.(*PathEnd); ok {
				end = pe
				return
			}
			panic(r)
		}
	}()
	return in.CallFn(c.Fn, args, c.Bind, nil), nil
}

// DefaultModule is the module prefix new interpreters use.
var DefaultModule = ""

func inModule(fn *ssa.Function, mod string) bool {
	if fn.Pkg != nil {
		return strings.HasPrefix(fn.Pkg.Pkg.Path(), mod)
	}
	if o := fn.Origin(); o != nil && o.Pkg != nil {
		return strings.HasPrefix(o.Pkg.Pkg.Path(), mod)
	}
	if fn.Object() != nil && fn.Object().Pkg() != nil {
		return strings.HasPrefix(fn.Object().Pkg().Path(), mod)
	}
	if fn.Parent() != nil {
		return inModule(fn.Parent(), mod)
	}
	return true
}

// containerAlgo: the generic algorithms of packages slices and maps only walk
// their container and hand the elements to the caller's function or to ==;
// they are interpreted whenever the container itself is known, whatever the
// elements are.
func containerAlgo(fn *ssa.Function) bool {
	o := fn
	if fn.Origin() != nil {
		o = fn.Origin()
	}
	if o.Pkg == nil {
		return false
	}
	switch o.Pkg.Pkg.Path() {
	case "slices", "maps":
		return true
	}
	return false
}

func shapeConcrete(args []Val) bool {
	for _, a := range args {
		switch a.(type) {
		case *Sym, Top, *Global:
			return false
		}
	}
	return true
}

func allConcrete(args []Val) bool {
	for _, a := range args {
		if !concrete(a, 0) {
			return false
		}
	}
	return true
}

func concrete(v Val, depth int) bool {
	if depth > 6 {
		return true
	}
	switch x := v.(type) {
	case nil, Const, *Closure, *Builtin:
		return true
	case *Sym, Top, *Global:
		return false
	case *Struct:
		for _, f := range x.F {
			if !concrete(f, depth+1) {
				return false
			}
		}
		return true
	case *Array:
		for _, f := range x.E {
			if !concrete(f, depth+1) {
				return false
			}
		}
		return true
	case *Slice:
		for _, f := range x.Elems() {
			if !concrete(f, depth+1) {
				return false
			}
		}
		return true
	case *Iface:
		return concrete(x.V, depth+1)
	case *Ptr:
		return concrete(x.Cell.V, depth+1)
	case *Tuple:
		for _, f := range x.E {
			if !concrete(f, depth+1) {
				return false
			}
		}
		return true
	case *Map:
		return true
	}
	return false
}

func opaqueResult(fn *ssa.Function, args []Val) Val {
	name := fn.String()
	if i := strings.Index(name, "["); i > 0 && !strings.HasPrefix(name, "(") {
		name = name[:i]
	}
	res := fn.Signature.Results()
	switch res.Len() {
	case 0:
		return nil
	case 1:
		return &Sym{Op: name, Args: args, T: res.At(0).Type()}
	}
	t := &Tuple{}
	for i := 0; i < res.Len(); i++ {
		t.E = append(t.E, &Sym{Op: fmt.Sprintf("%s.%d", name, i), Args: args, T: res.At(i).Type()})
	}
	return t
}

// InitGlobals interprets the initialiser of one package and returns the
// package level variables it set up (imported packages count as initialised).
// Engines that evaluate functions of the package share the result, so that
// lookup tables and other computed package variables have their real contents.
func InitGlobals(prog *ssa.Program, pkg *ssa.Package) (map[*ssa.Global]*Cell, *PathEnd) {
	in := NewInterp(prog, &Oracle{})
	in.MaxStep = 2000000
	in.Hooks.Global = func(in *Interp, g *ssa.Global) (Val, bool) {
		if strings.HasPrefix(g.Name(), "init$guard") {
			return MkBool(g.Pkg != pkg), true
		}
		if g.Pkg == pkg {
			return Zero(g.Type().Underlying().(*types.Pointer).Elem()), true
		}
		return nil, false
	}
	in.Hooks.Call = func(in *Interp, fn *ssa.Function, args []Val, site ssa.Instruction) (Val, bool) {
		if fn.Name() == "init" && fn.Pkg != pkg {
			return nil, true
		}
		return nil, false
	}
	fn := pkg.Func("init")
	if fn == nil {
		return in.Globals, nil
	}
	_, end := in.Run(fn, nil)
	return in.Globals, end
}

// strIter is the iterator of a range loop over a constant string.
type strIter struct {
	s   string
	pos int
}

func (it *strIter) ObjString() string { return fmt.Sprintf("range(%q)@%d", it.s, it.pos) }

// pureStd evaluates pure string predicates of the standard library on
// constant arguments (their bodies end in assembly the interpreter cannot follow).
func pureStd(fn *ssa.Function, args []Val) (Val, bool) {
	if fn.Pkg == nil || fn.Pkg.Pkg.Path() != "strings" {
		return nil, false
	}
	str := func(i int) (string, bool) {
		if i >= len(args) {
			return "", false
		}
		return ConstString(args[i])
	}
	num := func(i int) (int64, bool) {
		if i >= len(args) {
			return 0, false
		}
		return ConstInt(args[i])
	}
	a, okA := str(0)
	if !okA {
		return nil, false
	}
	switch fn.Name() {
	case "Contains", "HasPrefix", "HasSuffix", "ContainsAny", "Index", "LastIndex", "Count", "IndexAny":
		b, ok := str(1)
		if !ok {
			return nil, false
		}
		switch fn.Name() {
		case "Contains":
			return mkBool(strings.Contains(a, b)), true
		case "HasPrefix":
			return mkBool(strings.HasPrefix(a, b)), true
		case "HasSuffix":
			return mkBool(strings.HasSuffix(a, b)), true
		case "ContainsAny":
			return mkBool(strings.ContainsAny(a, b)), true
		case "Index":
			return MkInt(int64(strings.Index(a, b))), true
		case "LastIndex":
			return MkInt(int64(strings.LastIndex(a, b))), true
		case "Count":
			return MkInt(int64(strings.Count(a, b))), true
		case "IndexAny":
			return MkInt(int64(strings.IndexAny(a, b))), true
		}
	case "ContainsRune", "IndexRune":
		r, ok := num(1)
		if !ok {
			return nil, false
		}
		if fn.Name() == "ContainsRune" {
			return mkBool(strings.ContainsRune(a, rune(r))), true
		}
		return MkInt(int64(strings.IndexRune(a, rune(r)))), true
	case "IndexByte", "LastIndexByte":
		c, ok := num(1)
		if !ok {
			return nil, false
		}
		if fn.Name() == "IndexByte" {
			return MkInt(int64(strings.IndexByte(a, byte(c)))), true
		}
		return MkInt(int64(strings.LastIndexByte(a, byte(c)))), true
	}
	return nil, false
}

func clipKey(s string) string {
	if len(s) > 80 {
		return s[:80] + "…"
	}
	return s
}

// boolKey: an unknown value of boolean type.
func boolKey(k Val) (Val, bool) {
	if _, isC := k.(Const); isC {
		return nil, false
	}
	sy, ok := k.(*Sym)
	if !ok || sy.T == nil {
		return nil, false
	}
	b, ok := sy.T.Underlying().(*types.Basic)
	if !ok || b.Info()&types.IsBoolean == 0 {
		return nil, false
	}
	return k, true
}
