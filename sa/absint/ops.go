package absint

import (
	"go/constant"
	"go/token"
	"go/types"
	"math"
	"math/big"
	"strings"
)

func basicOf(t types.Type) *types.Basic {
	if t == nil {
		return nil
	}
	b, _ := t.Underlying().(*types.Basic)
	return b
}

func intBits(b *types.Basic) (bits int, unsigned bool, ok bool) {
	switch b.Kind() {
	case types.Int, types.Int64, types.UntypedInt:
		return 64, false, true
	case types.Int8:
		return 8, false, true
	case types.Int16:
		return 16, false, true
	case types.Int32, types.UntypedRune:
		return 32, false, true
	case types.Uint, types.Uint64, types.Uintptr:
		return 64, true, true
	case types.Uint8:
		return 8, true, true
	case types.Uint16:
		return 16, true, true
	case types.Uint32:
		return 32, true, true
	}
	return 0, false, false
}

// wrapInt truncates an exact integer constant to the representation of t.
func wrapInt(v constant.Value, t types.Type) constant.Value {
	b := basicOf(t)
	if b == nil || v == nil || v.Kind() != constant.Int {
		return v
	}
	bits, unsigned, ok := intBits(b)
	if !ok {
		return v
	}
	bi, ok := constant.Val(v).(*big.Int)
	if !ok {
		i, _ := constant.Int64Val(v)
		bi = big.NewInt(i)
	}
	mod := new(big.Int).Lsh(big.NewInt(1), uint(bits))
	r := new(big.Int).Mod(bi, mod) // 0 <= r < 2^bits
	if !unsigned {
		half := new(big.Int).Lsh(big.NewInt(1), uint(bits-1))
		if r.Cmp(half) >= 0 {
			r.Sub(r, mod)
		}
	}
	return constant.Make(r)
}

func isIntType(t types.Type) bool {
	b := basicOf(t)
	return b != nil && b.Info()&types.IsInteger != 0
}
func isFloatType(t types.Type) bool {
	b := basicOf(t)
	return b != nil && b.Info()&types.IsFloat != 0
}
func isStringType(t types.Type) bool {
	b := basicOf(t)
	return b != nil && b.Info()&types.IsString != 0
}
func isBoolType(t types.Type) bool {
	b := basicOf(t)
	return b != nil && b.Info()&types.IsBoolean != 0
}

// symInterval returns the interval known for an integer value.
func interval(v Val) (lo, hi *int64) {
	switch x := v.(type) {
	case Const:
		if i, ok := ConstInt(x); ok {
			return &i, &i
		}
	case *Sym:
		return x.Lo, x.Hi
	}
	return nil, nil
}

func addP(a, b *int64) *int64 {
	if a == nil || b == nil {
		return nil
	}
	s := *a + *b
	if (*b > 0 && s < *a) || (*b < 0 && s > *a) {
		return nil
	}
	return &s
}
func negP(a *int64) *int64 {
	if a == nil || *a == math.MinInt64 {
		return nil
	}
	s := -*a
	return &s
}

// toLin converts an integer value into linear form, if possible.
func toLin(v Val) (terms map[string]int64, c int64, ok bool) {
	switch x := v.(type) {
	case Const:
		if i, ok := ConstInt(x); ok {
			return nil, i, true
		}
	case *Sym:
		if !isIntType(x.T) {
			return nil, 0, false
		}
		if x.Op == "lin" {
			return x.Terms, x.C, true
		}
		return map[string]int64{x.Key(): 1}, 0, true
	}
	return nil, 0, false
}

// linAtoms remembers the atom (non linear sub term) behind each linear variable.
func mkLin(t types.Type, ta map[string]int64, ca int64, tb map[string]int64, cb int64, sign int64, atoms map[string]Val) Val {
	terms := map[string]int64{}
	for k, v := range ta {
		terms[k] += v
	}
	for k, v := range tb {
		terms[k] += sign * v
	}
	for k, v := range terms {
		if v == 0 {
			delete(terms, k)
		}
	}
	c := ca + sign*cb
	if len(terms) == 0 {
		return Const{V: wrapInt(constant.MakeInt64(c), t), T: t}
	}
	if len(terms) == 1 && c == 0 {
		for k, v := range terms {
			if v == 1 {
				if a, ok := atoms[k]; ok {
					return a
				}
			}
		}
	}
	return &Sym{Op: "lin", T: t, Terms: terms, C: c}
}

func collectAtoms(v Val, atoms map[string]Val) {
	if s, ok := v.(*Sym); ok {
		if s.Op == "lin" {
			// atoms of an existing linear form are not recoverable individually; keep keys only
			return
		}
		atoms[s.Key()] = s
	}
}

var cmpNeg = map[token.Token]token.Token{
	token.EQL: token.NEQ, token.NEQ: token.EQL,
	token.LSS: token.GEQ, token.GEQ: token.LSS,
	token.GTR: token.LEQ, token.LEQ: token.GTR,
}

func isCmp(op token.Token) bool {
	_, ok := cmpNeg[op]
	return ok
}

// BinOp evaluates x op y for SSA type t of the result (operand type xt).
func (in *Interp) BinOp(op token.Token, x, y Val, t types.Type, xt types.Type) Val {
	if tx, ok := x.(Top); ok {
		return tx
	}
	if ty, ok := y.(Top); ok {
		return ty
	}
	cx, xc := x.(Const)
	cy, yc := y.(Const)
	if xc && yc && cx.V != nil && cy.V != nil {
		return constBinOp(op, cx, cy, t, xt)
	}
	// b == true, b != false are b; b == false, b != true are !b
	if (op == token.EQL || op == token.NEQ) && (xc != yc) {
		c, other := cx, y
		if yc {
			c, other = cy, x
		}
		if c.V != nil && c.V.Kind() == constant.Bool {
			if _, isSym := other.(*Sym); isSym {
				if constant.BoolVal(c.V) == (op == token.EQL) {
					return other
				}
				return in.Not(other)
			}
		}
	}
	// nil comparisons
	if op == token.EQL || op == token.NEQ {
		if r, ok := in.eqVals(x, y); ok {
			if op == token.NEQ {
				r = !r
			}
			return mkBool(r)
		}
	}
	// hooks for client objects
	if in.Hooks.BinOp != nil {
		if r, ok := in.Hooks.BinOp(in, op, x, y, t); ok {
			return r
		}
	}
	// integer linear arithmetic and interval comparisons
	if isIntType(xt) {
		switch op {
		case token.ADD, token.SUB:
			ta, ca, oka := toLin(x)
			tb, cb, okb := toLin(y)
			if oka && okb {
				atoms := map[string]Val{}
				collectAtoms(x, atoms)
				collectAtoms(y, atoms)
				sign := int64(1)
				if op == token.SUB {
					sign = -1
				}
				r := mkLin(t, ta, ca, tb, cb, sign, atoms)
				if rs, ok := r.(*Sym); ok && rs.Op == "lin" {
					// interval of the result
					lx, hx := interval(x)
					ly, hy := interval(y)
					if op == token.ADD {
						rs.Lo, rs.Hi = addP(lx, ly), addP(hx, hy)
					} else {
						rs.Lo, rs.Hi = addP(lx, negP(hy)), addP(hx, negP(ly))
					}
				}
				return r
			}
		case token.LSS, token.LEQ, token.GTR, token.GEQ, token.EQL, token.NEQ:
			if r, ok := cmpInterval(op, x, y); ok {
				return mkBool(r)
			}
			// difference is constant?
			ta, ca, oka := toLin(x)
			tb, cb, okb := toLin(y)
			if oka && okb {
				d := mkLin(types.Typ[types.Int], ta, ca, tb, cb, -1, map[string]Val{})
				if dc, ok := d.(Const); ok {
					di, _ := ConstInt(dc)
					return mkBool(cmpInts(op, di, 0))
				}
			}
		}
		// simple identities
		if op == token.OR || op == token.XOR || op == token.ADD {
			if i, ok := ConstInt(y); ok && i == 0 {
				return x
			}
			if i, ok := ConstInt(x); ok && i == 0 {
				return y
			}
		}
	}
	if isStringType(xt) && op == token.ADD {
		if s, ok := ConstString(x); ok && s == "" {
			return y
		}
		if s, ok := ConstString(y); ok && s == "" {
			return x
		}
	}
	if isBoolType(xt) && (op == token.EQL || op == token.NEQ) {
		// b == true etc.
		if b, ok := ConstBool(y); ok {
			if (op == token.EQL) == b {
				return x
			}
			return in.Not(x)
		}
	}
	name := op.String()
	s := &Sym{Op: name, Args: []Val{x, y}, T: t}
	return s
}

func cmpInts(op token.Token, a, b int64) bool {
	switch op {
	case token.LSS:
		return a < b
	case token.LEQ:
		return a <= b
	case token.GTR:
		return a > b
	case token.GEQ:
		return a >= b
	case token.EQL:
		return a == b
	case token.NEQ:
		return a != b
	}
	return false
}

// cmpInterval decides a comparison from interval facts when possible.
func cmpInterval(op token.Token, x, y Val) (bool, bool) {
	lx, hx := interval(x)
	ly, hy := interval(y)
	lt := func(a, b *int64) bool { return a != nil && b != nil && *a < *b }
	le := func(a, b *int64) bool { return a != nil && b != nil && *a <= *b }
	switch op {
	case token.LSS:
		if lt(hx, ly) {
			return true, true
		}
		if le(hy, lx) {
			return false, true
		}
	case token.LEQ:
		if le(hx, ly) {
			return true, true
		}
		if lt(hy, lx) {
			return false, true
		}
	case token.GTR:
		if lt(hy, lx) {
			return true, true
		}
		if le(hx, ly) {
			return false, true
		}
	case token.GEQ:
		if le(hy, lx) {
			return true, true
		}
		if lt(hx, ly) {
			return false, true
		}
	case token.EQL:
		if lt(hx, ly) || lt(hy, lx) {
			return false, true
		}
	case token.NEQ:
		if lt(hx, ly) || lt(hy, lx) {
			return true, true
		}
	}
	return false, false
}

func constBinOp(op token.Token, x, y Const, t, xt types.Type) Val {
	switch op {
	case token.EQL, token.NEQ, token.LSS, token.LEQ, token.GTR, token.GEQ:
		if x.V.Kind() == constant.Bool {
			a, b := constant.BoolVal(x.V), constant.BoolVal(y.V)
			if op == token.EQL {
				return mkBool(a == b)
			}
			return mkBool(a != b)
		}
		return mkBool(constant.Compare(x.V, op, y.V))
	case token.SHL, token.SHR:
		n, ok := constant.Uint64Val(constant.ToInt(y.V))
		if !ok || n > 1024 {
			return Top{"shift count"}
		}
		xv := x.V
		if op == token.SHR {
			// arithmetic / logical according to the type: operate on the wrapped value
			xv = wrapInt(xv, xt)
		}
		return Const{V: wrapInt(constant.Shift(xv, op, uint(n)), t), T: t}
	case token.LAND:
		return mkBool(constant.BoolVal(x.V) && constant.BoolVal(y.V))
	case token.LOR:
		return mkBool(constant.BoolVal(x.V) || constant.BoolVal(y.V))
	case token.QUO, token.REM:
		if isIntType(xt) {
			if i, ok := ConstInt(y); ok && i == 0 {
				return Top{"constant division by zero"}
			}
			if op == token.QUO {
				return Const{V: wrapInt(constant.BinaryOp(x.V, token.QUO_ASSIGN, y.V), t), T: t}
			}
		}
	}
	if op == token.AND_NOT {
		ny := constant.UnaryOp(token.XOR, y.V, 0)
		return Const{V: wrapInt(constant.BinaryOp(x.V, token.AND, ny), t), T: t}
	}
	r := constant.BinaryOp(x.V, op, y.V)
	if isIntType(t) {
		r = wrapInt(r, t)
	}
	return Const{V: r, T: t}
}

// Not negates a boolean value.
func (in *Interp) Not(x Val) Val {
	if b, ok := ConstBool(x); ok {
		return mkBool(!b)
	}
	if s, ok := x.(*Sym); ok {
		if s.Op == "!" && len(s.Args) == 1 {
			return s.Args[0]
		}
		if tok, ok := tokOf(s.Op); ok && len(s.Args) == 2 {
			// !(x < y) is x >= y only without NaN: rewrite ordered comparisons of non-floats only
			exact := tok == token.EQL || tok == token.NEQ
			if !exact {
				ta, tb := natType(s.Args[0]), natType(s.Args[1])
				exact = ta != nil && tb != nil && !isFloatType(ta) && !isFloatType(tb)
			}
			if n, ok := cmpNeg[tok]; ok && exact {
				return &Sym{Op: n.String(), Args: s.Args, T: s.T}
			}
		}
	}
	if t, ok := x.(Top); ok {
		return t
	}
	return &Sym{Op: "!", Args: []Val{x}, T: types.Typ[types.Bool]}
}

func tokOf(s string) (token.Token, bool) {
	for _, t := range []token.Token{token.EQL, token.NEQ, token.LSS, token.LEQ, token.GTR, token.GEQ} {
		if t.String() == s {
			return t, true
		}
	}
	return 0, false
}

// eqVals decides equality of two non-constant-pair values when it is decidable.
func (in *Interp) eqVals(x, y Val) (bool, bool) {
	if IsNil(x) || IsNil(y) {
		other := y
		if IsNil(y) {
			other = x
		}
		switch o := other.(type) {
		case Const:
			return o.V == nil, true
		case *Ptr, *Slice, *Iface, *Closure, *Struct, *Map, *Global, *Builtin:
			_ = o
			return false, true
		}
		return false, false
	}
	switch a := x.(type) {
	case *Ptr:
		if b, ok := y.(*Ptr); ok {
			if a.Cell != b.Cell || len(a.Path) != len(b.Path) {
				return false, true
			}
			for i := range a.Path {
				if a.Path[i] != b.Path[i] {
					return false, true
				}
			}
			return true, true
		}
	case *Global:
		if b, ok := y.(*Global); ok {
			return a.G == b.G, true
		}
	case *Iface:
		if b, ok := y.(*Iface); ok {
			if !types.Identical(a.T, b.T) {
				return false, true
			}
			return in.eqDeep(a.V, b.V)
		}
	case *Struct:
		if _, ok := y.(*Struct); ok {
			return in.eqDeep(x, y)
		}
	case *Sym:
		if b, ok := y.(*Sym); ok && a.Key() == b.Key() && !isFloatType(a.T) {
			return true, true
		}
	}
	return false, false
}

func (in *Interp) eqDeep(x, y Val) (bool, bool) {
	switch a := x.(type) {
	case Const:
		if b, ok := y.(Const); ok {
			if a.V == nil || b.V == nil {
				return a.V == nil && b.V == nil, true
			}
			return constant.Compare(a.V, token.EQL, b.V), true
		}
	case *Struct:
		b, ok := y.(*Struct)
		if !ok || len(a.F) != len(b.F) {
			return false, false
		}
		all := true
		for i := range a.F {
			r, ok := in.eqDeep(a.F[i], b.F[i])
			if !ok {
				return false, false
			}
			if !r {
				all = false
			}
		}
		return all, true
	}
	return in.eqVals(x, y)
}

// UnOp evaluates a unary operator other than load.
func (in *Interp) UnOp(op token.Token, x Val, t types.Type) Val {
	if tx, ok := x.(Top); ok {
		return tx
	}
	switch op {
	case token.NOT:
		return in.Not(x)
	case token.SUB:
		if c, ok := x.(Const); ok && c.V != nil {
			r := constant.UnaryOp(token.SUB, c.V, 0)
			if isIntType(t) {
				r = wrapInt(r, t)
			}
			return Const{V: r, T: t}
		}
		if isIntType(t) {
			ta, ca, ok := toLin(x)
			if ok {
				return mkLin(t, nil, 0, ta, ca, -1, map[string]Val{})
			}
		}
	case token.XOR:
		if c, ok := x.(Const); ok && c.V != nil {
			b := basicOf(t)
			prec := uint(0)
			if b != nil {
				if bits, unsigned, ok := intBits(b); ok && unsigned {
					prec = uint(bits)
				}
			}
			return Const{V: wrapInt(constant.UnaryOp(token.XOR, c.V, prec), t), T: t}
		}
	}
	return &Sym{Op: "u" + op.String(), Args: []Val{x}, T: t}
}

// Convert implements ssa.Convert between basic types (and pointer casts).
func (in *Interp) Convert(x Val, from, to types.Type) Val {
	if tx, ok := x.(Top); ok {
		return tx
	}
	tb, fb := basicOf(to), basicOf(from)
	// pointer <-> unsafe.Pointer
	if p, ok := x.(*Ptr); ok {
		np := *p
		if pt, ok := to.Underlying().(*types.Pointer); ok {
			np.As = pt.Elem()
		}
		return &np
	}
	if tb != nil && tb.Kind() == types.UnsafePointer {
		return x
	}
	if fb != nil && fb.Kind() == types.UnsafePointer {
		// unsafe.Pointer -> *T of an unknown pointer
		if s, ok := x.(*Sym); ok {
			return &Sym{Op: "ptrcast", Args: []Val{s}, T: to}
		}
		if IsNil(x) {
			return nilOf(to)
		}
		return x
	}
	if c, ok := x.(Const); ok && c.V != nil && tb != nil {
		switch {
		case tb.Info()&types.IsInteger != 0:
			switch c.V.Kind() {
			case constant.Int:
				return Const{V: wrapInt(c.V, to), T: to}
			case constant.Float:
				f, _ := constant.Float64Val(c.V)
				return Const{V: wrapInt(constant.MakeInt64(int64(f)), to), T: to}
			}
		case tb.Info()&types.IsFloat != 0:
			return Const{V: constant.ToFloat(c.V), T: to}
		case tb.Info()&types.IsString != 0:
			if c.V.Kind() == constant.Int {
				r, _ := constant.Int64Val(c.V)
				return Const{V: constant.MakeString(string(rune(r))), T: to}
			}
			return Const{V: c.V, T: to}
		case tb.Info()&types.IsBoolean != 0:
			return Const{V: c.V, T: to}
		}
	}
	if s, ok := x.(*Sym); ok && tb != nil && fb != nil {
		// same-size integer conversions keep the bits
		if bf, _, okf := intBits(fb); okf {
			if bt, _, okt := intBits(tb); okt && bf == bt {
				if strings.HasPrefix(s.Op, "bits:") && len(s.Args) == 1 {
					if inner, ok := s.Args[0].(*Sym); ok && types.Identical(inner.T, to) {
						return inner
					}
				}
				r := &Sym{Op: "bits:" + typeName(to), Args: []Val{x}, T: to}
				if !isUnsigned(fb) && !isUnsigned(tb) {
					r.Lo, r.Hi = s.Lo, s.Hi
				}
				if types.Identical(from, to) {
					return x
				}
				// int <-> int64 style: identical representation and signedness: keep the value
				if isUnsigned(fb) == isUnsigned(tb) {
					c := *s
					c.T = to
					c.key = ""
					return &c
				}
				return r
			}
		}
		return &Sym{Op: "conv:" + typeName(to), Args: []Val{x}, T: to}
	}
	if _, ok := x.(Object); ok {
		return x
	}
	if _, ok := x.(*Slice); ok {
		return x
	}
	return &Sym{Op: "conv:" + typeName(to), Args: []Val{x}, T: to}
}

func isUnsigned(b *types.Basic) bool {
	_, u, _ := intBits(b)
	return u
}

// Reinterpret models *(*T)(unsafe.Pointer(&x)) on a value of another type of
// the same size: the bits are kept.
func Reinterpret(v Val, to types.Type) Val {
	switch x := v.(type) {
	case *Sym:
		if types.Identical(x.T, to) {
			return x
		}
		if strings.HasPrefix(x.Op, "bits:") && len(x.Args) == 1 {
			if inner, ok := x.Args[0].(*Sym); ok && types.Identical(inner.T, to) {
				return inner
			}
			if inner, ok := x.Args[0].(Const); ok && types.Identical(inner.T, to) {
				return inner
			}
		}
		return &Sym{Op: "bits:" + typeName(to), Args: []Val{v}, T: to}
	case Const:
		if x.T != nil && types.Identical(x.T, to) {
			return x
		}
		if x.V != nil && isIntType(to) && x.V.Kind() == constant.Int {
			return Const{V: wrapInt(x.V, to), T: to}
		}
		return &Sym{Op: "bits:" + typeName(to), Args: []Val{v}, T: to}
	}
	return v
}
