// Package valtab extracts the operator table of package value: for every
// operator method, every opcode the VM can pass to it and every pair of
// operand kinds, the method's SSA is interpreted abstractly (kinds concrete,
// payloads symbolic) and every path is classified by its result and error.
// The table is compared with the documented value algebra.
package valtab

import (
	"fmt"
	"go/types"
	"sort"
	"strings"

	"calcsa/absint"
	"calcsa/engines/vmshape"
	"calcsa/load"
	"calcsa/oblig"

	"golang.org/x/tools/go/ssa"
)

var kindNames = []string{"nil", "int", "float", "string", "array", "bool", "function"}

type tab struct {
	unprovedIdx map[string]string // operator method / expression -> "pos|description"
	nIdx        int
	p           *load.Program
	s           *oblig.Set
	valT        types.Type
	vst         *types.Struct
	fTyp        int
	fMorph      int
	fPtr        int
	kinds       map[string]int64 // nilT.. -> value
	kname       map[int64]string
	ops         map[string]int64
	opName      map[int64]string
	paths       int
	divs        map[string]bool // positions of integer divisions executed with a possibly-zero divisor
	shifts      map[string]bool // shifts by a signed, possibly negative count (Go panics)
}

// Outcome is one classified path.
type Outcome struct {
	Conds  []string
	Result string // canonical result or ""
	Err    string // "", "ErrNil", ...
	Abort  string // panic message or undecided reason
}

func (o Outcome) String() string {
	c := strings.Join(o.Conds, " & ")
	if c == "" {
		c = "always"
	}
	r := o.Result
	if o.Err != "" {
		r = o.Err
	}
	if o.Abort != "" {
		r = "ABORT " + o.Abort
	}
	return c + " => " + r
}

func Run(p *load.Program, tier string) *oblig.Set {
	s := oblig.NewSet()
	t := &tab{p: p, s: s, divs: map[string]bool{}, shifts: map[string]bool{}, unprovedIdx: map[string]string{}}
	if !t.anchors() {
		return s
	}
	vm, _ := vmshape.Shared(p)
	if vm == nil {
		s.Unk("ANCHOR", "vm model", "-", "the VM model (opcode sets passed to the operator methods) is not available")
		return s
	}
	t.check(vm)
	s.Count("valtab_paths", t.paths)
	return s
}

func (t *tab) anchors() bool {
	sp := t.p.SPkg("types/value")
	if sp == nil {
		t.s.Unk("ANCHOR", "package value", "-", "not found")
		return false
	}
	obj := sp.Pkg.Scope().Lookup("Type")
	if obj == nil {
		t.s.Unk("ANCHOR", "value.Type", "-", "not found")
		return false
	}
	t.valT = obj.Type()
	st, ok := t.valT.Underlying().(*types.Struct)
	if !ok {
		t.s.Unk("ANCHOR", "value.Type", "-", "not a struct")
		return false
	}
	t.vst = st
	t.fTyp, t.fMorph, t.fPtr = -1, -1, -1
	for i := 0; i < st.NumFields(); i++ {
		f := st.Field(i)
		switch {
		case f.Type().String() == "unsafe.Pointer":
			t.fPtr = i
		case f.Type().Underlying().String() == "uint64":
			t.fMorph = i
		default:
			if n, ok := f.Type().(*types.Named); ok && n.Obj().Name() == "kind" {
				t.fTyp = i
			}
		}
	}
	if t.fTyp < 0 || t.fMorph < 0 || t.fPtr < 0 {
		t.s.Unk("ANCHOR", "value.Type fields", "-", "kind / payload / pointer fields not resolved")
		return false
	}
	t.kinds = t.p.ConstsOfType("types/value", "kind")
	t.kname = map[int64]string{}
	for _, n := range []string{"nilT", "intT", "floatT", "stringT", "arrayT", "boolT", "functionT"} {
		v, ok := t.kinds[n]
		if !ok {
			t.s.Unk("ANCHOR", "value kind "+n, "-", "constant not found")
			return false
		}
		t.kname[v] = strings.TrimSuffix(n, "T")
	}
	// the kinds a value can have are the constants stored into the kind field
	// somewhere in the module (other constants of the type, e.g. named codes of
	// operand pairs, are not kinds); each must be one of the seven documented
	if stored := t.storedKinds(); len(stored) == 0 {
		t.s.Unk("ANCHOR", "value kinds", "-", "no store of a kind constant into value.Type found")
		return false
	} else {
		for _, v := range stored {
			if _, known := t.kname[v]; !known {
				t.s.Unk("ANCHOR", "value kinds", "-", fmt.Sprintf("a value is built with kind %d, which is none of the 7 documented kinds: the reference table does not cover the new kind", v))
				return false
			}
		}
	}
	t.ops = t.p.ConstsOfType("types/bytecode", "OpCode")
	t.opName = map[int64]string{}
	for k, v := range t.ops {
		t.opName[v] = k
	}
	return true
}

func (t *tab) mkVal(name string, kind int64) absint.Val {
	z := absint.Zero(t.valT).(*absint.Struct)
	f := append([]absint.Val(nil), z.F...)
	f[t.fTyp] = absint.MkIntT(kind, t.vst.Field(t.fTyp).Type())
	f[t.fMorph] = absint.NewVar(name+".morph", t.vst.Field(t.fMorph).Type())
	f[t.fPtr] = absint.NewVar(name+".ptr", t.vst.Field(t.fPtr).Type())
	return &absint.Struct{T: t.valT, F: f}
}

// canon renders a payload expression in the reference syntax.
func (t *tab) canon(v absint.Val) string {
	switch x := v.(type) {
	case absint.Const:
		return absint.Key(x)
	case *absint.Sym:
		switch {
		case x.Op == "var":
			if strings.HasSuffix(x.Name, ".morph") {
				return strings.TrimSuffix(x.Name, ".morph") + ".u"
			}
			return x.Name
		case strings.HasPrefix(x.Op, "bits:") && len(x.Args) == 1:
			inner := t.canon(x.Args[0])
			to := strings.TrimPrefix(x.Op, "bits:")
			if strings.HasSuffix(inner, ".u") {
				switch to {
				case "int":
					return strings.TrimSuffix(inner, ".u") + ".i"
				case "float64":
					return strings.TrimSuffix(inner, ".u") + ".f"
				}
			}
			return "bits:" + to + "(" + inner + ")"
		case x.Op == "deref" && len(x.Args) == 1:
			in := t.canon(x.Args[0])
			if strings.HasPrefix(in, "ptrcast(") && x.T != nil {
				base := strings.TrimSuffix(strings.TrimPrefix(in, "ptrcast("), ")")
				base = strings.TrimSuffix(base, ".ptr")
				switch x.T.Underlying().(type) {
				case *types.Basic:
					return base + ".s"
				case *types.Slice:
					return base + ".a"
				}
			}
			return "deref(" + in + ")"
		case x.Op == "lin":
			ks := make([]string, 0, len(x.Terms))
			// terms are keyed by absint keys; translate the known ones
			for k := range x.Terms {
				ks = append(ks, k)
			}
			sort.Strings(ks)
			var b strings.Builder
			for i, k := range ks {
				c := x.Terms[k]
				name := canonKey(k)
				switch {
				case c == 1 && i == 0:
					b.WriteString(name)
				case c == 1:
					b.WriteString("+" + name)
				case c == -1:
					b.WriteString("-" + name)
				default:
					fmt.Fprintf(&b, "%+d*%s", c, name)
				}
			}
			if x.C != 0 {
				fmt.Fprintf(&b, "%+d", x.C)
			}
			return "(" + b.String() + ")"
		}
		var args []string
		for _, a := range x.Args {
			args = append(args, t.canon(a))
		}
		op := x.Op
		// one spelling per integer comparison: everything in terms of <
		if len(args) == 2 && !floatArg(x.Args[0]) && !floatArg(x.Args[1]) {
			switch op {
			case ">":
				return "<(" + args[1] + "," + args[0] + ")"
			case ">=":
				return "!<(" + args[0] + "," + args[1] + ")"
			case "<=":
				return "!<(" + args[1] + "," + args[0] + ")"
			}
		}
		switch op {
		case "*", "==", "!=", "&", "|", "+":
			// commutative on ints; keep float/string + ordered
			if op != "+" || (x.T != nil && isInt(x.T)) {
				sort.Strings(args)
			}
		}
		if op == "slice" && len(args) == 4 {
			// the capacity bound of a slice expression is not observable in calc
			args = args[:3]
		}
		if op == "!=" && len(args) == 2 {
			sort.Strings(args)
			return "!==(" + args[0] + "," + args[1] + ")"
		}
		if strings.HasPrefix(op, "conv:") {
			op = strings.TrimPrefix(op, "conv:")
			if op == "float64" {
				op = "float"
			}
		}
		return op + "(" + strings.Join(args, ",") + ")"
	case *absint.Global:
		return x.G.Name()
	case *absint.Ptr:
		// pointer to a fresh cell: describe the content
		return "&{" + t.canon(x.Cell.V) + "}"
	case *absint.Slice:
		var p []string
		for _, e := range x.Elems() {
			p = append(p, t.canon(e))
		}
		return "[" + strings.Join(p, ",") + "]"
	case *absint.Struct:
		if types.Identical(x.T, t.valT) {
			return t.canonVal(x)
		}
	}
	return absint.Key(v)
}

func floatArg(v absint.Val) bool {
	var t types.Type
	switch x := v.(type) {
	case absint.Const:
		t = x.T
	case *absint.Sym:
		t = x.T
	}
	if t == nil {
		return false
	}
	b, ok := t.Underlying().(*types.Basic)
	return ok && b.Info()&types.IsFloat != 0
}

func isInt(t types.Type) bool {
	b, ok := t.Underlying().(*types.Basic)
	return ok && b.Info()&types.IsInteger != 0
}

func canonKey(k string) string {
	r := strings.NewReplacer("bits:int(a.morph)", "a.i", "bits:int(b.morph)", "b.i", "bits:int(c.morph)", "c.i",
		"bits:float64(a.morph)", "a.f", "bits:float64(b.morph)", "b.f")
	return r.Replace(k)
}

// canonVal renders a value.Type result.
func (t *tab) canonVal(s *absint.Struct) string {
	k, ok := absint.ConstInt(s.F[t.fTyp])
	if !ok {
		return "value{kind " + t.canon(s.F[t.fTyp]) + "}"
	}
	kn := t.kname[k]
	switch kn {
	case "nil":
		return "nil"
	case "int", "float", "bool":
		m := t.canon(s.F[t.fMorph])
		if kn == "int" && strings.HasPrefix(m, "bits:uint64(") {
			m = strings.TrimSuffix(strings.TrimPrefix(m, "bits:uint64("), ")")
		}
		if kn == "float" && strings.HasPrefix(m, "bits:uint64(") {
			m = strings.TrimSuffix(strings.TrimPrefix(m, "bits:uint64("), ")")
		}
		return kn + "{" + m + "}"
	case "string", "array", "function":
		return kn + "{" + t.canon(s.F[t.fPtr]) + "}"
	}
	return "value?"
}

// evalMethod enumerates the paths of fn on the given arguments.
func (t *tab) evalMethod(fn *ssa.Function, args func(in *absint.Interp) []absint.Val, recurse *ssa.Function) []Outcome {
	var outs []Outcome
	o := &absint.Oracle{}
	for n := 0; n < 3000; n++ {
		in := absint.NewInterp(t.p.SSA, o)
		in.MaxStep = 50000
		loopIters := map[string]int{}
		depth := 0
		in.Hooks.Call = func(in *absint.Interp, callee *ssa.Function, a []absint.Val, site ssa.Instruction) (absint.Val, bool) {
			if callee == recurse && recurse != nil {
				depth++
				if depth > 1 {
					// element-wise recursion: summarised
					depth--
					return &absint.Tuple{E: []absint.Val{
						absint.NewVar("elemEq", types.Typ[types.Bool]),
						absint.NewVar("elemErr", types.Universe.Lookup("error").Type()),
					}}, true
				}
				return nil, false
			}
			if strings.HasPrefix(callee.String(), "slices.Clone[") {
				return &absint.Sym{Op: "clone", Args: a, T: callee.Signature.Results().At(0).Type()}, true
			}
			return absint.StdCall(in, callee, a)
		}
		in.Hooks.Branch = func(in *absint.Interp, cond absint.Val, site ssa.Instruction) (bool, bool) {
			// loops over payloads of unknown length: explore zero and one iteration
			k := absint.Key(cond)
			if strings.HasPrefix(k, "<(") && strings.Contains(k, ",len(") {
				pos := fmt.Sprint(site.Pos())
				loopIters[pos]++
				if loopIters[pos] > 2 {
					return false, true
				}
			}
			return false, false
		}
		in.Hooks.Instr = func(in *absint.Interp, fr *absint.Frame, i ssa.Instruction) {
			if bo, ok := i.(*ssa.BinOp); ok && (bo.Op.String() == "<<" || bo.Op.String() == ">>") {
				if bt, ok := bo.Y.Type().Underlying().(*types.Basic); ok && bt.Info()&types.IsUnsigned == 0 {
					if c, ok := absint.ConstInt(in.Get(fr, bo.Y)); !ok || c < 0 {
						t.shifts[t.p.Pos(bo.Pos())+" "+t.p.FuncKey(fr.Fn)] = true
					}
				}
			}
			if bo, ok := i.(*ssa.BinOp); ok && (bo.Op.String() == "/" || bo.Op.String() == "%") && isInt(bo.X.Type()) {
				d := in.Get(fr, bo.Y)
				if c, ok := absint.ConstInt(d); ok && c != 0 {
					return
				}
				zero := absint.MkIntT(0, bo.Y.Type())
				eq := in.BinOp(tokEQL, d, zero, types.Typ[types.Bool], bo.Y.Type())
				if b, ok := in.Assumed(eq); ok && !b {
					return
				}
				t.divs[t.p.Pos(bo.Pos())+" "+t.p.FuncKey(fr.Fn)] = true
			}
		}
		res, end := in.Run(fn, args(in))
		t.paths++
		for _, ix := range in.IdxLog {
			t.nIdx++
			if !ix.Proved {
				k := t.p.FuncKey(fn) + " / " + ix.Kind + " of " + ix.X
				if _, dup := t.unprovedIdx[k]; !dup {
					t.unprovedIdx[k] = t.p.Pos(ix.Site.Pos()) + "|" + ix.String()
				}
			}
		}
		oc := Outcome{}
		for _, c := range in.CondV {
			oc.Conds = append(oc.Conds, t.canonCond(c))
		}
		switch {
		case end != nil && end.Kind == "panic":
			oc.Abort = "panic " + end.Msg + " at " + t.p.Pos(end.Pos)
		case end != nil:
			oc.Abort = end.Error()
		default:
			tu, ok := res.(*absint.Tuple)
			if !ok || len(tu.E) != 2 {
				oc.Abort = "unexpected result " + absint.Key(res)
				break
			}
			if !absint.IsNil(tu.E[1]) {
				oc.Err = t.canon(tu.E[1])
			} else if rs, ok := tu.E[0].(*absint.Struct); ok {
				oc.Result = t.canonVal(rs)
			} else {
				oc.Result = t.canon(tu.E[0])
			}
		}
		outs = append(outs, oc)
		if !o.Next() {
			break
		}
	}
	return outs
}

func (t *tab) canonCond(c absint.CondRec) string {
	k := t.canon(c.V)
	b := c.B
	// one spelling per predicate: != is the negation of ==
	if strings.HasPrefix(k, "!=(") {
		k = "==(" + k[3:]
		b = !b
	}
	if strings.HasPrefix(k, "!") {
		k = k[1:]
		b = !b
	}
	if b {
		return k
	}
	return "!" + k
}

// storedKinds lists the constants that are stored into the kind field of a
// value.Type anywhere in the module.
func (t *tab) storedKinds() []int64 {
	seen := map[int64]bool{}
	for _, pk := range t.p.SPkgs {
		for _, mem := range pk.Members {
			var fns []*ssa.Function
			switch x := mem.(type) {
			case *ssa.Function:
				fns = append(fns, x)
			case *ssa.Type:
				for _, tt := range []types.Type{x.Type(), types.NewPointer(x.Type())} {
					ms := t.p.SSA.MethodSets.MethodSet(tt)
					for i := 0; i < ms.Len(); i++ {
						if f := t.p.SSA.MethodValue(ms.At(i)); f != nil {
							fns = append(fns, f)
						}
					}
				}
			}
			for len(fns) > 0 {
				fn := fns[0]
				fns = fns[1:]
				fns = append(fns, fn.AnonFuncs...)
				for _, b := range fn.Blocks {
					for _, ins := range b.Instrs {
						st, ok := ins.(*ssa.Store)
						if !ok {
							continue
						}
						fa, ok := st.Addr.(*ssa.FieldAddr)
						if !ok || fa.Field != t.fTyp {
							continue
						}
						pt, ok := fa.X.Type().Underlying().(*types.Pointer)
						if !ok || !types.Identical(pt.Elem(), t.valT) {
							continue
						}
						if c, ok := st.Val.(*ssa.Const); ok && c.Value != nil {
							seen[c.Int64()] = true
						}
					}
				}
			}
		}
	}
	var out []int64
	for v := range seen {
		out = append(out, v)
	}
	sort.Slice(out, func(i, j int) bool { return out[i] < out[j] })
	return out
}
