package valtab

import (
	"fmt"
	"go/token"
	"os"
	"sort"
	"strings"

	"calcsa/absint"
	"calcsa/engines/vmshape"

	"golang.org/x/tools/go/ssa"
)

const tokEQL = token.EQL

// Cell identifies one entry of the operator table.
type Cell struct {
	Method string
	Op     string // "" for methods without opcode argument
	A, B   string // operand kinds; B == "" for unary; for Index B is "k1" or "k1,k2"
}

func (c Cell) String() string {
	s := c.Method
	if c.Op != "" {
		s += "[" + c.Op + "]"
	}
	s += "(" + c.A
	if c.B != "" {
		s += ", " + c.B
	}
	return s + ")"
}

// methodOps derives, from the VM model, the opcode constants each operator
// method can be called with.
func methodOps(vm *vmshape.Model) map[string][]string {
	set := map[string]map[string]bool{}
	for _, e := range vm.Effects() {
		if e.Method == "" {
			continue
		}
		if set[e.Method] == nil {
			set[e.Method] = map[string]bool{}
		}
		if e.MethodOp >= 0 {
			set[e.Method][vm.OpName[e.MethodOp]] = true
		}
	}
	out := map[string][]string{}
	for m, s := range set {
		for o := range s {
			out[m] = append(out[m], o)
		}
		sort.Strings(out[m])
		if len(out[m]) == 0 {
			out[m] = []string{""}
		}
	}
	return out
}

func (t *tab) table(vm *vmshape.Model) (map[Cell][]Outcome, []Cell) {
	res := map[Cell][]Outcome{}
	var order []Cell
	mops := methodOps(vm)
	var methods []string
	for m := range mops {
		methods = append(methods, m)
	}
	sort.Strings(methods)
	weak := t.p.Method("types/value", "Type", "WeakEq")
	for _, mn := range methods {
		fn := t.p.Method("types/value", "Type", mn)
		if fn == nil {
			t.s.Unk("ANCHOR", "value.Type."+mn, "-", "operator method called by the VM not found")
			continue
		}
		np := len(fn.Params)
		for _, op := range mops[mn] {
			for ka := int64(0); ka < 7; ka++ {
				switch {
				case mn == "Index":
					// one or two indices
					for kb := int64(0); kb < 7; kb++ {
						for kc := int64(-1); kc < 7; kc++ {
							if kc >= 0 && ka != t.kinds["stringT"] && ka != t.kinds["arrayT"] && kb != t.kinds["intT"] {
								continue // keep the table small: second index only matters after the first is an int or the receiver indexable
							}
							c := Cell{Method: mn, A: t.kname[ka], B: t.kname[kb]}
							if kc >= 0 {
								c.B += "," + t.kname[kc]
							}
							kb, kc := kb, kc
							outs := t.evalMethod(fn, func(in *absint.Interp) []absint.Val {
								elems := []absint.Val{t.mkVal("b", kb)}
								if kc >= 0 {
									elems = append(elems, t.mkVal("c", kc))
								}
								return []absint.Val{t.mkVal("a", ka), absint.NewSliceIn(in, t.valT, elems)}
							}, nil)
							res[c] = outs
							order = append(order, c)
						}
					}
				case np == 1: // unary
					c := Cell{Method: mn, A: t.kname[ka]}
					outs := t.evalMethod(fn, func(in *absint.Interp) []absint.Val { return []absint.Val{t.mkVal("a", ka)} }, nil)
					res[c] = outs
					order = append(order, c)
				default:
					for kb := int64(0); kb < 7; kb++ {
						c := Cell{Method: mn, Op: op, A: t.kname[ka], B: t.kname[kb]}
						kb := kb
						var rec *ssa.Function
						if mn == "Eq" {
							rec = weak
						}
						outs := t.evalMethod(fn, func(in *absint.Interp) []absint.Val {
							a := []absint.Val{t.mkVal("a", ka)}
							if op != "" {
								a = append(a, absint.MkIntT(t.ops[op], fn.Params[1].Type()))
							}
							return append(a, t.mkVal("b", kb))
						}, rec)
						res[c] = outs
						order = append(order, c)
					}
				}
			}
		}
	}
	return res, order
}

func outStrings(outs []Outcome) []string {
	var ss []string
	for _, o := range outs {
		ss = append(ss, o.String())
	}
	sort.Strings(ss)
	return ss
}

func (t *tab) check(vm *vmshape.Model) {
	tb, order := t.table(vm)
	if os.Getenv("CALCSA_DUMP_VALTAB") != "" {
		for _, c := range order {
			fmt.Printf("%s\n", c)
			for _, s := range outStrings(tb[c]) {
				fmt.Printf("      %s\n", s)
			}
		}
	}
	t.compare(tb, order)
}

var _ = strings.Join
