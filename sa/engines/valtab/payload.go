package valtab

import (
	"fmt"
	"go/ast"
	"go/parser"
	"go/token"
	"go/types"
	"sort"
	"strings"

	"calcsa/load"

	"golang.org/x/tools/go/ssa"
	"golang.org/x/tools/go/ssa/ssautil"
)

// payloadWrites (A10): the payload of an array value (the []value.Type a
// value.Type points to) is never written through. Values are shared freely —
// by variables, constants of the data segment, earlier results — so a store
// into a payload element, an append that may reuse its backing array, a copy
// into it or a clear of it changes values that already exist. The rule is a
// who-may-write scan over every function of the module: a slice is a payload
// when it comes from value.Type.a(), ToArray() or the dereferenced ptr field;
// it stays one through re-slicing and phi; slices.Clone and append to a nil /
// cloned slice give fresh storage.
func (t *tab) payloadWrites() {
	if n := len(payloadSinks(controlPayloadProgram(), nil)); n != 3 {
		t.s.Unk("A10", "detector self-test", "-", fmt.Sprintf("the payload write detector finds %d sites in its control program, expected 3", n))
		return
	}
	var fns []*ssa.Function
	for fn := range ssautil.AllFunctions(t.p.SSA) {
		if fn.Pkg == nil || fn.Blocks == nil || !strings.HasPrefix(fn.Pkg.Pkg.Path(), load.ModPath) {
			continue
		}
		fns = append(fns, fn)
	}
	sinks := payloadSinks(fns, t.valT)
	key := "value payloads / never written through"
	if len(sinks) == 0 {
		t.s.OK("A10", key, "types/value/value.go", fmt.Sprintf("%d functions scanned: no store into, append onto, copy into or clear of an array payload", len(fns)))
		return
	}
	var keys []string
	for k := range sinks {
		keys = append(keys, k)
	}
	sort.Strings(keys)
	for _, k := range keys {
		t.s.Bad("A10", "value payloads / "+k, t.p.Pos(sinks[k]), "the backing array of an array value is written in place: every other value, variable or program constant sharing it changes with it (arrays are immutable: + and ARR build new arrays from a copy)")
	}
}

func payloadSinks(fns []*ssa.Function, valT types.Type) map[string]token.Pos {
	out := map[string]token.Pos{}
	for _, fn := range fns {
		memo := map[ssa.Value]bool{}
		var isPayload func(v ssa.Value, depth int) bool
		isPayload = func(v ssa.Value, depth int) bool {
			if depth > 12 {
				return false
			}
			if r, ok := memo[v]; ok {
				return r
			}
			memo[v] = false
			r := false
			switch x := v.(type) {
			case *ssa.Call:
				if c := x.Call.StaticCallee(); c != nil {
					n := c.Name()
					if c.Signature.Recv() != nil && (n == "a" || n == "ToArray" || n == "payload") && isValueRecv(c, valT) {
						r = true
					}
					if strings.HasPrefix(c.String(), "slices.Clone") || strings.HasPrefix(c.String(), "slices.Clip") && false {
						r = false
					}
				}
				if b, ok := x.Call.Value.(*ssa.Builtin); ok && b.Name() == "append" {
					// append keeps the storage of its first argument when there is room
					r = isPayload(x.Call.Args[0], depth+1)
				}
			case *ssa.Extract:
				r = isPayload(x.Tuple, depth+1)
			case *ssa.Slice:
				r = isPayload(x.X, depth+1)
			case *ssa.Phi:
				for _, e := range x.Edges {
					if isPayload(e, depth+1) {
						r = true
					}
				}
			case *ssa.ChangeType:
				r = isPayload(x.X, depth+1)
			case *ssa.UnOp:
				if x.Op == token.MUL {
					// *(*[]Type)(t.ptr)
					if cv, ok := x.X.(*ssa.Convert); ok {
						if _, isSl := x.Type().Underlying().(*types.Slice); isSl {
							if fld, ok := cv.X.(*ssa.Field); ok && fld.X.Type().String() == typeString(valT) {
								r = true
							}
							if ld, ok := cv.X.(*ssa.UnOp); ok {
								if fa, ok := ld.X.(*ssa.FieldAddr); ok && strings.HasSuffix(fa.X.Type().String(), typeString(valT)) {
									r = true
								}
							}
							if valT == nil {
								r = true // control program
							}
						}
					}
				}
			}
			memo[v] = r
			return r
		}
		n := 0
		for _, b := range fn.Blocks {
			for _, ins := range b.Instrs {
				switch x := ins.(type) {
				case *ssa.Store:
					if ia, ok := x.Addr.(*ssa.IndexAddr); ok && isPayload(ia.X, 0) {
						n++
						out[fmt.Sprintf("%s / element store #%d", fn.String(), n)] = x.Pos()
					}
				case *ssa.Call:
					if bi, ok := x.Call.Value.(*ssa.Builtin); ok {
						switch bi.Name() {
						case "append":
							if isPayload(x.Call.Args[0], 0) {
								n++
								out[fmt.Sprintf("%s / append onto a payload #%d", fn.String(), n)] = x.Pos()
							}
						case "copy", "clear":
							if isPayload(x.Call.Args[0], 0) {
								n++
								out[fmt.Sprintf("%s / %s of a payload #%d", fn.String(), bi.Name(), n)] = x.Pos()
							}
						}
					}
				}
			}
		}
	}
	return out
}

func typeString(t types.Type) string {
	if t == nil {
		return "p.V"
	}
	return t.String()
}

func isValueRecv(c *ssa.Function, valT types.Type) bool {
	if valT == nil {
		return true
	}
	rt := c.Signature.Recv().Type()
	if p, ok := rt.(*types.Pointer); ok {
		rt = p.Elem()
	}
	return types.Identical(rt, valT)
}

func controlPayloadProgram() []*ssa.Function {
	const src = `package p
import "unsafe"
type V struct { ptr unsafe.Pointer }
func (v V) a() []V { return *(*[]V)(v.ptr) }
func store(v V, w V) { v.a()[0] = w }
func grow(v V, w V) []V { return append(v.a(), w) }
func wipe(v V) { x := v.a()[1:]; clear(x) }
func fine(v V, w V) []V { c := append([]V(nil), v.a()...); c[0] = w; return c }
`
	fset := token.NewFileSet()
	f, err := parser.ParseFile(fset, "control.go", src, 0)
	if err != nil {
		return nil
	}
	pkg := types.NewPackage("p", "p")
	imp := fakeImporter{}
	sp, _, err := ssautil.BuildPackage(&types.Config{Importer: imp}, fset, pkg, []*ast.File{f}, 0)
	if err != nil {
		return nil
	}
	var out []*ssa.Function
	for fn := range ssautil.AllFunctions(sp.Prog) {
		if fn.Blocks != nil {
			out = append(out, fn)
		}
	}
	return out
}

type fakeImporter struct{}

func (fakeImporter) Import(path string) (*types.Package, error) {
	if path == "unsafe" {
		return types.Unsafe, nil
	}
	return nil, fmt.Errorf("no package %s in the control program", path)
}
