package valtab

import (
	"calcsa/load"
	"fmt"
	"go/types"
	"os"
	"sort"
	"strings"

	"calcsa/absint"

	"golang.org/x/tools/go/ssa"
)

// The reference table: the documented value algebra (Readme "Types", the
// operator tables, and the statement of property C11), written as data in the
// canonical syntax of the extracted table:
//
//	a, b, c      receiver, first and second argument
//	x.i x.f x.u  payload of x read as int / float64 / raw uint64
//	x.s x.a      payload of x read as string / []value.Type
//	int{e} ...   a result of that kind with payload e
//
// Each cell lists the paths that must exist (as a set of branch conditions
// and a result) and the outcome every other path must have.
type expPath struct {
	conds  []string
	result string
}

type expect struct {
	paths  []expPath
	others string // outcome of every path not listed ("" = no other path allowed)
	note   string
}

func errAll(class string) expect { return expect{others: class} }

func one(result string) expect { return expect{paths: []expPath{{nil, result}}} }

func nilOrType(a, b string) expect {
	if a == "nil" || b == "nil" {
		return errAll("ErrNil")
	}
	return errAll("ErrType")
}

func numeric(k string) bool { return k == "int" || k == "float" }

func payload(n, k string) string {
	if k == "int" {
		return n + ".i"
	}
	return n + ".f"
}

// promoted returns the operand expressions after int->float promotion and the result kind.
func promoted(ka, kb string) (x, y, kind string) {
	x, y = payload("a", ka), payload("b", kb)
	if ka == kb {
		return x, y, ka
	}
	if ka == "int" {
		x = "float(a.i)"
	}
	if kb == "int" {
		y = "float(b.i)"
	}
	return x, y, "float"
}

func sorted2(op, x, y string) string {
	a := []string{x, y}
	sort.Strings(a)
	return op + "(" + a[0] + "," + a[1] + ")"
}

func (t *tab) expected(c Cell) (expect, bool) {
	a, b := c.A, c.B
	switch c.Method {
	case "Arith":
		switch {
		case numeric(a) && numeric(b):
			x, y, k := promoted(a, b)
			if k == "int" {
				switch c.Op {
				case "ADD":
					return one("int{(a.i+b.i)}"), true
				case "SUB":
					return one("int{(a.i-b.i)}"), true
				case "MUL":
					return one("int{*(a.i,b.i)}"), true
				case "DIV":
					return expect{paths: []expPath{
						{[]string{"==(0,b.i)"}, "ErrZeroDiv"},
						{[]string{"!==(0,b.i)"}, "int{/(a.i,b.i)}"},
					}}, true
				}
				return expect{}, false
			}
			switch c.Op {
			case "ADD":
				return one("float{+(" + x + "," + y + ")}"), true
			case "SUB":
				return one("float{-(" + x + "," + y + ")}"), true
			case "MUL":
				return one("float{" + sorted2("*", x, y) + "}"), true
			case "DIV":
				return one("float{/(" + x + "," + y + ")}"), true
			}
			return expect{}, false
		case a == "string" && b == "string":
			if c.Op == "ADD" {
				return one("string{&{+(a.s,b.s)}}"), true
			}
			return errAll("ErrType"), true
		case a == "array" && b == "array":
			if c.Op == "ADD" {
				return one("array{&{append(clone(a.a),b.a)}}"), true
			}
			return errAll("ErrType"), true
		}
		return nilOrType(a, b), true
	case "Mod":
		if a == "int" && b == "int" {
			return expect{paths: []expPath{
				{[]string{"==(0,b.i)"}, "ErrZeroDiv"},
				{[]string{"!==(0,b.i)"}, "int{%(a.i,b.i)}"},
			}}, true
		}
		return nilOrType(a, b), true
	case "Relational":
		if numeric(a) && numeric(b) {
			x, y, k := promoted(a, b)
			var pred string
			neg := false
			switch c.Op {
			case "LT":
				pred = "<(" + x + "," + y + ")"
			case "GT":
				pred = ">(" + x + "," + y + ")"
				if k == "int" {
					pred = "<(" + y + "," + x + ")"
				}
			case "LE":
				pred = "<=(" + x + "," + y + ")"
				if k == "int" {
					pred, neg = "<("+y+","+x+")", true
				}
			case "GE":
				pred = ">=(" + x + "," + y + ")"
				if k == "int" {
					pred, neg = "<("+x+","+y+")", true
				}
			default:
				return expect{}, false
			}
			t1, t0 := "bool{1}", "bool{0}"
			if neg {
				t1, t0 = t0, t1
			}
			return expect{paths: []expPath{{[]string{pred}, t1}, {[]string{"!" + pred}, t0}}}, true
		}
		return nilOrType(a, b), true
	case "Logic":
		sym := map[string]string{"AND": "&", "OR": "|"}[c.Op]
		if sym == "" {
			return expect{}, false
		}
		if a == "int" && b == "int" {
			return one("int{" + sym + "(a.u,b.u)}"), true
		}
		if a == "bool" && b == "bool" {
			p := sorted2("==", "1", sym+"(a.u,b.u)")
			return expect{paths: []expPath{{[]string{p}, "bool{1}"}, {[]string{"!" + p}, "bool{0}"}}}, true
		}
		return nilOrType(a, b), true
	case "Shift":
		sym := map[string]string{"LSH": "<<", "RSH": ">>"}[c.Op]
		if sym == "" {
			return expect{}, false
		}
		if a == "int" && b == "int" {
			// on the raw unsigned payload: Go defines every count (>= 64 gives 0), no abort
			return one("int{" + sym + "(a.u,b.u)}"), true
		}
		return nilOrType(a, b), true
	case "Flip":
		switch a {
		case "int":
			return one("int{u^(a.u)}"), true
		case "nil":
			return errAll("ErrNil"), true
		}
		return errAll("ErrType"), true
	case "Not":
		switch a {
		case "bool":
			return expect{paths: []expPath{{[]string{"==(1,a.u)"}, "bool{0}"}, {[]string{"!==(1,a.u)"}, "bool{1}"}}}, true
		case "nil":
			return errAll("ErrNil"), true
		}
		return errAll("ErrType"), true
	case "Len":
		switch a {
		case "string":
			return one("int{len(a.s)}"), true
		case "array":
			return one("int{len(a.a)}"), true
		case "nil":
			return errAll("ErrNil"), true
		}
		return errAll("ErrType"), true
	case "Eq":
		t1, t0 := "bool{1}", "bool{0}"
		if c.Op == "NE" {
			t1, t0 = t0, t1
		} else if c.Op != "EQ" {
			return expect{}, false
		}
		if a == "nil" || b == "nil" {
			return errAll("ErrNil"), true
		}
		if a == "function" && b == "function" {
			return one(t0), true
		}
		if numeric(a) && numeric(b) {
			x, y, _ := promoted(a, b)
			p := sorted2("==", x, y)
			return expect{paths: []expPath{{[]string{p}, t1}, {[]string{"!" + p}, t0}}}, true
		}
		if a != b {
			return one(t0), true
		}
		switch a {
		case "string":
			p := "==(a.s,b.s)"
			return expect{paths: []expPath{{[]string{p}, t1}, {[]string{"!" + p}, t0}}}, true
		case "bool":
			p := "==(!==(0,a.u),!==(0,b.u))"
			return expect{paths: []expPath{{[]string{p}, t1}, {[]string{"!" + p}, t0}}}, true
		case "array":
			// element-wise: different lengths are unequal; an unequal element pair
			// makes the arrays unequal (or propagates the element's error); otherwise equal
			l := "==(len(a.a),len(b.a))"
			return expect{paths: []expPath{
				{[]string{"!" + l}, t0},
				{[]string{l, "!<(0,len(a.a))"}, t1},
				{[]string{l, "<(0,len(a.a))", "!elemEq", "==(elemErr,nil)"}, t0},
				{[]string{l, "<(0,len(a.a))", "!elemEq", "!==(elemErr,nil)"}, "elemErr"},
				{[]string{l, "<(0,len(a.a))", "elemEq", "!<(1,len(a.a))"}, t1},
				{[]string{l, "<(0,len(a.a))", "elemEq", "<(1,len(a.a))"}, t1},
			}, note: "element comparison summarised; loop explored for 0, 1 and (cut) 2 iterations"}, true
		}
		return expect{}, false
	case "Index":
		ks := strings.Split(b, ",")
		// the first index that is not an int decides
		for _, k := range ks {
			if k == "nil" {
				return errAll("ErrNil"), true
			}
			if k != "int" {
				return errAll("ErrType"), true
			}
		}
		if a != "string" && a != "array" {
			return errAll("ErrType"), true
		}
		pl := "a.s"
		if a == "array" {
			pl = "a.a"
		}
		ln := "len(" + pl + ")"
		if len(ks) == 1 {
			res := "string{&{string(index(a.s,b.i))}}"
			if a == "array" {
				res = "deref(elemaddr(a.a,b.i))"
			}
			// 0 <= i < len
			return expect{paths: []expPath{{[]string{"!<(b.i,0)", "<(b.i," + ln + ")"}, res}}, others: "ErrIndex"}, true
		}
		// 0 <= i <= j <= len
		res := a + "{&{slice(" + pl + ",b.i,c.i)}}"
		return expect{paths: []expPath{{[]string{"!<(b.i,0)", "!<(" + ln + ",b.i)", "!<(c.i,b.i)", "!<(" + ln + ",c.i)"}, res}}, others: "ErrIndex"}, true
	}
	return expect{}, false
}

func condSetKey(cs []string) string {
	c := append([]string(nil), cs...)
	sort.Strings(c)
	return strings.Join(c, " & ")
}

func (t *tab) compare(tb map[Cell][]Outcome, order []Cell) {
	pos := "types/value/value.go"
	if fn := t.p.Method("types/value", "Type", "Arith"); fn != nil {
		pos = t.p.Pos(fn.Pos())
	}
	methodPos := map[string]string{}
	for _, c := range order {
		if _, ok := methodPos[c.Method]; !ok {
			if fn := t.p.Method("types/value", "Type", c.Method); fn != nil {
				methodPos[c.Method] = t.p.Pos(fn.Pos())
			} else {
				methodPos[c.Method] = pos
			}
		}
	}
	for _, c := range order {
		outs := tb[c]
		key := "value." + c.String()
		mp := methodPos[c.Method]
		exp, ok := t.expected(c)
		if !ok {
			t.s.Unk("A1", key, mp, "the reference table has no entry for this cell (new operator or opcode?)", outStrings(outs)...)
			continue
		}
		// aborts first
		aborted := false
		for _, o := range outs {
			if o.Abort != "" {
				aborted = true
				t.s.Bad("A1", key, mp, "the operator can abort the interpreter instead of returning a value or an error: "+o.Abort, outStrings(outs)...)
				break
			}
		}
		if aborted {
			continue
		}
		want := map[string]string{}
		for _, p := range exp.paths {
			want[condSetKey(p.conds)] = p.result
		}
		var problems []string
		seen := map[string]bool{}
		for _, o := range outs {
			k := condSetKey(o.Conds)
			got := o.Result
			if o.Err != "" {
				got = o.Err
			}
			if w, ok := want[k]; ok {
				seen[k] = true
				if w != got {
					problems = append(problems, fmt.Sprintf("when [%s]: documented %s, implemented %s", orAlways(k), w, got))
				}
				continue
			}
			if exp.others == "" {
				problems = append(problems, fmt.Sprintf("undocumented case [%s] => %s", orAlways(k), got))
			} else if got != exp.others {
				problems = append(problems, fmt.Sprintf("when [%s]: documented %s, implemented %s", orAlways(k), exp.others, got))
			}
		}
		for k, w := range want {
			if !seen[k] {
				problems = append(problems, fmt.Sprintf("documented case [%s] => %s has no corresponding path", orAlways(k), w))
			}
		}
		if exp.others != "" && len(exp.paths) > 0 && len(outs) <= len(exp.paths) {
			problems = append(problems, "no path reports "+exp.others)
		}
		if len(problems) == 0 {
			t.s.OK("A1", key, mp, strings.Join(outStrings(outs), " ; "))
		} else {
			sort.Strings(problems)
			t.s.Bad("A1", key, mp, "differs from the documented value algebra: "+strings.Join(problems, "; "), outStrings(outs)...)
		}
	}
	// A2: unguarded integer division / modulo; A6: shifts by a signed count
	if len(t.divs) == 0 {
		t.s.OK("A2", "value / integer division and modulo", pos, "every integer / and % reached in the exploration has a divisor excluded from zero on its path")
	}
	for d := range t.divs {
		t.s.Bad("A2", "value / unguarded integer division: "+d[strings.Index(d, " ")+1:], d[:strings.Index(d, " ")], "an integer division or modulo is executed on a path that has not excluded a zero divisor: the Go runtime aborts the interpreter")
	}
	if len(t.shifts) == 0 {
		t.s.OK("A6", "value / shift counts", pos, "no shift uses a signed count (a negative signed count aborts the Go runtime)")
	}
	for d := range t.shifts {
		t.s.Bad("A6", "value / shift by signed count: "+d[strings.Index(d, " ")+1:], d[:strings.Index(d, " ")], "a shift is executed with a signed count that is not known to be non-negative: a negative count aborts the interpreter")
	}
	t.symmetry(tb)
	t.shiftRange(tb)
	t.renderTotal()
	t.payloadWrites()
	// A9: index / slice expressions of the operator methods are guarded
	{
		key := "value / index and slice expressions of the operator methods are within bounds"
		if len(t.unprovedIdx) == 0 {
			t.s.OK("A9", key, "types/value/value.go", fmt.Sprintf("%d expressions on symbolic payloads, each guarded by a comparison on its path", t.nIdx))
		}
		for _, k := range load.SortedKeys(t.unprovedIdx) {
			parts := strings.SplitN(t.unprovedIdx[k], "|", 2)
			t.s.Bad("A9", k, parts[0], "no comparison on this path establishes the bound of "+parts[1]+": for some operand the expression is out of range and the Go runtime aborts the interpreter instead of the operator reporting an index error")
		}
	}
}

func orAlways(k string) string {
	if k == "" {
		return "always"
	}
	return k
}

// symmetry (A3): == dispatch is symmetric and != is its negation, per cell.
func (t *tab) symmetry(tb map[Cell][]Outcome) {
	pos := "types/value/value.go"
	if fn := t.p.Method("types/value", "Type", "Eq"); fn != nil {
		pos = t.p.Pos(fn.Pos())
	}
	swap1 := strings.NewReplacer("a.", "\x00.", "b.", "a.")
	swap2 := strings.NewReplacer("\x00.", "b.")
	for _, ka := range kindNames {
		for _, kb := range kindNames {
			eq := tb[Cell{Method: "Eq", Op: "EQ", A: ka, B: kb}]
			ne := tb[Cell{Method: "Eq", Op: "NE", A: ka, B: kb}]
			if eq == nil || ne == nil {
				continue
			}
			key := fmt.Sprintf("value.Eq(%s, %s) / != is the negation of ==", ka, kb)
			neg := strings.NewReplacer("bool{1}", "bool{0}", "bool{0}", "bool{1}")
			var e, n []string
			for _, o := range eq {
				e = append(e, neg.Replace(o.String()))
			}
			for _, o := range ne {
				n = append(n, o.String())
			}
			sort.Strings(e)
			sort.Strings(n)
			if strings.Join(e, "\n") == strings.Join(n, "\n") {
				t.s.OK("A3", key, pos, "same cases, results negated, errors unchanged")
			} else {
				t.s.Bad("A3", key, pos, "!= is not the negation of == on this operand pair", append(append([]string{"==:"}, outStrings(eq)...), append([]string{"!=:"}, outStrings(ne)...)...)...)
			}
			if ka < kb && !(ka == "array" && kb == "array") {
				rev := tb[Cell{Method: "Eq", Op: "EQ", A: kb, B: ka}]
				key := fmt.Sprintf("value.Eq(%s, %s) / symmetric", ka, kb)
				var x, y []string
				for _, o := range eq {
					x = append(x, o.String())
				}
				for _, o := range rev {
					// rename a<->b and re-sort the commutative predicates
					y = append(y, resort(swap2.Replace(swap1.Replace(o.String()))))
				}
				for i := range x {
					x[i] = resort(x[i])
				}
				sort.Strings(x)
				sort.Strings(y)
				if strings.Join(x, "\n") == strings.Join(y, "\n") {
					t.s.OK("A3", key, pos, "x == y and y == x take the same cases")
				} else {
					t.s.Bad("A3", key, pos, "== is not symmetric on this operand pair", append(append([]string{"x == y:"}, x...), append([]string{"y == x:"}, y...)...)...)
				}
			}
		}
	}
}

// resort re-sorts the two arguments of every ==( , ) predicate in s.
func resort(s string) string {
	for i := 0; i+3 <= len(s); i++ {
		if s[i:i+3] != "==(" {
			continue
		}
		// find the matching parenthesis and the top-level comma
		depth, comma, end := 0, -1, -1
		for j := i + 3; j < len(s); j++ {
			switch s[j] {
			case '(':
				depth++
			case ')':
				if depth == 0 {
					end = j
				}
				depth--
			case ',':
				if depth == 0 && comma < 0 {
					comma = j
				}
			}
			if end >= 0 {
				break
			}
		}
		if comma < 0 || end < 0 {
			continue
		}
		x, y := s[i+3:comma], s[comma+1:end]
		if y < x {
			s = s[:i+3] + y + "," + x + s[end:]
		}
	}
	return s
}

// shiftRange (A5): the property asks for out-of-range shift counts to be
// reported as errors; the implementation has no such path (finding D24).
func (t *tab) shiftRange(tb map[Cell][]Outcome) {
	pos := "types/value/value.go"
	if fn := t.p.Method("types/value", "Type", "Shift"); fn != nil {
		pos = t.p.Pos(fn.Pos())
	}
	for _, op := range []string{"LSH", "RSH"} {
		outs := tb[Cell{Method: "Shift", Op: op, A: "int", B: "int"}]
		if outs == nil {
			continue
		}
		key := "value.Shift[" + op + "](int, int) / out-of-range count is an error"
		hasErr := false
		for _, o := range outs {
			if o.Err != "" {
				hasErr = true
			}
		}
		if hasErr {
			t.s.OK("A5", key, pos, "a path reports an error for some counts")
		} else {
			t.s.Bad("A5", key, pos, "no path of int "+op+" int returns an error: negative and >= 64 shift counts silently give 0 / -1 instead of the error the property asks for", outStrings(outs)...)
		}
	}
}

// renderTotal (A7): String / Display / Abbrev return for every kind of value.
func (t *tab) renderTotal() {
	var floatCalls []string
	defer func() {
		pos := "types/value/value.go"
		if fn := t.p.Method("types/value", "Type", "String"); fn != nil {
			pos = t.p.Pos(fn.Pos())
		}
		key := "value.String(float) / shortest representation that reads back"
		ok := len(floatCalls) == 1
		if ok {
			c := floatCalls[0]
			ok = (strings.HasPrefix(c, "fmt.Sprint(") && strings.Contains(c, "iface(float64:")) ||
				(strings.HasPrefix(c, `fmt.Sprintf("%v", `) && strings.Contains(c, "iface(float64:")) ||
				(strings.HasPrefix(c, "strconv.FormatFloat(") && strings.HasSuffix(c, ", -1, 64)"))
		}
		if ok {
			t.s.OK("A8", key, pos, floatCalls[0])
		} else {
			t.s.Bad("A8", key, pos, "a float must be rendered with Go's shortest round-trip formatting (fmt.Sprint, %v, or FormatFloat with precision -1), otherwise aton(toa(x)) differs from x for some finite floats; it is rendered by "+strings.Join(floatCalls, "; "))
		}
	}()
	for _, mn := range []string{"String", "Display", "Abbrev"} {
		fn := t.p.Method("types/value", "Type", mn)
		if fn == nil {
			t.s.Unk("A7", "value.Type."+mn, "-", "method not found")
			continue
		}
		pos := t.p.Pos(fn.Pos())
		for k := int64(0); k < 7; k++ {
			key := fmt.Sprintf("value.%s(%s) / returns", mn, t.kname[k])
			bad := ""
			o := &absint.Oracle{}
			for n := 0; n < 200; n++ {
				in := absint.NewInterp(t.p.SSA, o)
				loops := map[string]int{}
				recvKey := ""
				otherValue := ""
				in.Hooks.Call = func(in *absint.Interp, callee *ssa.Function, a []absint.Val, site ssa.Instruction) (absint.Val, bool) {
					// the shortened form is the head of the rendering of the value
					// itself, not the rendering of some other value made from it
					if mn == "Abbrev" && callee.Name() == "String" && callee.Signature.Recv() != nil && len(a) > 0 && in.Depth == 1 {
						if k := absint.Key(a[0]); recvKey != "" && k != recvKey && otherValue == "" {
							otherValue = k
						}
					}
					if callee.Pkg != nil && (callee.Pkg.Pkg.Path() == "fmt" || callee.Pkg.Pkg.Path() == "strconv") {
						if mn == "String" && t.kname[k] == "float" {
							var ks []string
							for _, x := range a {
								ks = append(ks, absint.Key(x))
							}
							floatCalls = append(floatCalls, callee.String()+"("+strings.Join(ks, ", ")+")")
						}
						return absint.NewVar(callee.Name(), types.Typ[types.String]), true
					}
					return nil, false
				}
				in.Hooks.Store = func(in *absint.Interp, pv absint.Val, v absint.Val, site ssa.Instruction) bool {
					_, isSym := pv.(*absint.Sym)
					return isSym // writes into a buffer of abstract length
				}
				in.Hooks.Branch = func(in *absint.Interp, cond absint.Val, site ssa.Instruction) (bool, bool) {
					k := absint.Key(cond)
					if strings.Contains(k, "len(") && strings.HasPrefix(k, "<(") {
						p := fmt.Sprint(site.Pos())
						loops[p]++
						if loops[p] > 2 {
							return false, true
						}
					}
					return false, false
				}
				var cuts []string
				in.Hooks.Slice = func(in *absint.Interp, x absint.Val, lo, hi, max absint.Val, site ssa.Instruction) (absint.Val, bool) {
					if _, conc := x.(*absint.Slice); conc || mn != "Abbrev" {
						return nil, false
					}
					h, isC := absint.ConstInt(hi)
					if hi == nil {
						return nil, false
					}
					// the cut must lie inside the text: a comparison on this path bounds
					// the length of the very value that is cut
					okCut := false
					if isC {
						xk := absint.Key(x)
						for _, c := range in.CondV {
							ck := absint.Key(c.V)
							var n int64
							switch {
							case scan(ck, "<(%d,len("+xk+"))", &n) && c.B:
								okCut = okCut || n+1 >= h
							case scan(ck, "<(len("+xk+"),%d)", &n) && !c.B:
								okCut = okCut || n >= h
							case scan(ck, ">(len("+xk+"),%d)", &n) && c.B:
								okCut = okCut || n+1 >= h
							case scan(ck, ">=(len("+xk+"),%d)", &n) && c.B:
								okCut = okCut || n >= h
							case scan(ck, "<=(len("+xk+"),%d)", &n) && !c.B:
								okCut = okCut || n+1 >= h
							}
						}
					}
					if !okCut && os.Getenv("CALCSA_DUMP_VALTAB") != "" {
						for _, c := range in.CondV {
							fmt.Printf("  abbrev cond: %s = %v\n", absint.Key(c.V), c.B)
						}
					}
					if !okCut {
						cuts = append(cuts, fmt.Sprintf("%s[:%s] at %s", absint.Key(x), absint.Key(hi), t.p.Pos(site.Pos())))
					}
					return nil, false
				}
				recv := t.mkVal("a", k)
				recvKey = absint.Key(recv)
				_, end := in.Run(fn, []absint.Val{recv})
				if end != nil {
					bad = end.Error()
				} else if otherValue != "" {
					bad = "the shortened form renders " + short80(otherValue) + " instead of the value itself: what the report shows is not a prefix of the value (an array cut to its first elements looks complete)"
				} else if len(cuts) > 0 {
					bad = "the shortened form cuts " + strings.Join(cuts, ", ") + " without a test on this path that the value cut is at least that long (a slice expression beyond the length fails, or shows spare capacity that is not part of the value)"
				}
				if !o.Next() {
					break
				}
			}
			if bad == "" {
				t.s.OK("A7", key, pos, "renders without aborting")
			} else {
				t.s.Bad("A7", key, pos, "rendering a value of this kind can abort the interpreter: "+bad)
			}
		}
	}
}

// scan matches key against a pattern with one %d and nothing else variable.
func scan(key, pattern string, n *int64) bool {
	i := strings.Index(pattern, "%d")
	if i < 0 || !strings.HasPrefix(key, pattern[:i]) || !strings.HasSuffix(key, pattern[i+2:]) || len(key) < len(pattern)-2 {
		return false
	}
	_, err := fmt.Sscanf(key[i:len(key)-len(pattern[i+2:])], "%d", n)
	return err == nil && fmt.Sprint(*n) == key[i:len(key)-len(pattern[i+2:])]
}

func short80(s string) string {
	if len(s) > 80 {
		return s[:77] + "..."
	}
	return s
}
