package lexfsm

import (
	"fmt"
	"go/types"
	"strings"

	"calcsa/absint"
	"calcsa/load"
	"calcsa/oblig"

	"golang.org/x/tools/go/ssa"
)

// freshRule (N11): every parse starts on a lexer in the state a new lexer has.
//
// The token stream of a text is a function of that text (C14, C07, C13 all
// quantify over "the input"); Lexer.Next consults its own fields (the state
// function, the span, the last token for the closing end-of-line, the end
// flag), so a lexer that carries anything over from an earlier text tokenises
// the same text differently depending on what was lexed before. parser.Parse
// is interpreted with every package variable of the module unknown (whatever
// earlier calls left there); at the point where it hands the lexer to the
// grammar, the lexer -- field by field, through the nested structs -- must be
// what lexer.NewTLexer(input) returns: the same value, or for a slice an empty
// one. A field that still holds an unknown of the earlier state is reported.
// A Reset method that re-initialises every field passes; one that forgets a
// field (seeds C07-Q, C14-Q: the last token) does not.
func freshRule(p *load.Program, s *oblig.Set) {
	parse := p.Func("parser", "Parse")
	ntl := p.Func("lexer", "NewTLexer")
	if parse == nil || ntl == nil || len(ntl.Params) != 1 || len(parse.Params) != 1 {
		s.Unk("ANCHOR", "parser.Parse / lexer.NewTLexer", "-", "not found")
		return
	}
	pos := p.Pos(parse.Pos())
	key := "parser.Parse / the grammar starts on a lexer in its initial state"
	strT := types.Typ[types.String]
	opaqueLib := func(in *absint.Interp, fn *ssa.Function, args []absint.Val, site ssa.Instruction) (absint.Val, bool) {
		if fn.Pkg == nil || !strings.HasPrefix(fn.Pkg.Pkg.Path(), load.ModPath) {
			if fn.Signature.Results().Len() == 1 {
				// a reader reset to the text is a reader over the text
				return &absint.Sym{Op: fn.String(), Args: args, T: fn.Signature.Results().At(0).Type()}, true
			}
			if fn.Signature.Results().Len() == 0 {
				// a library method on a field (rdr.Reset(text)): the field now
				// holds what the call made of its arguments
				if ptr, ok := args[0].(*absint.Ptr); ok && fn.Signature.Recv() != nil && len(args) > 1 {
					in.Store(ptr, &absint.Sym{Op: fn.String(), Args: args[1:], T: fn.Signature.Recv().Type()}, site)
				}
				return nil, true
			}
		}
		return nil, false
	}
	// reference state
	rin := absint.NewInterp(p.SSA, &absint.Oracle{})
	rin.Hooks.Call = opaqueLib
	ref, rend := rin.Run(ntl, []absint.Val{absint.NewVar("IN", strT)})
	refSt, ok := ref.(*absint.Struct)
	if rend != nil || !ok {
		s.Unk("N11", key, pos, fmt.Sprintf("lexer.NewTLexer could not be evaluated: %v %s", rend, absint.Key(ref)))
		return
	}
	// Parse, with unknown package state
	o := &absint.Oracle{}
	paths, judged := 0, 0
	var stale []string
	for n := 0; n < 64; n++ {
		in := absint.NewInterp(p.SSA, o)
		in.Hooks.Global = func(in *absint.Interp, g *ssa.Global) (absint.Val, bool) {
			if g.Pkg == nil || !strings.HasPrefix(g.Pkg.Pkg.Path(), load.ModPath) {
				return nil, false
			}
			t := g.Type().Underlying().(*types.Pointer).Elem()
			return symOf(t, "OLD."+g.Name()), true
		}
		var got absint.Val
		in.Hooks.Call = func(in *absint.Interp, fn *ssa.Function, args []absint.Val, site ssa.Instruction) (absint.Val, bool) {
			if got == nil && fn != parse && fn.Pkg == parse.Pkg && len(args) >= 1 {
				if lx := lexerOf(in, args[0], refSt.T); lx != nil {
					got = lx
					in.Undecided("N11: reached the grammar", site)
					return nil, true
				}
			}
			return opaqueLib(in, fn, args, site)
		}
		// the grammar's entry point may be a parser value held in a package variable
		in.Hooks.CallValue = func(in *absint.Interp, fnv absint.Val, args []absint.Val, site ssa.Instruction) (absint.Val, bool) {
			if got == nil && len(args) >= 1 {
				if lx := lexerOf(in, args[0], refSt.T); lx != nil {
					got = lx
					in.Undecided("N11: reached the grammar", site)
					return nil, true
				}
			}
			return nil, false
		}
		_, end := in.Run(parse, []absint.Val{absint.NewVar("IN", strT)})
		paths++
		if got != nil {
			judged++
			stale = append(stale, diffFresh(got, refSt, "")...)
		} else if end != nil {
			s.Unk("N11", key, pos, "a path of Parse ends before the grammar is started: "+end.Error())
			return
		}
		if !o.Next() {
			break
		}
	}
	switch {
	case judged == 0:
		s.Unk("N11", key, pos, "Parse does not hand a lexer.TLexer to a function of package parser: the rule does not know this form")
	case len(stale) > 0:
		s.Bad("N11", key, pos, "the lexer the grammar starts on is not in the state of a new lexer for the text: "+strings.Join(uniqStr(stale), "; ")+" -- what an earlier parse left there decides how this text is tokenised")
	default:
		s.OK("N11", key, pos, fmt.Sprintf("%d path(s): every field equals lexer.NewTLexer(input)", judged))
	}
}

// symOf builds an unknown value of type t; structs field by field.
func symOf(t types.Type, name string) absint.Val {
	if st, ok := t.Underlying().(*types.Struct); ok {
		f := make([]absint.Val, st.NumFields())
		for i := range f {
			f[i] = symOf(st.Field(i).Type(), name+"."+st.Field(i).Name())
		}
		return &absint.Struct{T: t, F: f}
	}
	return absint.NewVar(name, t)
}

// lexerOf: the TLexer struct behind an interface / pointer argument.
func lexerOf(in *absint.Interp, v absint.Val, want types.Type) absint.Val {
	if ifc, ok := v.(*absint.Iface); ok {
		v = ifc.V
	}
	ptr, ok := v.(*absint.Ptr)
	if !ok {
		return nil
	}
	st, ok := in.Load(ptr, want, nil).(*absint.Struct)
	if !ok || !types.Identical(st.T, want) {
		return nil
	}
	return st
}

// diffFresh compares a lexer state with the reference, field by field.
func diffFresh(got absint.Val, ref absint.Val, path string) []string {
	gs, ok1 := got.(*absint.Struct)
	rs, ok2 := ref.(*absint.Struct)
	if ok1 && ok2 && len(gs.F) == len(rs.F) {
		var out []string
		stt, _ := gs.T.Underlying().(*types.Struct)
		for i := range gs.F {
			name := fmt.Sprint(i)
			if stt != nil {
				name = stt.Field(i).Name()
			}
			out = append(out, diffFresh(gs.F[i], rs.F[i], path+"."+name)...)
		}
		return out
	}
	gk, rk := absint.Key(got), absint.Key(ref)
	if gk == rk {
		return nil
	}
	if isEmptySlice(got) && isEmptySlice(ref) {
		return nil
	}
	// a reader over the text, however it was pointed at it
	if strings.Contains(rk, "strings.NewReader(IN)") && !strings.Contains(gk, "OLD.") && strings.Contains(gk, "IN") {
		return nil
	}
	// (*strings.Reader).Reset(&old, IN) leaves a reader over IN: the call was
	// made on the field, its effect is not modelled; accept a reader field the
	// path has reset with the text
	if strings.Contains(rk, "strings.NewReader(IN)") {
		return []string{strings.TrimPrefix(path, ".") + " (the rune reader) is " + clip(gk) + ", a new lexer reads from strings.NewReader(input)"}
	}
	return []string{strings.TrimPrefix(path, ".") + " is " + clip(gk) + ", a new lexer has " + clip(rk)}
}

func clip(s string) string {
	if len(s) > 100 {
		return s[:100] + "…"
	}
	return s
}

func isEmptySlice(v absint.Val) bool {
	switch x := v.(type) {
	case *absint.Slice:
		return x.Len == 0
	case *absint.Sym:
		if x.Op == "slice" && len(x.Args) == 4 {
			if h, ok := absint.ConstInt(x.Args[2]); ok && h == 0 {
				return true
			}
		}
		if x.Op == "makeslice" && len(x.Args) >= 1 {
			if n, ok := absint.ConstInt(x.Args[0]); ok && n == 0 {
				return true
			}
		}
	case absint.Const:
		return x.V == nil
	}
	return false
}

func uniqStr(xs []string) []string {
	seen := map[string]bool{}
	var out []string
	for _, x := range xs {
		if !seen[x] {
			seen[x] = true
			out = append(out, x)
		}
	}
	return out
}
