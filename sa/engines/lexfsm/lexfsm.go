// Package lexfsm extracts the lexer's finite automaton from the source of the
// state functions (by abstract interpretation of their SSA over one
// representative per character class) and checks the L-rules on the
// transition table, and the N-rules (span / text book-keeping) on the symbolic
// effect of one iteration of Lexer.Next.
package lexfsm

import (
	"fmt"
	"go/token"
	"go/types"
	"sort"
	"strings"

	"calcsa/absint"
	"calcsa/load"
	"calcsa/oblig"

	"golang.org/x/tools/go/ssa"
)

type trans struct {
	next   *ssa.Function // nil: none
	emit   bool
	adv    bool
	kind   int64
	err    bool
	panics bool
	unk    string
}

type fsm struct {
	p       *load.Program
	states  []*ssa.Function
	name    map[*ssa.Function]string
	runes   []rune
	T       map[*ssa.Function]map[rune]trans
	initial *ssa.Function
	kinds   map[string]int64 // token kind constants
	kindNm  map[int64]string
	strT    *types.Struct
	fNext   int
	fEmit   int
	fAdv    int
	fTyp    int
	fErr    int
	eofRune rune
}

var maxRune rune = 0x300

func Run(p *load.Program, tier string) *oblig.Set {
	maxRune = 0x300
	if tier == "thorough" {
		maxRune = 0x3000 // every rune below U+3000 instead of U+0300
	}
	s := oblig.NewSet()
	f := &fsm{p: p, name: map[*ssa.Function]string{}, T: map[*ssa.Function]map[rune]trans{}}
	if !f.anchors(s) {
		return s
	}
	f.extract(s)
	f.rulesL(s)
	nrules(p, f, s)
	return s
}

func (f *fsm) anchors(s *oblig.Set) bool {
	sp := f.p.SPkg("lexer")
	if sp == nil {
		s.Unk("ANCHOR", "package lexer", "-", "package lexer not found")
		return false
	}
	sfObj := sp.Pkg.Scope().Lookup("stateFunc")
	if sfObj == nil {
		s.Unk("ANCHOR", "lexer.stateFunc", "-", "named type stateFunc not found")
		return false
	}
	sig, ok := sfObj.Type().Underlying().(*types.Signature)
	if !ok || sig.Results().Len() != 1 {
		s.Unk("ANCHOR", "lexer.stateFunc", "-", "stateFunc is not a function type with one result")
		return false
	}
	st, ok := sig.Results().At(0).Type().Underlying().(*types.Struct)
	if !ok {
		s.Unk("ANCHOR", "lexer.str", "-", "state transition result is not a struct")
		return false
	}
	f.strT = st
	f.fNext, f.fEmit, f.fAdv, f.fTyp, f.fErr = -1, -1, -1, -1, -1
	for i := 0; i < st.NumFields(); i++ {
		fl := st.Field(i)
		switch {
		case types.Identical(fl.Type(), sfObj.Type()):
			f.fNext = i
		case fl.Type().String() == "error":
			f.fErr = i
		case fl.Name() == "doEmit":
			f.fEmit = i
		case fl.Name() == "doAdv":
			f.fAdv = i
		default:
			if n, ok := fl.Type().(*types.Named); ok && n.Obj().Name() == "Kind" {
				f.fTyp = i
			}
		}
	}
	if f.fNext < 0 || f.fEmit < 0 || f.fAdv < 0 || f.fTyp < 0 || f.fErr < 0 {
		s.Unk("ANCHOR", "lexer.str fields", "-", fmt.Sprintf("could not resolve fields next/doEmit/doAdv/typ/err of the transition struct (%d %d %d %d %d)", f.fNext, f.fEmit, f.fAdv, f.fTyp, f.fErr))
		return false
	}
	var names []string
	for n, m := range sp.Members {
		fn, ok := m.(*ssa.Function)
		if !ok || fn.Signature.Recv() != nil {
			continue
		}
		if types.Identical(fn.Signature, sig) {
			names = append(names, n)
		}
	}
	sort.Strings(names)
	for _, n := range names {
		fn := sp.Func(n)
		f.states = append(f.states, fn)
		f.name[fn] = n
	}
	if len(f.states) < 8 {
		s.Unk("ANCHOR", "lexer state functions", "-", fmt.Sprintf("only %d state functions found", len(f.states)))
		return false
	}
	// initial state: the function value stored in field `state` by NewLexer
	nl := sp.Func("NewLexer")
	if nl != nil {
		for _, b := range nl.Blocks {
			for _, ins := range b.Instrs {
				if st, ok := ins.(*ssa.Store); ok {
					if fa, ok := st.Addr.(*ssa.FieldAddr); ok {
						if fn, ok := unwrapFn(st.Val); ok && f.name[fn] != "" {
							_ = fa
							f.initial = fn
						}
					}
				}
			}
		}
	}
	if f.initial == nil {
		s.Unk("ANCHOR", "lexer.NewLexer initial state", "-", "could not find the initial state stored by NewLexer")
		return false
	}
	f.kinds = f.p.ConstsOfType("types/token", "Kind")
	f.kindNm = map[int64]string{}
	for k, v := range f.kinds {
		f.kindNm[v] = k
	}
	if eof, ok := f.p.ConstInt("lexer", "EOF"); ok {
		f.eofRune = rune(eof)
	} else {
		s.Unk("ANCHOR", "lexer.EOF", "-", "constant EOF not found")
		return false
	}
	return true
}

func unwrapFn(v ssa.Value) (*ssa.Function, bool) {
	for {
		switch x := v.(type) {
		case *ssa.Function:
			return x, true
		case *ssa.ChangeType:
			v = x.X
		case *ssa.MakeClosure:
			v = x.Fn
		default:
			return nil, false
		}
	}
}

// runeConsts collects every integer constant of a rune-typed comparison and every
// constant string in the state functions and their module callees.
func (f *fsm) runeConsts() (maxc int64, bad []string) {
	seen := map[*ssa.Function]bool{}
	var visit func(fn *ssa.Function)
	visit = func(fn *ssa.Function) {
		if fn == nil || seen[fn] || fn.Blocks == nil {
			return
		}
		seen[fn] = true
		for _, b := range fn.Blocks {
			for _, ins := range b.Instrs {
				for _, op := range ins.Operands(nil) {
					if c, ok := (*op).(*ssa.Const); ok && c.Value != nil {
						if bt, ok := c.Type().Underlying().(*types.Basic); ok {
							if bt.Kind() == types.Int32 || bt.Kind() == types.UntypedRune {
								if v := c.Int64(); v > maxc {
									maxc = v
								}
							}
							if bt.Info()&types.IsString != 0 {
								if bo, ok := ins.(*ssa.Call); ok {
									if cal := bo.Call.StaticCallee(); cal != nil && cal.Pkg != nil && cal.Pkg.Pkg.Path() == "strings" {
										for _, r := range constStr(c) {
											if int64(r) > maxc {
												maxc = int64(r)
											}
										}
									}
								}
							}
						}
					}
				}
				if call, ok := ins.(*ssa.Call); ok {
					if cal := call.Call.StaticCallee(); cal != nil && cal.Pkg == fn.Pkg {
						visit(cal)
					}
				}
			}
		}
	}
	for _, st := range f.states {
		visit(st)
	}
	return maxc, bad
}

func constStr(c *ssa.Const) string {
	s, _ := absint.ConstString(absint.Const{V: c.Value})
	return s
}

func (f *fsm) extract(s *oblig.Set) {
	maxc, _ := f.runeConsts()
	if maxc >= int64(maxRune)-1 {
		s.Unk("L0", "lexer rune constants", "-", fmt.Sprintf("a state function compares against rune %#x, beyond the sampled range; the class partition would be incomplete", maxc))
	}
	for r := rune(0); r < maxRune; r++ {
		f.runes = append(f.runes, r)
	}
	f.runes = append(f.runes, 0x20AC, 0xFFFD, 0x1F600, 0x10FFFF)
	s.Note("rune constants in state functions are all <= %#x; every state function evaluated on %d representative runes (0..%#x and 4 larger)", maxc, len(f.runes), maxRune-1)

	runeT := types.Typ[types.Rune]
	evals := 0
	// computed package variables (lookup tables) have their real contents
	var globals map[*ssa.Global]*absint.Cell
	if sp := f.p.SPkg("lexer"); sp != nil {
		if g, end := absint.InitGlobals(f.p.SSA, sp); end == nil {
			globals = g
		} else {
			s.Note("package lexer's initialiser could not be evaluated (%s): package variables are unknown to the state functions", end.Error())
		}
	}
	for _, st := range f.states {
		f.T[st] = map[rune]trans{}
		for _, r := range f.runes {
			o := &absint.Oracle{}
			in := absint.NewInterp(f.p.SSA, o)
			if globals != nil {
				in.Globals = globals
			}
			in.Hooks.Call = func(in *absint.Interp, fn *ssa.Function, args []absint.Val, site ssa.Instruction) (absint.Val, bool) {
				if fn.Pkg != nil && fn.Pkg.Pkg.Path() == "log" {
					// log.Panicf and friends abort the process
					in.Undecided("log."+fn.Name(), site)
				}
				return absint.StdCall(in, fn, args)
			}
			res, end := in.Run(st, []absint.Val{absint.MkIntT(int64(r), runeT)})
			evals++
			var t trans
			if end != nil {
				if end.Kind == "panic" || (end.Kind == "undecided" && strings.HasPrefix(end.Msg, "log.")) {
					t.panics = true
				} else {
					t.unk = end.Error()
				}
				f.T[st][r] = t
				continue
			}
			if o.Next() {
				t.unk = "state function forked on a concrete rune: " + strings.Join(o.Trace(), ",")
				f.T[st][r] = t
				continue
			}
			rs, ok := res.(*absint.Struct)
			if !ok {
				t.unk = "result is " + absint.Key(res)
				f.T[st][r] = t
				continue
			}
			if c, ok := rs.F[f.fNext].(*absint.Closure); ok {
				t.next = c.Fn
			} else if !absint.IsNil(rs.F[f.fNext]) {
				t.unk = "next is " + absint.Key(rs.F[f.fNext])
			}
			e, ok1 := absint.ConstBool(rs.F[f.fEmit])
			a, ok2 := absint.ConstBool(rs.F[f.fAdv])
			k, ok3 := absint.ConstInt(rs.F[f.fTyp])
			if !ok1 || !ok2 || !ok3 {
				t.unk = "non-constant result " + absint.Key(res)
			}
			t.emit, t.adv, t.kind = e, a, k
			t.err = !absint.IsNil(rs.F[f.fErr])
			f.T[st][r] = t
		}
	}
	s.Count("state_function_evaluations", evals)
	s.Count("states", len(f.states))
}

func (f *fsm) rn(r rune) string {
	switch {
	case r == f.eofRune:
		return "EOF"
	case r == '\n':
		return `'\n'`
	case r == '\t':
		return `'\t'`
	case r < 0x20 || r == 0x7f:
		return fmt.Sprintf("%#x", r)
	case r < 0x7f:
		return fmt.Sprintf("'%c'", r)
	}
	return fmt.Sprintf("%#U", r)
}

// classes groups runes with identical behaviour in every state.
func (f *fsm) classes() [][]rune {
	sig := map[string][]rune{}
	var order []string
	for _, r := range f.runes {
		var b strings.Builder
		for _, st := range f.states {
			t := f.T[st][r]
			fmt.Fprintf(&b, "%s/%v/%v/%d/%v/%v/%s;", f.name[t.next], t.emit, t.adv, t.kind, t.err, t.panics, t.unk)
		}
		k := b.String()
		if _, ok := sig[k]; !ok {
			order = append(order, k)
		}
		sig[k] = append(sig[k], r)
	}
	var out [][]rune
	for _, k := range order {
		out = append(out, sig[k])
	}
	return out
}

func (f *fsm) clsName(c []rune) string {
	if len(c) == 1 {
		return f.rn(c[0])
	}
	if len(c) <= 6 {
		var p []string
		for _, r := range c {
			p = append(p, f.rn(r))
		}
		return "{" + strings.Join(p, " ") + "}"
	}
	// contiguous?
	contig := true
	for i := 1; i < len(c); i++ {
		if c[i] != c[i-1]+1 {
			contig = false
		}
	}
	if contig {
		return f.rn(c[0]) + ".." + f.rn(c[len(c)-1])
	}
	return fmt.Sprintf("{%s %s ... %d runes incl. %s}", f.rn(c[0]), f.rn(c[1]), len(c), f.rn(c[len(c)-1]))
}

func (f *fsm) pos(fn *ssa.Function) string { return f.p.Pos(fn.Pos()) }

func (f *fsm) rulesL(s *oblig.Set) {
	cls := f.classes()
	s.Count("rune_classes", len(cls))
	// the panicking state (eof) = panics on every rune
	var eofState *ssa.Function
	for _, st := range f.states {
		all := true
		for _, r := range f.runes {
			if !f.T[st][r].panics {
				all = false
				break
			}
		}
		if all {
			eofState = st
		}
	}
	// reachability from the initial state
	reach := map[*ssa.Function]bool{f.initial: true}
	work := []*ssa.Function{f.initial}
	for len(work) > 0 {
		st := work[0]
		work = work[1:]
		for _, r := range f.runes {
			t := f.T[st][r]
			if t.next != nil && !reach[t.next] && !t.err {
				reach[t.next] = true
				work = append(work, t.next)
			}
		}
	}
	var rs []string
	for _, st := range f.states {
		if reach[st] {
			rs = append(rs, f.name[st])
		}
	}
	s.Note("initial state %s; reachable states: %s; end-of-input state (panics when called): %s; %d behavioural character classes", f.name[f.initial], strings.Join(rs, ","), f.name[eofState], len(cls))

	D := func(r rune) *ssa.Function { return f.T[f.initial][r].next }

	for _, st := range f.states {
		if !reach[st] || st == eofState {
			continue
		}
		stn := f.name[st]
		for _, c := range cls {
			r := c[0]
			t := f.T[st][r]
			key := fmt.Sprintf("lexer.%s / class %s", stn, f.clsName(c))
			if t.unk != "" {
				s.Unk("L2", key, f.pos(st), "transition could not be evaluated: "+t.unk)
				continue
			}
			if t.panics {
				s.Bad("L2", key, f.pos(st), "state function aborts on this character class")
				continue
			}
			// L2: closure of the table
			switch {
			case t.err:
				s.OK("L2", key, f.pos(st), "lexer error")
			case t.next == nil:
				s.Bad("L2", key, f.pos(st), "transition has no next state: the next iteration calls a nil state function")
			case t.next == eofState && !(r == f.eofRune && (t.emit || t.adv)):
				s.Bad("L2", key, f.pos(st), fmt.Sprintf("enters the end-of-input state %s without emit/advance or on a character other than EOF: the next iteration calls it and aborts", f.name[eofState]))
			default:
				s.OK("L2", key, f.pos(st), fmt.Sprintf("-> %s emit=%v adv=%v", f.name[t.next], t.emit, t.adv))
			}
			// L1: progress at end of input
			if r == f.eofRune {
				k1 := fmt.Sprintf("lexer.%s / EOF", stn)
				if t.err || t.emit || t.adv {
					s.OK("L1", k1, f.pos(st), "end of input emits, advances or reports an error")
				} else {
					s.Bad("L1", k1, f.pos(st), "at end of input the state neither emits, advances nor fails: Lexer.Next never reaches from==to==len(input) and spins forever",
						fmt.Sprintf("input that ends while the lexer is in state %s", stn))
				}
			}
			// L4: a token boundary dispatches on the new character only
			if !t.err && (t.emit || t.adv) {
				k4 := fmt.Sprintf("lexer.%s / boundary on %s", stn, f.clsName(c))
				if t.next == D(r) {
					s.OK("L4", k4, f.pos(st), "next state equals the start dispatch of the character")
				} else {
					s.Bad("L4", k4, f.pos(st), fmt.Sprintf("after a token boundary the next state is %s but the same character starts %s after a blank: tokenisation depends on what precedes the token", f.name[t.next], f.name[D(r)]))
				}
			}
		}
	}
	f.rulesL3(s, reach, eofState, cls)
}

// rulesL3 checks the documented token structure on the table.
func (f *fsm) rulesL3(s *oblig.Set, reach map[*ssa.Function]bool, eofState *ssa.Function, cls [][]rune) {
	D := func(r rune) *ssa.Function { return f.T[f.initial][r].next }
	K := f.kinds
	need := []string{"EOL", "IntLit", "FloatLit", "StringLit", "Name", "Sticky", "NotSticky", "Invalid", "EOF"}
	for _, n := range need {
		if _, ok := K[n]; !ok {
			s.Unk("ANCHOR", "token kind "+n, "-", "token kind constant not found")
			return
		}
	}
	// per state: emitted kind must be unique
	emitKind := map[*ssa.Function]int64{}
	emits := map[*ssa.Function]bool{}
	advs := map[*ssa.Function]bool{}
	for _, st := range f.states {
		if !reach[st] || st == eofState {
			continue
		}
		kinds := map[int64]bool{}
		for _, r := range f.runes {
			t := f.T[st][r]
			if t.err || t.unk != "" {
				continue
			}
			if t.emit {
				kinds[t.kind] = true
				emits[st] = true
			}
			if t.adv {
				advs[st] = true
			}
		}
		key := "lexer." + f.name[st] + " / emitted kind"
		switch len(kinds) {
		case 0:
		case 1:
			for k := range kinds {
				emitKind[st] = k
				if k == K["Invalid"] || k == K["EOF"] {
					s.Bad("L3", key, f.pos(st), "emits a token of kind "+f.kindNm[k]+" from the text")
				} else {
					s.OK("L3", key, f.pos(st), "emits only "+f.kindNm[k])
				}
			}
		default:
			s.Bad("L3", key, f.pos(st), "the kind of the emitted token depends on the following character")
		}
		// skipped text only in states that never emit
		if advs[st] && emits[st] {
			s.Bad("L3", "lexer."+f.name[st]+" / skip and emit", f.pos(st), "the state both drops accumulated text (advance) and emits tokens: text between tokens would not be only blanks/comments")
		}
	}
	// documented start characters
	expectStart := func(r rune, kind string, what string) {
		st := D(r)
		key := fmt.Sprintf("start %s", f.rn(r))
		t := f.T[f.initial][r]
		if kind == "error" {
			if t.err {
				s.OK("L3", key, f.pos(f.initial), "rejected by the lexer")
			} else {
				s.Bad("L3", key, f.pos(f.initial), "character outside the alphabet is not rejected")
			}
			return
		}
		if t.err || st == nil {
			s.Bad("L3", key, f.pos(f.initial), "character of the language alphabet is rejected: "+what)
			return
		}
		if kind == "skip" {
			if emits[st] || !advs[st] {
				s.Bad("L3", key, f.pos(st), what+" must start a skipping state (never emits)")
			} else {
				s.OK("L3", key, f.pos(st), what+" starts skipping state "+f.name[st])
			}
			return
		}
		// the state started must eventually emit `kind`: follow non-emitting continuation states
		seen := map[*ssa.Function]bool{}
		var kinds []string
		var walk func(x *ssa.Function)
		walk = func(x *ssa.Function) {
			if x == nil || seen[x] || x == eofState {
				return
			}
			seen[x] = true
			if k, ok := emitKind[x]; ok {
				kinds = append(kinds, f.kindNm[k])
			}
			for _, r2 := range f.runes {
				t2 := f.T[x][r2]
				if !t2.err && !t2.emit && !t2.adv && t2.next != nil {
					walk(t2.next)
				}
			}
		}
		walk(st)
		sort.Strings(kinds)
		got := strings.Join(uniq(kinds), ",")
		if got == kind {
			s.OK("L3", key, f.pos(st), what+" starts a token of kind "+got)
		} else {
			s.Bad("L3", key, f.pos(st), fmt.Sprintf("%s should start a token of kind %s, the automaton gives {%s}", what, kind, got))
		}
	}
	for r := '0'; r <= '9'; r++ {
		expectStart(r, "FloatLit,IntLit", "a digit")
	}
	for r := 'a'; r <= 'z'; r++ {
		expectStart(r, "Name", "a lower-case letter")
	}
	sticky, nonSticky := "+*/=<>!-&|#%~", "(){}[],:"
	for _, r := range sticky {
		expectStart(r, "Sticky", "an operator character")
	}
	for _, r := range nonSticky {
		expectStart(r, "NotSticky", "a bracket / separator character")
	}
	expectStart('"', "StringLit", "a double quote")
	expectStart('\n', "EOL", "a line break")
	expectStart(' ', "skip", "a blank")
	expectStart('\t', "skip", "a tab")
	expectStart(';', "skip", "a semicolon (comment)")
	for _, r := range []rune{'A', 'Z', '_', '$', '@', '\'', '.', '\\', '?', '^', '`', 0x80, 0xA3, 0x20AC, 0x1F600} {
		expectStart(r, "error", "")
	}

	// longest run / single character tokens / line breaks
	cont := func(st *ssa.Function, r rune) bool {
		t := f.T[st][r]
		return !t.err && !t.emit && !t.adv && t.next == st
	}
	check := func(rule, key string, pos string, ok bool, good, bad string) {
		if ok {
			s.OK(rule, key, pos, good)
		} else {
			s.Bad(rule, key, pos, bad)
		}
	}
	if st := D('+'); st != nil {
		for _, a := range sticky {
			check("L3", fmt.Sprintf("lexer.%s / continues on %s", f.name[st], f.rn(a)), f.pos(st), D(a) == st && cont(st, a),
				"operator characters accumulate (longest run)", "an operator character ends the operator token: operators are not grouped by longest run")
		}
		for _, c := range cls {
			r := c[0]
			if strings.ContainsRune(sticky, r) {
				continue
			}
			t := f.T[st][r]
			check("L3", fmt.Sprintf("lexer.%s / ends on %s", f.name[st], f.clsName(c)), f.pos(st), t.err || t.emit,
				"a non-operator character ends the operator token", "a non-operator character is swallowed into an operator token")
		}
	}
	for _, r0 := range []rune{'(', '\n'} {
		st := D(r0)
		if st == nil {
			continue
		}
		for _, c := range cls {
			t := f.T[st][c[0]]
			check("L3", fmt.Sprintf("lexer.%s / one character token, next %s", f.name[st], f.clsName(c)), f.pos(st), t.err || t.emit,
				"emits after exactly one character", "accumulates more than one character: brackets would stick together / line breaks would merge")
		}
	}
	if st := D('0'); st != nil {
		for r := '0'; r <= '9'; r++ {
			check("L3", fmt.Sprintf("lexer.%s / continues on %s", f.name[st], f.rn(r)), f.pos(st), cont(st, r), "digits accumulate", "a digit ends an integer literal")
		}
		dot := f.T[st]['.']
		if dot.next != nil && !dot.emit && !dot.err && !dot.adv {
			fs := dot.next
			for r := '0'; r <= '9'; r++ {
				check("L3", fmt.Sprintf("lexer.%s / continues on %s", f.name[fs], f.rn(r)), f.pos(fs), cont(fs, r), "digits accumulate", "a digit ends a float literal")
			}
			check("L3", fmt.Sprintf("lexer.%s / emitted kind is FloatLit", f.name[fs]), f.pos(fs), emitKind[fs] == K["FloatLit"], "float literal", "a number with a decimal point is not a float literal")
		} else {
			s.Bad("L3", "lexer."+f.name[st]+" / '.'", f.pos(st), "a decimal point does not continue a number into a float literal")
		}
		for _, c := range cls {
			r := c[0]
			if (r >= '0' && r <= '9') || r == '.' {
				continue
			}
			t := f.T[st][r]
			check("L3", fmt.Sprintf("lexer.%s / ends on %s", f.name[st], f.clsName(c)), f.pos(st), t.err || t.emit, "ends the integer literal", "a non-digit is swallowed into an integer literal")
		}
	}
	if st := D('a'); st != nil {
		for r := 'a'; r <= 'z'; r++ {
			check("L3", fmt.Sprintf("lexer.%s / continues on %s", f.name[st], f.rn(r)), f.pos(st), cont(st, r), "letters accumulate", "a letter ends a name")
		}
		for _, c := range cls {
			r := c[0]
			if r >= 'a' && r <= 'z' {
				continue
			}
			t := f.T[st][r]
			check("L3", fmt.Sprintf("lexer.%s / ends on %s", f.name[st], f.clsName(c)), f.pos(st), t.err || t.emit, "ends the name", "a non-letter is swallowed into a name")
		}
	}
	// string literals
	if st := D('"'); st != nil {
		q := f.T[st]['"']
		esc := f.T[st]['\\']
		okq := q.next != nil && !q.emit && !q.adv && !q.err && q.next != st
		check("L3", "lexer."+f.name[st]+" / closing quote", f.pos(st), okq, "a quote ends the literal body", "a double quote inside a string literal does not end it")
		if okq {
			for _, c := range cls {
				t := f.T[q.next][c[0]]
				check("L3", fmt.Sprintf("lexer.%s / emits on %s", f.name[q.next], f.clsName(c)), f.pos(q.next), t.err || (t.emit && t.kind == K["StringLit"]), "string literal emitted after the closing quote", "text after the closing quote is swallowed into the string literal")
			}
		}
		oke := esc.next != nil && !esc.emit && !esc.adv && !esc.err && esc.next != st
		check("L3", "lexer."+f.name[st]+" / backslash", f.pos(st), oke, "a backslash escapes the next character", "a backslash does not start an escape: an escaped quote would end the literal")
		for _, c := range cls {
			r := c[0]
			if r == '"' || r == '\\' || r == f.eofRune {
				continue
			}
			check("L3", fmt.Sprintf("lexer.%s / body %s", f.name[st], f.clsName(c)), f.pos(st), cont(st, r), "any character continues the string literal", "a character inside a string literal ends or breaks it")
			if oke {
				t := f.T[esc.next][r]
				check("L3", fmt.Sprintf("lexer.%s / escaped %s", f.name[esc.next], f.clsName(c)), f.pos(esc.next), !t.err && !t.emit && !t.adv && t.next == st, "the escaped character is part of the literal", "an escaped character ends or breaks the literal")
			}
		}
		if oke {
			t := f.T[esc.next]['"']
			check("L3", fmt.Sprintf("lexer.%s / escaped quote", f.name[esc.next]), f.pos(esc.next), !t.err && !t.emit && !t.adv && t.next == st, "an escaped quote stays inside the literal", "an escaped quote ends the literal")
			t = f.T[esc.next]['\\']
			check("L3", fmt.Sprintf("lexer.%s / escaped backslash", f.name[esc.next]), f.pos(esc.next), !t.err && !t.emit && !t.adv && t.next == st, "a backslash escapes exactly one character: an escaped backslash is an ordinary character of the literal", "an escaped backslash starts another escape: the quote after \\\\ does not close the literal and the literal swallows the text up to the next quote")
		}
	}
	// comments: everything up to the line break / end of input is skipped
	if st := D(';'); st != nil {
		for _, c := range cls {
			r := c[0]
			t := f.T[st][r]
			if r == '\n' || r == f.eofRune {
				check("L3", fmt.Sprintf("lexer.%s / ends on %s", f.name[st], f.rn(r)), f.pos(st), !t.err && t.adv && !t.emit, "the comment text is dropped", "the end of a comment does not drop the comment text")
			} else {
				check("L3", fmt.Sprintf("lexer.%s / body %s", f.name[st], f.clsName(c)), f.pos(st), cont(st, r), "comment continues", "a character inside a comment ends it or is an error")
			}
		}
	}
	// blanks: each blank is dropped
	if st := D(' '); st != nil {
		for _, c := range cls {
			t := f.T[st][c[0]]
			check("L3", fmt.Sprintf("lexer.%s / drops blank before %s", f.name[st], f.clsName(c)), f.pos(st), t.err || (t.adv && !t.emit), "blank dropped", "a blank is kept in the following token or emitted")
		}
	}
}

func uniq(s []string) []string {
	var out []string
	for i, x := range s {
		if i == 0 || x != s[i-1] {
			out = append(out, x)
		}
	}
	return out
}

var _ = token.NoPos
