package lexfsm

import (
	"fmt"
	"go/token"
	"go/types"
	"sort"
	"strings"

	"calcsa/absint"
	"calcsa/load"
	"calcsa/oblig"

	"golang.org/x/tools/go/ssa"
)

// nrules interprets Lexer.Next for one loop iteration over a symbolic lexer
// state and a symbolic transition result, and checks the field-update
// discipline on the resulting effects.
//
// Symbols: F = l.from, T = l.to, S = size of the rune just read, IN = l.input.
func nrules(p *load.Program, f *fsm, s *oblig.Set) {
	tokenRecordRule(p, s)
	next := p.Method("lexer", "Lexer", "Next")
	if next == nil {
		s.Unk("ANCHOR", "lexer.(*Lexer).Next", "-", "method not found")
		return
	}
	sp := p.SPkg("lexer")
	lexT := sp.Pkg.Scope().Lookup("Lexer").Type()
	lst := lexT.Underlying().(*types.Struct)
	fld := LexerRoles(p)
	knownField := map[int]bool{}
	for _, i := range fld {
		knownField[i] = true
	}
	for _, n := range []string{"input", "from", "to", "Token", "Err", "state", "eof"} {
		if _, ok := fld[n]; !ok {
			s.Unk("ANCHOR", "lexer.Lexer."+n, "-", "field not found")
			return
		}
	}
	pos := p.Pos(next.Pos())
	intT := types.Typ[types.Int]

	type outcome struct {
		end      string // "return true", "return false", "iterate", or abnormal
		lex      *absint.Struct
		emit     absint.Val
		adv      absint.Val
		err      absint.Val
		eofRead  bool
		conds    []string
		tokCall  []absint.Val // args of token.WithFromTo
		stArg    absint.Val   // the rune handed to the state function
		stArgEOF string       // "no": cannot be the EOF marker, "yes": is, "maybe"
		replaced bool
		entered  bool
	}
	var outs []outcome

	o := &absint.Oracle{}
	paths := 0
	var extraFields []string
	for {
		paths++
		extraFields = extraFields[:0]
		in := absint.NewInterp(p.SSA, o)
		in.MaxStep = 5000 // one trip through the scanning loop is a few hundred steps
		F := absint.NewVarRange("F", intT, absint.I64(0), nil)
		T := absint.NewVarRange("T", intT, absint.I64(0), nil)
		lex := absint.Zero(lexT).(*absint.Struct)
		lf := append([]absint.Val(nil), lex.F...)
		lf[fld["input"]] = absint.NewVar("IN", types.Typ[types.String])
		lf[fld["from"]] = F
		lf[fld["to"]] = T
		lf[fld["state"]] = absint.NewVar("ST", lst.Field(fld["state"]).Type())
		lf[fld["eof"]] = absint.NewVar("EOFSEEN", types.Typ[types.Bool])
		lf[fld["Err"]] = absint.NewVar("ERR0", lst.Field(fld["Err"]).Type())
		tokT := lst.Field(fld["Token"]).Type()
		tk := absint.Zero(tokT).(*absint.Struct)
		tkf := append([]absint.Val(nil), tk.F...)
		tst := tokT.Underlying().(*types.Struct)
		for i := 0; i < tst.NumFields(); i++ {
			tkf[i] = absint.NewVar("TOK0."+tst.Field(i).Name(), tst.Field(i).Type())
		}
		lf[fld["Token"]] = &absint.Struct{T: tokT, F: tkf}
		// any further state the scanner keeps is unknown: what it emits for a text
		// must not depend on it
		for i := 0; i < lst.NumFields(); i++ {
			if !knownField[i] {
				if b, ok := lst.Field(i).Type().Underlying().(*types.Basic); ok {
					lf[i] = absint.NewVar("LEX."+lst.Field(i).Name(), b)
					extraFields = append(extraFields, lst.Field(i).Name())
				}
			}
		}
		cell := in.NewCell(&absint.Struct{T: lexT, F: lf}, "lexer")
		recv := &absint.Ptr{Cell: cell}

		oc := outcome{}
		finishedCalls := 0
		var strRes *absint.Struct
		in.Hooks.Call = func(in *absint.Interp, fn *ssa.Function, args []absint.Val, site ssa.Instruction) (absint.Val, bool) {
			switch {
			case fn.Name() == "finished" && fn.Pkg == sp:
				finishedCalls++
				if finishedCalls == 1 {
					if in.Oracle.Choose(2, "finished()") == 0 {
						oc.entered = true
						return absint.MkBool(false), true
					}
					return absint.MkBool(true), true
				}
				oc.end = "iterate"
				oc.lex, _ = cell.V.(*absint.Struct)
				in.Undecided("iteration-end", site)
			case fn.String() == "(*strings.Reader).ReadRune":
				return &absint.Tuple{E: []absint.Val{
					absint.NewVar("C", types.Typ[types.Rune]),
					absint.NewVarRange("S", intT, absint.I64(1), absint.I64(4)),
					absint.NewVar("RDERR", types.Universe.Lookup("error").Type()),
				}}, true
			case fn.String() == "strings.ReplaceAll":
				oc.replaced = true
				return &absint.Sym{Op: "ReplaceAll", Args: args, T: types.Typ[types.String]}, true
			case fn.Name() == "WithFromTo":
				oc.tokCall = args
				return nil, false // interpret
			}
			return absint.StdCall(in, fn, args)
		}
		in.Hooks.CallValue = func(in *absint.Interp, fnv absint.Val, args []absint.Val, site ssa.Instruction) (absint.Val, bool) {
			if sv, ok := fnv.(*absint.Sym); ok && (sv.Name == "ST" || sv.Name == "NEXT") {
				if len(args) == 1 {
					oc.stArg = args[0]
					eofC := absint.MkIntT(int64(f.eofRune), types.Typ[types.Rune])
					if c, ok := absint.ConstInt(args[0]); ok {
						oc.stArgEOF = "no"
						if c == int64(f.eofRune) {
							oc.stArgEOF = "yes"
						}
					} else {
						oc.stArgEOF = "maybe"
						eq := in.BinOp(token.EQL, args[0], eofC, types.Typ[types.Bool], types.Typ[types.Rune])
						if b, ok := in.Assumed(eq); ok && !b {
							oc.stArgEOF = "no"
						}
					}
				}
				zs := absint.Zero(types.NewNamed(types.NewTypeName(0, nil, "str", nil), f.strT, nil)).(*absint.Struct)
				ff := append([]absint.Val(nil), zs.F...)
				ff[f.fNext] = absint.NewVar("NEXT", f.strT.Field(f.fNext).Type())
				ff[f.fEmit] = absint.NewVar("EMIT", types.Typ[types.Bool])
				ff[f.fAdv] = absint.NewVar("ADV", types.Typ[types.Bool])
				ff[f.fTyp] = absint.NewVar("KIND", f.strT.Field(f.fTyp).Type())
				ff[f.fErr] = absint.NewVar("STERR", f.strT.Field(f.fErr).Type())
				// whatever else a state function may answer is unknown to the loop
				for i := 0; i < f.strT.NumFields(); i++ {
					if i != f.fNext && i != f.fEmit && i != f.fAdv && i != f.fTyp && i != f.fErr {
						ff[i] = absint.NewVar("STATE."+f.strT.Field(i).Name(), f.strT.Field(i).Type())
					}
				}
				strRes = &absint.Struct{T: zs.T, F: ff}
				return strRes, true
			}
			return nil, false
		}
		in.Hooks.BinOp = nil
		// a loop that tests its condition itself (no helper to hook): one trip is
		// from the first arrival at the loop header to the second
		if !callsHelper(next, "finished") {
			headerVisits := 0
			in.Hooks.Instr = func(in *absint.Interp, fr *absint.Frame, ins ssa.Instruction) {
				if fr.Fn != next {
					return
				}
				b := ins.Block()
				if b == nil || len(b.Instrs) == 0 || b.Instrs[0] != ins {
					return
				}
				switch {
				case strings.HasPrefix(b.Comment, "for.loop"):
					headerVisits++
					if headerVisits == 2 {
						oc.end = "iterate"
						oc.lex, _ = cell.V.(*absint.Struct)
						in.Undecided("iteration-end", ins)
					}
				case strings.HasPrefix(b.Comment, "for.body"):
					oc.entered = true
				}
			}
		}
		res, end := in.Run(next, []absint.Val{recv})
		if oc.end == "" {
			if end != nil {
				oc.end = end.Error()
			} else {
				b, ok := absint.ConstBool(res)
				if !ok {
					oc.end = "return " + absint.Key(res)
				} else {
					oc.end = fmt.Sprintf("return %v", b)
				}
			}
			oc.lex, _ = cell.V.(*absint.Struct)
		}
		oc.conds = append([]string(nil), in.CondLog...)
		outs = append(outs, oc)
		if !o.Next() || paths > 600 {
			break
		}
	}
	s.Count("next_paths", paths)

	fieldKey := func(oc outcome, n string) string {
		if oc.lex == nil {
			return "?"
		}
		return absint.Key(oc.lex.F[fld[n]])
	}
	cond := func(oc outcome, k string) (bool, bool) {
		for _, c := range oc.conds {
			if strings.HasPrefix(c, k+" := ") {
				return strings.HasSuffix(c, "true"), true
			}
		}
		return false, false
	}
	desc := func(oc outcome) string {
		return strings.Join(oc.conds, "; ")
	}
	// N10: the token stream is a function of the text and the scan state the
	// rules model (position, state function, end flag): the scanner keeps no
	// further state that decides what it emits
	{
		var dep []string
		for _, oc := range outs {
			for _, c := range oc.conds {
				if strings.Contains(c, "LEX.") {
					dep = append(dep, c)
				}
			}
			if oc.lex != nil {
				for i := 0; i < lst.NumFields(); i++ {
					_, isBasic := lst.Field(i).Type().Underlying().(*types.Basic)
					if v := absint.Key(oc.lex.F[i]); isBasic && !knownField[i] && v != "LEX."+lst.Field(i).Name() {
						dep = append(dep, "field "+lst.Field(i).Name()+" := "+v)
					}
				}
			}
		}
		key := "lexer.(*Lexer).Next / no scanner state beyond position, state function and end flag"
		if len(dep) == 0 {
			s.OK("N10", key, pos, "no decision of the scanning loop depends on any other field, none is written")
		} else {
			sort.Strings(dep)
			s.Bad("N10", key, pos, "the scanning loop consults or updates state of its own ("+dep[0]+"): which tokens a piece of text gives then depends on what was scanned before it (a line break inside brackets, after a comment, ...), not on the text", dep...)
		}
	}
	nIter, nEmit, nAdv, nPlain, nTail := 0, 0, 0, 0, 0
	for _, oc := range outs {
		if strings.HasPrefix(oc.end, "undecided") || strings.HasPrefix(oc.end, "budget") || strings.HasPrefix(oc.end, "panic") {
			s.Unk("N0", "lexer.(*Lexer).Next / path", pos, "path could not be evaluated: "+oc.end, oc.conds...)
			continue
		}
		if !oc.entered {
			// tail: EOL unless the last token is EOL, then EOF once, then false
			nTail++
			continue
		}
		emit, eok := cond(oc, "EMIT")
		adv, aok := cond(oc, "ADV")
		sterr, sok := cond(oc, "!=(STERR,nil)")
		if !sok {
			sterr, sok = cond(oc, "==(STERR,nil)")
			sterr = !sterr
		}
		rderr := false
		for _, c := range oc.conds {
			if strings.Contains(c, "RDERR") {
				rderr = strings.HasPrefix(c, "!=(RDERR,nil) := true") || strings.HasPrefix(c, "==(RDERR,nil) := false")
			}
		}
		from, to := fieldKey(oc, "from"), fieldKey(oc, "to")
		// which size was added: S if a rune was read, 0 at end of input
		atEOF := false
		for _, c := range oc.conds {
			if strings.HasPrefix(c, ">=(T,len(IN)) := true") || strings.HasPrefix(c, "<(T,len(IN)) := false") {
				atEOF = true
			}
		}
		wantTo := "(S+T)"
		if atEOF {
			wantTo = "T"
		}
		if oc.stArg != nil {
			key := "lexer.(*Lexer).Next / rune handed to the state function"
			switch {
			case atEOF && oc.stArgEOF == "yes":
				s.OK("N7", key+" at end of input", pos, "the end-of-input marker")
			case atEOF:
				s.Bad("N7", key+" at end of input", pos, "at end of input the state function does not receive the EOF marker but "+absint.Key(oc.stArg), oc.conds...)
			case oc.stArgEOF == "no":
				s.OK("N7", key, pos, "a rune read from the text is never the end-of-input marker: "+absint.Key(oc.stArg))
			default:
				s.Bad("N7", key, pos, "a rune read from the text ("+absint.Key(oc.stArg)+") can equal the end-of-input marker: the states take a NUL in the text for the end of input and enter the aborting eof state with input left", oc.conds...)
			}
		}
		switch {
		case rderr:
			// reader error: reported, nothing consumed
			if oc.end != "return false" {
				s.Bad("N2", "lexer.(*Lexer).Next / reader error", pos, "a reader error does not stop the lexer: "+oc.end, oc.conds...)
			}
		case sok && sterr:
			key := "lexer.(*Lexer).Next / state error path"
			if oc.end != "return true" {
				s.Bad("N8", "lexer.(*Lexer).Next / a lexer error is delivered with the token stream", pos, "on a lexer error Next must report true with Err set: the transactional lexer only caches entries for which Next was true, and the parser reads error and span from the cached entry (a false here makes the parser index an empty cache when the very first token is bad); it ends with "+oc.end, oc.conds...)
			} else {
				s.OK("N8", "lexer.(*Lexer).Next / a lexer error is delivered with the token stream", pos, "returns true with Err set")
			}
			if from == "F" && to == "T" {
				s.OK("N2", key, pos, "a lexer error leaves the span untouched")
			} else {
				s.Bad("N2", key, pos, fmt.Sprintf("a lexer error moves the span: from=%s to=%s", from, to), oc.conds...)
			}
		case eok && emit:
			nEmit++
			key := "lexer.(*Lexer).Next / emit path"
			if atEOF {
				key += " at end of input"
			}
			// N1: token text and span
			okText := false
			if len(oc.tokCall) == 4 {
				word := absint.Key(oc.tokCall[1])
				fr, t2 := absint.Key(oc.tokCall[2]), absint.Key(oc.tokCall[3])
				slice := "slice(IN,F,T,nil)"
				if (word == slice || (oc.replaced && strings.Contains(word, slice))) && fr == "F" && t2 == "T" {
					okText = true
				}
				if okText && oc.replaced {
					s.Bad("N1", "lexer.(*Lexer).Next / token text rewritten", pos, "the emitted token text is not the input between its span bounds: it is passed through strings.ReplaceAll: "+word)
				} else if okText {
					s.OK("N1", key+" / text", pos, "token text = input[from:to], span = (from, to)")
				} else {
					s.Bad("N1", key+" / text", pos, fmt.Sprintf("emitted token is WithFromTo(kind, %s, %s, %s), expected text input[F:T] and span (F,T)", word, fr, t2), oc.conds...)
				}
				if k := absint.Key(oc.tokCall[0]); k != "KIND" {
					s.Bad("N1", key+" / kind", pos, "emitted token kind is "+k+", not the kind returned by the state function")
				}
			} else {
				s.Bad("N1", key+" / text", pos, "emit path does not build the token with WithFromTo", oc.conds...)
			}
			if from == "T" && to == wantTo {
				s.OK("N2", key, pos, "after emit: from = to, to += size")
			} else {
				s.Bad("N2", key, pos, fmt.Sprintf("after emit from=%s to=%s, expected from=T to=%s (spans must be consecutive and the character that ended the token must start the next one)", from, to, wantTo), oc.conds...)
			}
			if st := fieldKey(oc, "state"); st == "NEXT" {
				s.OK("N3", key, pos, "state = next state returned by the state function")
			} else {
				s.Bad("N3", key, pos, "after emit the saved state is "+st+", not the returned next state", oc.conds...)
			}
			if oc.end != "return true" {
				s.Bad("N3", key+" / result", pos, "emit path ends with "+oc.end)
			}
		case aok && adv:
			nAdv++
			key := "lexer.(*Lexer).Next / advance path"
			if atEOF {
				key += " at end of input"
			}
			if from == "T" && to == wantTo && oc.end == "iterate" {
				s.OK("N2", key, pos, "advance: from = to, to += size, loop continues")
			} else {
				s.Bad("N2", key, pos, fmt.Sprintf("advance path gives from=%s to=%s end=%s, expected from=T to=%s and another iteration", from, to, oc.end, wantTo), oc.conds...)
			}
		case eok && aok:
			nPlain++
			key := "lexer.(*Lexer).Next / accumulate path"
			if atEOF {
				key += " at end of input"
			}
			if from == "F" && to == wantTo && oc.end == "iterate" {
				s.OK("N2", key, pos, "accumulate: from unchanged, to += size, loop continues")
			} else {
				s.Bad("N2", key, pos, fmt.Sprintf("accumulate path gives from=%s to=%s end=%s, expected from=F to=%s and another iteration", from, to, oc.end, wantTo), oc.conds...)
			}
		default:
			s.Unk("N0", "lexer.(*Lexer).Next / path", pos, "unclassified path: "+desc(oc)+" -> "+oc.end)
		}
		if oc.end == "iterate" {
			nIter++
		}
	}
	s.Note("Lexer.Next interpreted symbolically for one loop iteration: %d paths (%d emit, %d advance, %d accumulate, %d tail)", paths, nEmit, nAdv, nPlain, nTail)
	if nEmit == 0 || nAdv == 0 || nPlain == 0 {
		s.Unk("N0", "lexer.(*Lexer).Next / coverage", pos, fmt.Sprintf("expected emit, advance and accumulate paths, found %d/%d/%d", nEmit, nAdv, nPlain))
	}

	// N4: tail behaviour over {eof flag, last token kind}
	tailRule(p, f, s, next, fld, lexT, pos)
	newLexerRule(p, f, s, fld)
	freshRule(p, s)
}

// newLexerRule (N6): the lexer scans exactly the text it was given: both the
// text the spans index into and the reader the runes come from are built from
// the unmodified parameter, spans start at 0.
func newLexerRule(p *load.Program, f *fsm, s *oblig.Set, fld map[string]int) {
	nl := p.Func("lexer", "NewLexer")
	if nl == nil || len(nl.Params) != 1 {
		s.Unk("ANCHOR", "lexer.NewLexer", "-", "constructor not found")
		return
	}
	pos := p.Pos(nl.Pos())
	o := &absint.Oracle{}
	in := absint.NewInterp(p.SSA, o)
	in.Hooks.Call = func(in *absint.Interp, fn *ssa.Function, args []absint.Val, site ssa.Instruction) (absint.Val, bool) {
		if fn.Pkg == nil || fn.Pkg.Pkg.Path() != "github.com/paulsonkoly/calc/lexer" {
			var t types.Type
			if fn.Signature.Results().Len() == 1 {
				t = fn.Signature.Results().At(0).Type()
			}
			return &absint.Sym{Op: fn.String(), Args: args, T: t}, true
		}
		return nil, false
	}
	res, end := in.Run(nl, []absint.Val{absint.NewVar("IN", types.Typ[types.String])})
	key := "lexer.NewLexer / scans the given text"
	st, ok := res.(*absint.Struct)
	if end != nil || !ok || o.Next() {
		s.Unk("N6", key, pos, fmt.Sprintf("constructor could not be evaluated: %v %s", end, absint.Key(res)))
		return
	}
	input := absint.Key(st.F[fld["input"]])
	// the reader field is found by what it is (a strings.Reader), not by its name
	rdr := ""
	if stt, ok := st.T.Underlying().(*types.Struct); ok {
		for i := 0; i < stt.NumFields(); i++ {
			if strings.HasSuffix(stt.Field(i).Type().String(), "strings.Reader") {
				rdr = absint.Key(st.F[i])
			}
		}
	}
	from, to := absint.Key(st.F[fld["from"]]), absint.Key(st.F[fld["to"]])
	if input == "IN" && strings.Contains(rdr, "strings.NewReader(IN)") && from == "0" && to == "0" {
		s.OK("N6", key, pos, "input = parameter, reader over the parameter, span starts at 0")
	} else {
		s.Bad("N6", key, pos, fmt.Sprintf("the lexer does not scan the text it was given unchanged: input=%s reader=%s from=%s to=%s", input, rdr, from, to))
	}
}

// tailRule evaluates the end-of-input tail of Next for the four combinations
// of (eof flag, last token is EOL).
func tailRule(p *load.Program, f *fsm, s *oblig.Set, next *ssa.Function, fld map[string]int, lexT types.Type, pos string) {
	sp := p.SPkg("lexer")
	lst := lexT.Underlying().(*types.Struct)
	tokT := lst.Field(fld["Token"]).Type()
	tst := tokT.Underlying().(*types.Struct)
	kindIx := -1
	valIx := -1
	_ = valIx
	for i := 0; i < tst.NumFields(); i++ {
		if n, ok := tst.Field(i).Type().(*types.Named); ok && n.Obj().Name() == "Kind" {
			kindIx = i
		}
		if tst.Field(i).Name() == "Value" {
			valIx = i
		}
	}
	if kindIx < 0 {
		s.Unk("ANCHOR", "token.Type kind field", "-", "not found")
		return
	}
	type tc struct {
		eof     bool
		lastEOL bool
		want    string
	}
	cases := []tc{
		{false, false, "EOL"}, {false, true, "EOF"}, {true, false, "false"}, {true, true, "false"},
	}
	for _, c := range cases {
		key := fmt.Sprintf("lexer.(*Lexer).Next / tail eof=%v lastIsEOL=%v", c.eof, c.lastEOL)
		o := &absint.Oracle{}
		verdict, npaths := "", 0
		for n := 0; n < 32 && verdict == ""; n++ {
			npaths++
			in := absint.NewInterp(p.SSA, o)
			lex := absint.Zero(lexT).(*absint.Struct)
			lf := append([]absint.Val(nil), lex.F...)
			lf[fld["eof"]] = absint.MkBool(c.eof)
			// the text and where its last token lies are whatever they are: the
			// end of the stream depends on the end flag and on the kind of the last
			// token only (a last EOL closes the last line wherever it stands)
			text := absint.NewVar("IN", types.Typ[types.String])
			lf[fld["input"]] = text
			lf[fld["from"]] = in.LenOf(text)
			lf[fld["to"]] = in.LenOf(text)
			tk := absint.Zero(tokT).(*absint.Struct)
			tkf := append([]absint.Val(nil), tk.F...)
			for i := 0; i < tst.NumFields(); i++ {
				if i != kindIx {
					tkf[i] = absint.NewVar("LAST."+tst.Field(i).Name(), tst.Field(i).Type())
				}
			}
			last := f.kinds["Name"]
			if c.lastEOL {
				last = f.kinds["EOL"]
			}
			tkf[kindIx] = absint.MkIntT(last, tst.Field(kindIx).Type())
			lf[fld["Token"]] = &absint.Struct{T: tokT, F: tkf}
			cell := in.NewCell(&absint.Struct{T: lexT, F: lf}, "lexer")
			in.Hooks.Call = func(in *absint.Interp, fn *ssa.Function, args []absint.Val, site ssa.Instruction) (absint.Val, bool) {
				if fn.Name() == "finished" && fn.Pkg == sp {
					return absint.MkBool(true), true
				}
				return absint.StdCall(in, fn, args)
			}
			res, end := in.Run(next, []absint.Val{&absint.Ptr{Cell: cell}})
			if end != nil {
				s.Unk("N4", key, pos, fmt.Sprintf("tail could not be evaluated: %v", end))
				verdict = "unk"
				break
			}
			b, isB := absint.ConstBool(res)
			got := "false"
			lx := cell.V.(*absint.Struct)
			if !isB {
				got = "an undetermined answer " + absint.Key(res)
			} else if b {
				got = "a token of undetermined kind"
				if ts, ok := lx.F[fld["Token"]].(*absint.Struct); ok {
					if k, ok := absint.ConstInt(ts.F[kindIx]); ok {
						got = f.kindNm[k]
					}
				}
				eofNow, _ := absint.ConstBool(lx.F[fld["eof"]])
				if got == "EOF" && !eofNow {
					got = "EOF without setting the eof flag"
				}
			}
			if got != c.want {
				why := ""
				if len(in.CondLog) > 0 {
					why = " when " + strings.Join(in.CondLog, "; ")
				}
				s.Bad("N4", key, pos, fmt.Sprintf("at end of input the lexer yields %s%s, expected %s (EOL unless the last token is EOL, then EOF exactly once, then nothing: whatever the text and wherever its last token stands)", got, why, c.want))
				verdict = "bad"
			}
			if !o.Next() {
				break
			}
		}
		if verdict == "" {
			s.OK("N4", key, pos, fmt.Sprintf("tail yields %s on %d path(s)", c.want, npaths))
		}
	}
}

// tokenRecordRule (N9): a token is a plain record of what the lexer measured:
// From() and To() hand back the bounds it was built with, whatever its text
// is (the text of a string literal is not the text between its bounds, see
// N1, so no bound may be derived from the text).
func tokenRecordRule(p *load.Program, s *oblig.Set) {
	mk := p.Func("types/token", "WithFromTo")
	from := p.Method("types/token", "Type", "From")
	to := p.Method("types/token", "Type", "To")
	if mk == nil || from == nil || to == nil || len(mk.Params) != 4 {
		s.Unk("ANCHOR", "token.WithFromTo / From / To", "-", "constructor or accessors not found")
		return
	}
	pos := p.Pos(mk.Pos())
	o := &absint.Oracle{}
	in := absint.NewInterp(p.SSA, o)
	tok, end := in.Run(mk, []absint.Val{
		absint.NewVar("KIND", mk.Params[0].Type()), absint.NewVar("TEXT", mk.Params[1].Type()),
		absint.NewVar("FROM", mk.Params[2].Type()), absint.NewVar("TO", mk.Params[3].Type())})
	key := "token.Type / From and To hand back the bounds the token was built with"
	if end != nil || o.Next() {
		s.Unk("N9", key, pos, fmt.Sprintf("constructor could not be evaluated: %v", end))
		return
	}
	f, e1 := in.Run(from, []absint.Val{tok})
	t, e2 := in.Run(to, []absint.Val{tok})
	if e1 != nil || e2 != nil {
		s.Unk("N9", key, pos, "accessors could not be evaluated")
		return
	}
	if absint.Key(f) == "FROM" && absint.Key(t) == "TO" {
		s.OK("N9", key, pos, "From() = from, To() = to")
	} else {
		s.Bad("N9", key, pos, fmt.Sprintf("WithFromTo(kind, text, from, to).From() is %s and .To() is %s: error carets and anything else that locates a token read these bounds; they must be the measured ones (a bound computed from the text is wrong whenever the text is not the source text, as for string literals with escapes)", absint.Key(f), absint.Key(t)))
	}
}

// LexerRoles finds the fields of lexer.Lexer by what they hold, whatever they
// are called: the text (string), the rune reader (strings.Reader), the last
// token (a struct of package token), the error, the state function, the end
// flag (bool), and the two ints of the span -- told apart by the slice
// expression of Next that cuts the token text out of the input, text[from:to].
func LexerRoles(p *load.Program) map[string]int {
	fld := map[string]int{}
	sp := p.SPkg("lexer")
	if sp == nil || sp.Pkg.Scope().Lookup("Lexer") == nil {
		return fld
	}
	lexT := sp.Pkg.Scope().Lookup("Lexer").Type()
	lst, ok := lexT.Underlying().(*types.Struct)
	if !ok {
		return fld
	}
	var ints []int
	for i := 0; i < lst.NumFields(); i++ {
		t := lst.Field(i).Type()
		role := ""
		switch u := t.Underlying().(type) {
		case *types.Basic:
			switch {
			case u.Kind() == types.String:
				role = "input"
			case u.Kind() == types.Bool:
				role = "eof"
			case u.Kind() == types.Int:
				ints = append(ints, i)
			}
		case *types.Interface:
			if t.String() == "error" {
				role = "Err"
			}
		case *types.Signature:
			role = "state"
		case *types.Struct:
			if n, ok := t.(*types.Named); ok && n.Obj().Pkg() != nil {
				switch {
				case n.Obj().Pkg().Path() == "strings":
					role = "rdr"
				case strings.HasSuffix(n.Obj().Pkg().Path(), "types/token"):
					role = "Token"
				}
			}
		}
		if role != "" {
			if _, dup := fld[role]; !dup {
				fld[role] = i
			}
		}
	}
	// from / to: the bounds of the slice of the text in Next
	if next := p.Method("lexer", "Lexer", "Next"); next != nil && len(ints) >= 2 {
		fieldOf := func(v ssa.Value) int {
			if ld, ok := v.(*ssa.UnOp); ok {
				if fa, ok := ld.X.(*ssa.FieldAddr); ok {
					return fa.Field
				}
			}
			return -1
		}
		var scan func(fn *ssa.Function)
		scan = func(fn *ssa.Function) {
			for _, b := range fn.Blocks {
				for _, ins := range b.Instrs {
					if sl, ok := ins.(*ssa.Slice); ok && sl.Low != nil && sl.High != nil {
						if in, isIn := fld["input"]; isIn && fieldOf(sl.X) == in {
							if lo, hi := fieldOf(sl.Low), fieldOf(sl.High); lo >= 0 && hi >= 0 && lo != hi {
								if _, dup := fld["from"]; !dup {
									fld["from"], fld["to"] = lo, hi
								}
							}
						}
					}
					// a helper Next was split into
					if ci, ok := ins.(ssa.CallInstruction); ok {
						if c := ci.Common().StaticCallee(); c != nil && c.Pkg == fn.Pkg && c != fn && c.Blocks != nil && len(seenScan) < 20 && !seenScan[c] {
							seenScan[c] = true
							scan(c)
						}
					}
				}
			}
		}
		seenScan = map[*ssa.Function]bool{next: true}
		scan(next)
	}
	if _, ok := fld["from"]; !ok {
		// fall back on the names
		for _, i := range ints {
			if n := lst.Field(i).Name(); n == "from" || n == "to" {
				fld[n] = i
			}
		}
	}
	return fld
}

var seenScan map[*ssa.Function]bool

// callsHelper: does fn call a function of its own package with this name?
func callsHelper(fn *ssa.Function, name string) bool {
	for _, b := range fn.Blocks {
		for _, ins := range b.Instrs {
			if ci, ok := ins.(ssa.CallInstruction); ok {
				if c := ci.Common().StaticCallee(); c != nil && c.Pkg == fn.Pkg && c.Name() == name {
					return true
				}
			}
		}
	}
	return false
}
