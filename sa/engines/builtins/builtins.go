// Package builtins checks the built-in function trees (builtin/builtin.go):
// the package initialiser is interpreted abstractly and every tree is compared
// with the definition the Readme documents for that builtin.
package builtins

import (
	"fmt"
	"go/types"
	"sort"
	"strings"

	"calcsa/absint"
	"calcsa/load"
	"calcsa/oblig"

	"golang.org/x/tools/go/ssa"
)

// reference definitions (Readme "Iterators and generators": the calc source of
// fromto; "elems and indices can also be implemented in a similar fashion";
// the builtin table: name, arity, primitive), in a canonical rendering with
// parameters named p0, p1.
var reference = map[string]string{
	"read":    `Function{params:0 body:Read{}}`,
	"write":   `Function{params:1 body:Write{Value:p0}}`,
	"aton":    `Function{params:1 body:Aton{Value:p0}}`,
	"toa":     `Function{params:1 body:Toa{Value:p0}}`,
	"exit":    `Function{params:1 body:Exit{Value:p0}}`,
	"fromto":  `Function{params:2 body:While{Condition:BinOp{Op:"<" Left:p0 Right:p1} Body:Block[Yield{Target:p0}, Assign{VarRef:p0 Value:BinOp{Op:"+" Left:p0 Right:Int 1}}]}}`,
	"indices": `Function{params:1 body:Block[Assign{VarRef:Name"i" Value:Int 0}, While{Condition:BinOp{Op:"<" Left:Name"i" Right:UnOp{Op:"#" Target:p0}} Body:Block[Yield{Target:Name"i"}, Assign{VarRef:Name"i" Value:BinOp{Op:"+" Left:Name"i" Right:Int 1}}]}]}`,
	"elems":   `Function{params:1 body:Block[Assign{VarRef:Name"i" Value:Int 0}, While{Condition:BinOp{Op:"<" Left:Name"i" Right:UnOp{Op:"#" Target:p0}} Body:Block[Yield{Target:IndexAt{Ary:p0 At:Name"i"}}, Assign{VarRef:Name"i" Value:BinOp{Op:"+" Left:Name"i" Right:Int 1}}]}]}`,
}

func tname(t types.Type) string {
	if n, ok := t.(*types.Named); ok {
		return n.Obj().Name()
	}
	return t.String()
}

func render(v absint.Val, params map[string]int) string {
	switch x := v.(type) {
	case *absint.Iface:
		tn := tname(x.T)
		switch tn {
		case "Name":
			if s, ok := absint.ConstString(x.V); ok {
				if i, isP := params[s]; isP {
					return fmt.Sprintf("p%d", i)
				}
				return fmt.Sprintf("Name%q", s)
			}
		case "Int", "Float", "Bool", "String":
			return tn + " " + absint.Key(x.V)
		case "Block":
			if st, ok := x.V.(*absint.Struct); ok && len(st.F) == 1 {
				return "Block" + render(st.F[0], params)
			}
		case "Function":
			if st, ok := x.V.(*absint.Struct); ok {
				stt := st.T.Underlying().(*types.Struct)
				ps := map[string]int{}
				body := ""
				n := 0
				for i := 0; i < stt.NumFields(); i++ {
					switch stt.Field(i).Name() {
					case "Parameters":
						if ls, ok := st.F[i].(*absint.Struct); ok {
							if sl, ok := ls.F[0].(*absint.Slice); ok {
								for j, el := range sl.Elems() {
									if ifc, ok := el.(*absint.Iface); ok {
										if s, ok := absint.ConstString(ifc.V); ok {
											ps[s] = j
										}
									}
								}
								n = sl.Len
							}
						}
					}
				}
				for i := 0; i < stt.NumFields(); i++ {
					if stt.Field(i).Name() == "Body" {
						body = render(st.F[i], ps)
					}
				}
				return fmt.Sprintf("Function{params:%d body:%s}", n, body)
			}
		}
		return tn + render(x.V, params)
	case *absint.Struct:
		stt := x.T.Underlying().(*types.Struct)
		var ps []string
		for i, f := range x.F {
			ps = append(ps, stt.Field(i).Name()+":"+render(f, params))
		}
		return "{" + strings.Join(ps, " ") + "}"
	case *absint.Slice:
		var ps []string
		for _, el := range x.Elems() {
			ps = append(ps, render(el, params))
		}
		return "[" + strings.Join(ps, ", ") + "]"
	case absint.Const:
		return absint.Key(x)
	}
	return absint.Key(v)
}

func Run(p *load.Program, tier string) *oblig.Set {
	s := oblig.NewSet()
	sp := p.SPkg("builtin")
	if sp == nil {
		s.Unk("ANCHOR", "package builtin", "-", "not found")
		return s
	}
	initFn := sp.Func("init")
	in := absint.NewInterp(p.SSA, &absint.Oracle{})
	in.MaxStep = 500000
	in.Hooks.Global = func(in *absint.Interp, g *ssa.Global) (absint.Val, bool) {
		if g.Pkg == sp {
			return absint.Zero(g.Type().Underlying().(*types.Pointer).Elem()), true
		}
		if strings.HasPrefix(g.Name(), "init$guard") {
			return absint.MkBool(true), true
		}
		return nil, false
	}
	if _, end := in.Run(initFn, nil); end != nil {
		s.Unk("ANCHOR", "builtin package initialiser", "-", "could not be evaluated: "+end.Error())
		return s
	}
	var all *absint.Array
	for g, c := range in.Globals {
		if g.Pkg == sp && g.Name() == "all" {
			all, _ = c.V.(*absint.Array)
		}
	}
	pos := "builtin/builtin.go"
	if ld := sp.Func("Load"); ld != nil {
		pos = p.Pos(ld.Pos())
	}
	if all == nil {
		s.Unk("ANCHOR", "builtin.all", pos, "the list of builtin definitions was not found")
		return s
	}
	seen := map[string]bool{}
	for _, el := range all.E {
		st, ok := el.(*absint.Struct)
		if !ok || tname(st.T) != "Assign" {
			s.Bad("U1", "builtin / entry", pos, "an entry of the builtin list is not an assignment of a function to a name: "+absint.Key(el))
			continue
		}
		stt := st.T.Underlying().(*types.Struct)
		name, val := "", ""
		for i := 0; i < stt.NumFields(); i++ {
			switch stt.Field(i).Name() {
			case "VarRef":
				if ifc, ok := st.F[i].(*absint.Iface); ok && tname(ifc.T) == "Name" {
					name, _ = absint.ConstString(ifc.V)
				}
			case "Value":
				val = render(st.F[i], map[string]int{})
			}
		}
		key := "builtin." + name + " / is the documented definition"
		want, ok := reference[name]
		switch {
		case !ok:
			s.Bad("U1", key, pos, "a builtin the Readme's table does not list: "+val)
		case val == want:
			seen[name] = true
			s.OK("U1", key, pos, val)
		default:
			seen[name] = true
			s.Bad("U1", key, pos, fmt.Sprintf("the tree of the builtin differs from its documented definition:\n      documented: %s\n      found:      %s", want, val))
		}
	}
	var missing []string
	for n := range reference {
		if !seen[n] {
			missing = append(missing, n)
		}
	}
	sort.Strings(missing)
	if len(missing) > 0 {
		s.Bad("U1", "builtin / all documented builtins are loaded", pos, "documented builtins not in the list Load compiles: "+strings.Join(missing, ", "))
	} else {
		s.OK("U1", "builtin / all documented builtins are loaded", pos, "read write aton toa exit fromto indices elems")
	}
	return s
}
