package own

import (
	"fmt"
	"os"
	"regexp"
	"strings"

	"calcsa/absint"
)

const (
	fs = "deref(elemaddr(FP,(len(FP)-2)))" // start of the top frame
	fe = "deref(elemaddr(FP,(len(FP)-1)))" // end of its locals = slot of the return address
)

func (e *eng) one(m string) (effect, bool) {
	efs := e.eff[m]
	if len(efs) != 1 || efs[0].end != "return" {
		e.s.Unk("O8", "memory."+m, e.posM[m], fmt.Sprintf("expected a single straight path, found %d", len(efs)))
		return effect{}, false
	}
	return efs[0], true
}

func (e *eng) expectEq(rule, key, pos, what, got, want string) {
	if got == want {
		e.s.OK(rule, key, pos, what+" = "+short(got))
	} else {
		e.s.Bad(rule, key, pos, fmt.Sprintf("%s is %s, the frame layout requires %s", what, short(got), want))
	}
}

func (e *eng) unchanged(rule, m string, ef effect, except ...string) {
	for n, sym := range fieldSym {
		skip := false
		for _, x := range except {
			if x == n {
				skip = true
			}
		}
		if !skip && ef.fields[n] != sym {
			e.s.Bad(rule, "memory."+m+" / leaves "+n+" alone", e.posM[m], fmt.Sprintf("%s changes %s to %s", m, n, short(ef.fields[n])))
		}
	}
}

func (e *eng) rules() {
	// ---- O5c: growStack postcondition
	if g := e.eff["growStack"]; len(g) == 2 {
		var grow, keep *effect
		for i := range g {
			if g[i].fields["stack"] == "ST" {
				keep = &g[i]
			} else {
				grow = &g[i]
			}
		}
		key := "memory.growStack / grows whenever sp+size reaches the length"
		if grow == nil || keep == nil || len(keep.conds) != 1 {
			e.s.Bad("O5c", key, e.posM["growStack"], "growStack must have one growing and one non-growing path")
		} else {
			c := keep.conds[0]
			// kept only when sp+size < len (or <=: one slot of slack either way is room enough)
			if cc := absint.CanonCmp(c); cc == "<((SIZE+SP),len(ST))" || cc == "!<(len(ST),(SIZE+SP))" {
				e.s.OK("O5c", key, e.posM["growStack"], "the stack is kept only when "+c)
			} else {
				e.s.Bad("O5c", key, e.posM["growStack"], "the stack is left alone under condition "+c+"; it may only be left alone when sp+size is below len(stack)")
			}
			key2 := "memory.growStack / appends at least size slots"
			st := short(grow.fields["stack"])
			ok := false
			for _, pre := range []string{"append(ST,makeslice("} {
				if strings.HasPrefix(st, pre) {
					n := st[len(pre):]
					// first argument of makeslice
					depth, end := 0, -1
					for i, ch := range n {
						if ch == '(' {
							depth++
						}
						if ch == ')' {
							depth--
						}
						if ch == ',' && depth == 0 {
							end = i
							break
						}
					}
					if end > 0 {
						n = n[:end]
						if n == "SIZE" || regexp.MustCompile(`^max\((\d+,SIZE|SIZE,\d+)\)$`).MatchString(n) {
							ok = true
						}
					}
				}
			}
			if ok {
				e.s.OK("O5c", key2, e.posM["growStack"], st)
			} else {
				e.s.Bad("O5c", key2, e.posM["growStack"], "the appended block must be at least as long as the requested size; the new stack is "+st)
			}
		}
	} else {
		e.s.Unk("O5c", "memory.growStack", e.posM["growStack"], fmt.Sprintf("expected 2 paths, found %d", len(e.eff["growStack"])))
	}
	// ---- O5: Push
	for i, ef := range e.eff["Push"] {
		key := fmt.Sprintf("memory.Push / path %d", i)
		grown := ef.fields["stack"] != "ST"
		ok := ef.end == "return" && ef.fields["sp"] == "(SP+1)" && len(ef.stores) == 1 && ef.stores[0].index == "SP" && ef.stores[0].val == "V" && ef.stores[0].base == ef.fields["stack"]
		if ok && len(ef.conds) == 1 && strings.Contains(ef.conds[0], "((SP+1),len(ST))") {
			e.s.OK("O5", key, e.posM["Push"], fmt.Sprintf("room for one slot ensured (grown=%v), value stored at sp, sp incremented", grown))
		} else {
			e.s.Bad("O5", key, e.posM["Push"], fmt.Sprintf("Push must ensure room for 1 slot, store the value at stack[sp] of the (possibly grown) stack and increment sp: conds=%v stores=%v sp=%s", ef.conds, ef.stores, ef.fields["sp"]))
		}
		e.unchanged("O5", "Push", ef, "sp", "stack")
	}
	if len(e.eff["Push"]) != 2 {
		e.s.Unk("O5", "memory.Push", e.posM["Push"], "expected 2 paths")
	}
	// ---- Pop
	if ef, ok := e.one("Pop"); ok {
		e.expectEq("O8", "memory.Pop / sp", e.posM["Pop"], "sp", ef.fields["sp"], "(SP-1)")
		e.expectEq("O8", "memory.Pop / result", e.posM["Pop"], "result", ef.ret, "deref(elemaddr(ST,(SP-1)))")
		e.unchanged("O8", "Pop", ef, "sp")
	}
	// ---- PushFrame: growth, nil-initialised locals, (start, end) pair
	newSP := "(-ARGSCNT+LOCALCNT+SP)"
	npf, withLocals, grown := 0, 0, 0
	for i, ef := range e.eff["PushFrame"] {
		if ef.end != "return" {
			e.s.Unk("O8", fmt.Sprintf("memory.PushFrame / path %d", i), e.posM["PushFrame"], ef.end)
			continue
		}
		npf++
		key := fmt.Sprintf("memory.PushFrame / path %d", i)
		var problems []string
		if ef.fields["sp"] != newSP {
			problems = append(problems, "sp becomes "+ef.fields["sp"]+", expected sp + localCnt - argsCnt")
		}
		if ef.fields["fp"] != "append(FP,slice[(-ARGSCNT+SP),"+newSP+"])" {
			problems = append(problems, "fp becomes "+short(ef.fields["fp"])+", expected append(fp, new sp - localCnt, new sp): (frame start, locals end) in that order")
		}
		grows := false
		for _, c := range ef.conds {
			// the growth test compares the new stack pointer with the stack length, in either order
			if strings.Contains(c, newSP) && strings.Contains(c, "len(ST)") {
				grows = true
			}
		}
		if !grows {
			problems = append(problems, "no growth request for localCnt-argsCnt slots before the locals are written")
		}
		// every store: nil, inside [sp, new sp), into the final stack
		// unless the path has established that there are no new locals, the
		// slots from the old sp on must be written
		hasLocals := true
		for _, c := range ef.conds {
			if c == "!<(SP,"+newSP+")" {
				hasLocals = false
			}
		}
		if hasLocals {
			withLocals++
		}
		if strings.HasPrefix(ef.fields["stack"], "append(") {
			grown++
		}
		for _, st := range ef.stores {
			if st.base != ef.fields["stack"] {
				problems = append(problems, "a local is written into a stale stack "+short(st.base))
			}
			if st.val != "global value.Nil" {
				problems = append(problems, "a new local is initialised with "+st.val+" instead of nil")
			}
			bounded := false
			for _, c := range ef.conds {
				if c == "<("+st.index+","+newSP+")" {
					bounded = true
				}
			}
			if !bounded {
				problems = append(problems, "the local at "+st.index+" is written without being below the new sp")
			}
		}
		if hasLocals && (len(ef.stores) == 0 || ef.stores[0].index != "SP") {
			problems = append(problems, "the first new local (at the old sp) is not initialised to nil: a recycled or reset stack shows through as a stale value")
		}
		if len(problems) == 0 {
			e.s.OK("O8", key, e.posM["PushFrame"], fmt.Sprintf("%d local(s) nil-initialised, sp and fp updated", len(ef.stores)))
		} else {
			e.s.Bad("O8", key, e.posM["PushFrame"], strings.Join(problems, "; "))
		}
		e.unchanged("O8", "PushFrame", ef, "sp", "fp", "stack")
	}
	if npf < 2 || withLocals == 0 || grown == 0 || grown == npf {
		e.s.Unk("O8", "memory.PushFrame / paths", e.posM["PushFrame"], fmt.Sprintf("expected paths with and without growth and with new locals; found %d paths, %d with locals, %d growing", npf, withLocals, grown))
	}
	// ---- readers of the frame pair
	if ef, ok := e.one("PopFrame"); ok {
		e.expectEq("O8", "memory.PopFrame / sp", e.posM["PopFrame"], "sp", ef.fields["sp"], fs)
		e.expectEq("O8", "memory.PopFrame / fp", e.posM["PopFrame"], "fp", ef.fields["fp"], "slice(FP,nil,(len(FP)-2),nil)")
		e.unchanged("O8", "PopFrame", ef, "sp", "fp")
	}
	if ef, ok := e.one("Set"); ok {
		if len(ef.stores) == 1 {
			e.expectEq("O8", "memory.Set / slot", e.posM["Set"], "written slot", "ST["+ef.stores[0].index+"] = "+ef.stores[0].val, "ST[(SYMIDX+"+fs+")] = V")
		} else {
			e.s.Bad("O8", "memory.Set / slot", e.posM["Set"], "Set must write exactly one slot")
		}
		e.unchanged("O8", "Set", ef)
	}
	if ef, ok := e.one("LookUpLocal"); ok {
		e.expectEq("O8", "memory.LookUpLocal / slot", e.posM["LookUpLocal"], "result", ef.ret, "deref(elemaddr(ST,(SYMIDX+"+fs+")))")
		e.unchanged("O8", "LookUpLocal", ef)
	}
	if ef, ok := e.one("LookUpClosure"); ok {
		e.expectEq("O8", "memory.LookUpClosure / slot", e.posM["LookUpClosure"], "result", ef.ret, "deref(elemaddr(deref(elemaddr(CL,(len(CL)-1))),SYMIDX))")
	}
	if ef, ok := e.one("PushClosure"); ok {
		e.expectEq("O8", "memory.PushClosure", e.posM["PushClosure"], "closure", ef.fields["closure"], "append(CL,slice[F])")
		e.unchanged("O8", "PushClosure", ef, "closure")
	}
	if ef, ok := e.one("PopClosure"); ok {
		e.expectEq("O8", "memory.PopClosure", e.posM["PopClosure"], "closure", ef.fields["closure"], "slice(CL,nil,(len(CL)-1),nil)")
		e.unchanged("O8", "PopClosure", ef, "closure")
	}
	for _, ef := range e.eff["Top"] {
		if ef.ret == "nil" {
			continue
		}
		e.expectEq("O8", "memory.Top / frame", e.posM["Top"], "result", ef.ret, "slice(ST,"+fs+","+fe+",nil)")
	}
	for _, ef := range e.eff["IP"] {
		if ef.ret == "nil" {
			continue
		}
		e.expectEq("O8", "memory.IP / return address slot", e.posM["IP"], "result", ef.ret, "elemaddr(ST,"+fe+")")
	}
	// ---- O6: Reset
	if ef, ok := e.one("Reset"); ok {
		key := "memory.Reset / drops everything but globals"
		if ef.fields["sp"] == "0" && ef.fields["fp"] == "slice[]" && ef.fields["closure"] == "slice[]" && ef.fields["global"] == "GL" {
			e.s.OK("O6", key, e.posM["Reset"], "sp = 0, fp and closure emptied, globals kept")
		} else {
			e.s.Bad("O6", key, e.posM["Reset"], fmt.Sprintf("Reset must zero sp and empty fp and closure and keep the globals: sp=%s fp=%s closure=%s global=%s", ef.fields["sp"], short(ef.fields["fp"]), short(ef.fields["closure"]), ef.fields["global"]))
		}
	}
	if ef, ok := e.one("ResetSP"); ok {
		e.expectEq("O6", "memory.ResetSP", e.posM["ResetSP"], "sp", ef.fields["sp"], "0")
		e.unchanged("O6", "ResetSP", ef, "sp")
	}
	if ef, ok := e.one("CallDepth"); ok {
		e.expectEq("O8", "memory.CallDepth", e.posM["CallDepth"], "result", ef.ret, "/(len(FP),2)")
	}
}

var zerosRe = regexp.MustCompile(`slice\[(value\.Type\{0,0,nil\},?)+\]`)

func short(s string) string {
	return zerosRe.ReplaceAllStringFunc(s, func(m string) string {
		return fmt.Sprintf("zeros(%d)", strings.Count(m, "value.Type{"))
	})
}

type cloneEffect struct {
	conds  []string
	res    map[string]string // fields of the returned memory
	reuse  map[string]string // fields of the recycled memory afterwards (if any)
	same   bool              // the returned memory is the recycled one
	copies []string
	end    string
	stale  []string // methods called on the recycled memory
}

func (e *eng) cloneEffects(withReuse bool) []cloneEffect {
	fn := e.p.Method("memory", "Type", "Clone")
	if fn == nil {
		e.s.Unk("ANCHOR", "memory.Type.Clone", "-", "method not found")
		return nil
	}
	e.posM["Clone"] = e.p.Pos(fn.Pos())
	var out []cloneEffect
	o := &absint.Oracle{}
	for n := 0; n < 200; n++ {
		in := absint.NewInterp(e.p.SSA, o)
		_, recv := e.mkMem(in, "")
		var rcell *absint.Cell
		var rv absint.Val = absint.Const{T: fn.Params[1].Type()}
		if withReuse {
			rcell, rv = e.mkMem(in, "R")
		}
		ce := cloneEffect{res: map[string]string{}, reuse: map[string]string{}}
		in.Hooks.Builtin = func(in *absint.Interp, name string, a []absint.Val, site ssa_Instruction) (absint.Val, bool) {
			if name == "copy" {
				ce.copies = append(ce.copies, "copy("+short(absint.Key(a[0]))+", "+short(absint.Key(a[1]))+")")
				return absint.NewVar("copied", nil), true
			}
			if name == "clear" && len(a) == 1 {
				// wiping part of a stack is a write into it like any other
				ce.copies = append(ce.copies, "clear("+short(absint.Key(a[0]))+")")
				return nil, true
			}
			return nil, false
		}
		in.Hooks.Call = func(in *absint.Interp, callee *ssa_Function, a []absint.Val, site ssa_Instruction) (absint.Val, bool) {
			if callee.Pkg == nil || callee.Pkg.Pkg.Path() != modMemory {
				name := callee.String()
				if i := strings.Index(name, "["); i > 0 {
					name = name[:i]
				}
				if callee.Signature.Results().Len() == 0 {
					return nil, true
				}
				return &absint.Sym{Op: name, Args: a, T: callee.Signature.Results().At(0).Type()}, true
			}
			if len(a) > 0 && rcell != nil {
				if p, ok := a[0].(*absint.Ptr); ok && p.Cell == rcell {
					ce.stale = append(ce.stale, callee.Name())
				}
			}
			return nil, false
		}
		res, end := in.Run(fn, []absint.Val{recv, rv})
		for _, c := range in.CondV {
			k := short(absint.Key(c.V))
			if !c.B {
				k = "!" + k
			}
			ce.conds = append(ce.conds, absint.CanonCmp(k))
		}
		if end != nil {
			ce.end = end.Error()
		} else if p, ok := res.(*absint.Ptr); ok {
			ce.end = "return"
			ce.same = rcell != nil && p.Cell == rcell
			st := p.Cell.V.(*absint.Struct)
			for n := range fieldSym {
				ce.res[n] = short(absint.Key(st.F[e.fld[n]]))
			}
		} else {
			ce.end = "returns " + absint.Key(res)
		}
		if rcell != nil {
			st := rcell.V.(*absint.Struct)
			for n := range fieldSym {
				ce.reuse[n] = short(absint.Key(st.F[e.fld[n]]))
			}
		}
		out = append(out, ce)
		if !o.Next() {
			break
		}
	}
	return out
}

func (e *eng) clone() {
	pos := ""
	for _, wr := range []bool{false, true} {
		ces := e.cloneEffects(wr)
		pos = e.posM["Clone"]
		if os.Getenv("CALCSA_DUMP_OWN") != "" {
			for i, ce := range ces {
				fmt.Printf("== Clone(reuse=%v) path %d: %s\n", wr, i, strings.Join(ce.conds, " & "))
				for _, n := range []string{"sp", "fp", "closure", "stack", "global"} {
					fmt.Printf("     result.%s = %s\n", n, ce.res[n])
				}
				for _, c := range ce.copies {
					fmt.Printf("     %s\n", c)
				}
				fmt.Printf("     same=%v stale=%v end=%s\n", ce.same, ce.stale, ce.end)
			}
		}
		want := 2
		if wr {
			want = 4
		}
		if len(ces) != want {
			e.s.Unk("O2", fmt.Sprintf("memory.Clone(reuse=%v) / paths", wr), pos, fmt.Sprintf("expected %d paths, found %d", want, len(ces)))
		}
		for i, ce := range ces {
			tag := fmt.Sprintf("memory.Clone(recycling=%v) path %d", wr, i)
			if ce.end != "return" {
				e.s.Unk("O2", tag, pos, "path not evaluated: "+ce.end)
				continue
			}
			frame := false
			for _, c := range ce.conds {
				if c == "!<(len(FP),2)" {
					frame = true
				}
			}
			// O2: no growable storage shared with the donor memory
			cl := ce.res["closure"]
			k := tag + " / own closure stack"
			switch {
			case strings.HasPrefix(cl, "slices.Clip(CL") || strings.HasPrefix(cl, "slices.Clone(CL"):
				e.s.OK("O2", k, pos, cl)
			case regexp.MustCompile(`^slice\(CL,[^,]*,([^,]+),([^,]+)\)$`).MatchString(cl) && func() bool {
				m := regexp.MustCompile(`^slice\(CL,[^,]*,([^,]+),([^,]+)\)$`).FindStringSubmatch(cl)
				return m[2] != "nil" && m[1] == m[2]
			}():
				e.s.OK("O2", k, pos, cl)
			default:
				e.s.Bad("O2", k, pos, "the clone's closure stack is "+cl+": it shares the spare capacity of the parent's closure stack, so parent and clone overwrite each other's closure frames when they call functions")
			}
			k = tag + " / own value stack and frame pointers"
			if strings.Contains(ce.res["stack"], "ST") && !strings.Contains(ce.res["stack"], "RST") || strings.HasPrefix(ce.res["fp"], "FP") || strings.Contains(ce.res["fp"], "(FP,") && !strings.Contains(ce.res["fp"], "elemaddr(FP") {
				e.s.Bad("O2", k, pos, fmt.Sprintf("the clone shares the parent's stack or frame pointers: stack=%s fp=%s", ce.res["stack"], ce.res["fp"]))
			} else {
				e.s.OK("O2", k, pos, "stack and fp are fresh or taken from the recycled memory")
			}
			if ce.res["global"] != "GL" {
				e.s.Bad("O2", tag+" / shares globals", pos, "the clone must see the same globals, it gets "+ce.res["global"])
			}
			// O4: the recycled memory is not consulted before it is re-initialised, and is long enough
			if wr {
				k = tag + " / recycled memory re-initialised before use"
				if len(ce.stale) > 0 {
					e.s.Bad("O4", k, pos, fmt.Sprintf("methods %v are called on the recycled memory while it still holds its previous owner's sp/fp: decisions are taken on stale state", ce.stale))
				} else {
					e.s.OK("O4", k, pos, "no method of the recycled memory runs on its stale fields")
				}
				k = tag + " / recycled stack long enough"
				var n string
				short1 := false
				for _, c := range ce.conds {
					if strings.HasPrefix(c, "<(len(RST),") {
						n, short1 = c[len("<(len(RST),"):len(c)-1], true
					}
					if strings.HasPrefix(c, "!<(len(RST),") {
						n = c[len("!<(len(RST),") : len(c)-1]
					}
				}
				st := ce.res["stack"]
				wantSt := "RST"
				if short1 {
					wantSt = "append(RST,makeslice((-len(RST)+" + n + "),(-len(RST)+" + n + ")))"
				}
				if n != "" && st == wantSt {
					e.s.OK("O4", k, pos, "length >= "+n)
				} else {
					e.s.Bad("O4", k, pos, fmt.Sprintf("when the recycled stack is shorter than the %s slots needed it must be extended to that length (append of the missing length); it becomes %s", n, st))
				}
			}
			// frame copy
			if frame {
				k = tag + " / copies the whole top frame"
				wantCopy := "copy(" + ce.res["stack"] + ", slice(ST," + fs + ",SP,nil))"
				if len(ce.copies) == 1 && ce.copies[0] == wantCopy && ce.res["sp"] == "(SP-"+fs+")" && strings.HasSuffix(ce.res["fp"], ",slice[0,("+fe+"-"+fs+")])") {
					e.s.OK("O8", k, pos, "stack[fp:sp] copied to the start of the clone's stack; sp = sp-fp; frame pair (0, le-fp)")
				} else {
					e.s.Bad("O8", k, pos, fmt.Sprintf("the clone must receive stack[frame start : sp] (locals, return address and operands), sp-fp as its sp and the frame pair (0, le-fp): copies=%v sp=%s fp=%s", ce.copies, ce.res["sp"], ce.res["fp"]))
				}
			} else {
				k = tag + " / empty clone at top level"
				if ce.res["sp"] == "0" && len(ce.copies) == 0 && (ce.res["fp"] == "slice[]" || strings.HasSuffix(ce.res["fp"], ",nil,0,nil)") || strings.HasPrefix(ce.res["fp"], "makeslice(0,")) {
					e.s.OK("O8", k, pos, "sp = 0, no frame")
				} else {
					e.s.Bad("O8", k, pos, fmt.Sprintf("without a call frame the clone starts empty: sp=%s fp=%s copies=%v", ce.res["sp"], ce.res["fp"], ce.copies))
				}
			}
		}
	}
}
