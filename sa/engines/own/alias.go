package own

import (
	"calcsa/load"

	"golang.org/x/tools/go/ssa"
)

type ssa_Instruction = ssa.Instruction
type ssa_Function = ssa.Function

const modMemory = load.ModPath + "/memory"
