package own

import (
	"fmt"
	"go/types"

	"calcsa/absint"

	"golang.org/x/tools/go/ssa"
)

// dumpWalk (V14): memory.DumpStack lists the active calls innermost first; for
// each frame it reads the return address at the frame's locals end (the slot
// CALL pushed it to), looks the call up by that address, and shows the
// arguments from the frame start.
func (e *eng) dumpWalk() {
	fn := e.p.Method("memory", "Type", "DumpStack")
	if fn == nil {
		e.s.Unk("ANCHOR", "memory.Type.DumpStack", "-", "method not found")
		return
	}
	pos := e.p.Pos(fn.Pos())
	intT := types.Typ[types.Int]
	type frame struct{ ipSlot, dbgKey, args string }
	var best []frame
	var bestEnd string
	o := &absint.Oracle{}
	for n := 0; n < 300; n++ {
		in := absint.NewInterp(e.p.SSA, o)
		z := absint.Zero(e.T).(*absint.Struct)
		f := append([]absint.Val(nil), z.F...)
		fps := []absint.Val{absint.NewVar("S0", intT), absint.NewVar("E0", intT), absint.NewVar("S1", intT), absint.NewVar("E1", intT)}
		f[e.fld["fp"]] = absint.NewSliceIn(in, intT, fps)
		f[e.fld["stack"]] = absint.NewVar("ST", e.st.Field(e.fld["stack"]).Type())
		f[e.fld["sp"]] = absint.NewVar("SP", intT)
		cell := in.NewCell(&absint.Struct{T: e.T, F: f}, "mem")
		var frames []frame
		cur := frame{}
		allOK := true
		in.Hooks.Call = func(in *absint.Interp, callee *ssa.Function, a []absint.Val, site ssa.Instruction) (absint.Val, bool) {
			pkg := ""
			if callee.Pkg != nil {
				pkg = callee.Pkg.Pkg.Path()
			}
			switch {
			case callee.Name() == "ToInt":
				cur = frame{ipSlot: absint.Key(a[0])}
				okv := in.Oracle.Choose(2, "return address is an int") == 0
				if !okv {
					allOK = false
				}
				return &absint.Tuple{E: []absint.Val{absint.NewVar(fmt.Sprintf("IP%d", len(frames)), intT), absint.MkBool(okv)}}, true
			case callee.Name() == "Abbrev":
				return absint.NewVar("abbrev", types.Typ[types.String]), true
			case pkg == "fmt":
				if callee.Signature.Results().Len() == 1 {
					return absint.NewVar("s", callee.Signature.Results().At(0).Type()), true
				}
				return &absint.Tuple{E: []absint.Val{absint.NewVar("n", intT), absint.Const{T: types.Universe.Lookup("error").Type()}}}, true
			}
			return nil, false
		}
		in.Hooks.Lookup = func(in *absint.Interp, m, k absint.Val, commaOk bool, site ssa.Instruction) (absint.Val, bool) {
			cur.dbgKey = absint.Key(k)
			mt, ok := site.(*ssa.Lookup).X.Type().Underlying().(*types.Map)
			if !ok {
				return nil, false
			}
			et := mt.Elem()
			est, _ := et.Underlying().(*types.Struct)
			var info absint.Val = absint.NewVar("info", et)
			if est != nil {
				z := absint.Zero(et).(*absint.Struct)
				ff := append([]absint.Val(nil), z.F...)
				for i := 0; i < est.NumFields(); i++ {
					ff[i] = absint.NewVar(fmt.Sprintf("info%d.%s", len(frames), est.Field(i).Name()), est.Field(i).Type())
					if est.Field(i).Name() == "ArgCnt" {
						ff[i] = absint.NewVarRange(fmt.Sprintf("ARGC%d", len(frames)), est.Field(i).Type(), absint.I64(0), nil)
					}
				}
				info = &absint.Struct{T: et, F: ff}
			}
			okv := in.Oracle.Choose(2, "debug info found") == 0
			if !okv {
				allOK = false
			}
			if commaOk {
				return &absint.Tuple{E: []absint.Val{info, absint.MkBool(okv)}}, true
			}
			return info, true
		}
		in.Hooks.Slice = func(in *absint.Interp, x absint.Val, lo, hi, max absint.Val, site ssa.Instruction) (absint.Val, bool) {
			if absint.Key(x) == "ST" {
				// the arguments are the last thing read of a frame: the frame is
				// complete, however it is printed
				cur.args = "stack[" + absint.Key(lo) + " : " + absint.Key(hi) + "]"
				frames = append(frames, cur)
				return absint.NewSliceIn(in, nil, nil), true
			}
			return nil, false
		}
		_, end := in.Run(fn, []absint.Val{&absint.Ptr{Cell: cell}, absint.NewVar("DBG", fn.Params[1].Type())})
		if allOK {
			best = frames
			bestEnd = "return"
			if end != nil {
				bestEnd = end.Error()
			}
		}
		if !o.Next() {
			break
		}
	}
	key := "memory.DumpStack / walks the frames innermost first, return address at the locals end, arguments from the frame start"
	want := []frame{
		{"deref(elemaddr(ST,E1))", "IP0", "stack[S1 : (ARGC0+S1)]"},
		{"deref(elemaddr(ST,E0))", "IP1", "stack[S0 : (ARGC1+S0)]"},
	}
	got := fmt.Sprint(best)
	if bestEnd == "return" && got == fmt.Sprint(want) {
		e.s.OK("V14", key, pos, got)
	} else {
		e.s.Bad("V14", key, pos, fmt.Sprintf("with two frames (S0,E0) (S1,E1) the dump must show the frame (S1,E1) first: return address read from stack[E1], call looked up by that address, arguments stack[S1 : S1+argcnt]; then the same for (S0,E0). Found %s (%s)", got, bestEnd))
	}
}
