// Package own checks the ownership / growth / layout rules of the memory
// model: every method of memory.Type is interpreted over a symbolic memory
// (sp, fp, closure, stack unknown) and its effect on the fields, its element
// stores and its result are compared with the frame layout the other methods
// and the VM rely on.
package own

import (
	"fmt"
	"go/types"
	"os"
	"sort"
	"strings"

	"calcsa/absint"
	"calcsa/load"
	"calcsa/oblig"

	"golang.org/x/tools/go/ssa"
)

type store struct{ base, index, val string }

type effect struct {
	conds  []string
	fields map[string]string
	stores []store
	copies []string // "copy(dst, src)"
	ret    string
	end    string
	calls  []string
}

type eng struct {
	p    *load.Program
	s    *oblig.Set
	T    types.Type
	st   *types.Struct
	fld  map[string]int
	eff  map[string][]effect
	posM map[string]string
}

var fieldSym = map[string]string{"sp": "SP", "fp": "FP", "global": "GL", "closure": "CL", "stack": "ST"}

func Run(p *load.Program, tier string) *oblig.Set {
	s := oblig.NewSet()
	e := &eng{p: p, s: s, fld: map[string]int{}, eff: map[string][]effect{}, posM: map[string]string{}}
	sp := p.SPkg("memory")
	if sp == nil {
		s.Unk("ANCHOR", "package memory", "-", "not found")
		return s
	}
	obj := sp.Pkg.Scope().Lookup("Type")
	if obj == nil {
		s.Unk("ANCHOR", "memory.Type", "-", "not found")
		return s
	}
	e.T = obj.Type()
	e.st = e.T.Underlying().(*types.Struct)
	// the fields by what they hold, whatever they are called: the stack
	// pointer (int), the frame pointer pairs ([]int), the globals (a map), the
	// closure stack (a slice of slices), the value stack (a slice of values)
	for i := 0; i < e.st.NumFields(); i++ {
		role := e.st.Field(i).Name()
		switch u := e.st.Field(i).Type().Underlying().(type) {
		case *types.Basic:
			if u.Kind() == types.Int {
				role = "sp"
			}
		case *types.Map:
			role = "global"
		case *types.Slice:
			switch eu := u.Elem().Underlying().(type) {
			case *types.Basic:
				if eu.Kind() == types.Int {
					role = "fp"
				}
			case *types.Slice:
				role = "closure"
			case *types.Struct:
				role = "stack"
			}
		}
		if _, dup := e.fld[role]; dup {
			role = e.st.Field(i).Name() // a second field of the same kind: a new field, reported below
		}
		e.fld[role] = i
	}
	for n := range fieldSym {
		if _, ok := e.fld[n]; !ok {
			s.Unk("ANCHOR", "memory.Type."+n, "-", "field not found")
			return s
		}
	}
	if len(e.fld) != len(fieldSym) {
		s.Unk("ANCHOR", "memory.Type fields", "-", fmt.Sprintf("the memory struct has %d fields, the rules know %d: a new field needs a rule", len(e.fld), len(fieldSym)))
	}
	methods := []string{"Push", "Pop", "PushFrame", "PopFrame", "Set", "LookUpLocal", "LookUpClosure", "PushClosure", "PopClosure", "Top", "IP", "ResetSP", "Reset", "growStack", "CallDepth", "SetGlobal"}
	for _, m := range methods {
		fn := p.Method("memory", "Type", m)
		if fn == nil && m == "growStack" {
			// the growth helper by what it is, when it carries another name: the
			// unexported method that takes one int and returns nothing
			if named, ok := e.T.(*types.Named); ok {
				ms := types.NewMethodSet(types.NewPointer(named))
				for i := 0; i < ms.Len(); i++ {
					f2 := p.SSA.MethodValue(ms.At(i))
					if f2 == nil || f2.Blocks == nil || f2.Object() == nil || f2.Object().Exported() {
						continue
					}
					sig := f2.Signature
					if sig.Params().Len() == 1 && sig.Results().Len() == 0 {
						if b, ok := sig.Params().At(0).Type().Underlying().(*types.Basic); ok && b.Kind() == types.Int {
							fn = f2
						}
					}
				}
			}
		}
		if fn == nil {
			s.Unk("ANCHOR", "memory.Type."+m, "-", "method not found")
			continue
		}
		e.posM[m] = p.Pos(fn.Pos())
		e.eff[m] = e.effects(fn, nil)
	}
	if os.Getenv("CALCSA_DUMP_OWN") != "" {
		e.dump()
	}
	e.rules()
	e.clone()
	e.dumpWalk()
	return s
}

func (e *eng) mkMem(in *absint.Interp, tag string) (*absint.Cell, absint.Val) {
	z := absint.Zero(e.T).(*absint.Struct)
	f := append([]absint.Val(nil), z.F...)
	for n, sym := range fieldSym {
		i := e.fld[n]
		nm := sym
		if tag != "" {
			nm = tag + sym
		}
		if n == "sp" {
			f[i] = absint.NewVarRange(nm, types.Typ[types.Int], absint.I64(0), nil)
		} else {
			f[i] = absint.NewVar(nm, e.st.Field(i).Type())
		}
	}
	c := in.NewCell(&absint.Struct{T: e.T, F: f}, "mem"+tag)
	c.Name = "mem" + tag
	return c, &absint.Ptr{Cell: c}
}

func paramName(fn *ssa.Function, i int) string {
	return strings.ToUpper(fn.Params[i].Name())
}

// effects enumerates the paths of a method on a symbolic memory.
func (e *eng) effects(fn *ssa.Function, extra func(in *absint.Interp, args []absint.Val) []absint.Val) []effect {
	var out []effect
	o := &absint.Oracle{}
	for n := 0; n < 500; n++ {
		in := absint.NewInterp(e.p.SSA, o)
		in.MaxStep = 20000
		cell, recv := e.mkMem(in, "")
		ef := effect{fields: map[string]string{}}
		args := []absint.Val{recv}
		for i := 1; i < len(fn.Params); i++ {
			t := fn.Params[i].Type()
			nm := paramName(fn, i)
			if b, ok := t.Underlying().(*types.Basic); ok && b.Info()&types.IsInteger != 0 {
				args = append(args, absint.NewVarRange(nm, t, absint.I64(0), nil))
			} else {
				args = append(args, absint.NewVar(nm, t))
			}
		}
		if extra != nil {
			args = extra(in, args)
		}
		loops := map[string]int{}
		in.Hooks.Store = func(in *absint.Interp, pv absint.Val, v absint.Val, site ssa.Instruction) bool {
			if s, ok := pv.(*absint.Sym); ok && s.Op == "elemaddr" {
				ef.stores = append(ef.stores, store{absint.Key(s.Args[0]), absint.Key(s.Args[1]), absint.Key(v)})
				return true
			}
			return false
		}
		in.Hooks.Builtin = func(in *absint.Interp, name string, a []absint.Val, site ssa.Instruction) (absint.Val, bool) {
			if name == "copy" {
				ef.copies = append(ef.copies, "copy("+absint.Key(a[0])+", "+absint.Key(a[1])+")")
				return absint.NewVar("copied", types.Typ[types.Int]), true
			}
			return nil, false
		}
		in.Hooks.Branch = func(in *absint.Interp, cond absint.Val, site ssa.Instruction) (bool, bool) {
			// loops with symbolic bounds: at most two iterations
			if site != nil && site.Block() != nil && strings.HasPrefix(site.Block().Comment, "for.") {
				k := fmt.Sprint(site.Pos(), site.Block().Index)
				loops[k]++
				if loops[k] > 2 {
					return false, true
				}
			}
			return false, false
		}
		in.Hooks.Call = func(in *absint.Interp, callee *ssa.Function, a []absint.Val, site ssa.Instruction) (absint.Val, bool) {
			if callee.Pkg == nil || callee.Pkg.Pkg.Path() != load.ModPath+"/memory" {
				name := callee.String()
				if i := strings.Index(name, "["); i > 0 {
					name = name[:i]
				}
				ef.calls = append(ef.calls, name)
				var t types.Type
				if callee.Signature.Results().Len() == 1 {
					t = callee.Signature.Results().At(0).Type()
				}
				if callee.Signature.Results().Len() == 0 {
					return nil, true
				}
				return &absint.Sym{Op: name, Args: a, T: t}, true
			}
			return nil, false
		}
		in.Hooks.MapUpdate = func(in *absint.Interp, m, k, v absint.Val, site ssa.Instruction) bool {
			ef.stores = append(ef.stores, store{absint.Key(m), absint.Key(k), absint.Key(v)})
			return true
		}
		res, end := in.Run(fn, args)
		for _, c := range in.CondV {
			k := absint.Key(c.V)
			if !c.B {
				k = "!" + k
			}
			ef.conds = append(ef.conds, absint.CanonCmp(k))
		}
		st := cell.V.(*absint.Struct)
		for n := range fieldSym {
			ef.fields[n] = absint.Key(st.F[e.fld[n]])
		}
		if end != nil {
			ef.end = end.Error()
		} else {
			ef.end = "return"
			if res != nil {
				ef.ret = absint.Key(res)
			}
		}
		out = append(out, ef)
		if !o.Next() {
			break
		}
	}
	return out
}

func (e *eng) dump() {
	var ms []string
	for m := range e.eff {
		ms = append(ms, m)
	}
	sort.Strings(ms)
	for _, m := range ms {
		for i, ef := range e.eff[m] {
			fmt.Printf("== %s path %d: %s\n", m, i, strings.Join(ef.conds, " & "))
			for _, n := range []string{"sp", "fp", "closure", "stack", "global"} {
				if ef.fields[n] != fieldSym[n] {
					fmt.Printf("     %s = %s\n", n, ef.fields[n])
				}
			}
			for _, s := range ef.stores {
				fmt.Printf("     store %s[%s] = %s\n", s.base, s.index, s.val)
			}
			for _, c := range ef.copies {
				fmt.Printf("     %s\n", c)
			}
			fmt.Printf("     %s %s\n", ef.end, ef.ret)
		}
	}
}
