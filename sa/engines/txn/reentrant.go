package txn

import (
	"fmt"
	"go/ast"
	"go/parser"
	"go/token"
	"go/types"
	"sort"
	"strings"

	"calcsa/load"
	"calcsa/oblig"

	"golang.org/x/tools/go/ssa"
	"golang.org/x/tools/go/ssa/ssautil"
)

// reentrantRule (X11): a parser keeps nothing between runs. The grammar is
// recursive (an expression in parentheses re-enters every level of the chain
// while the outer run of the same level is still collecting its operands) and
// Parse is called once per statement, so the closure a combinator constructor
// returns is run again before an earlier run of the *same closure* has
// finished, and again after it. What a run builds must live in the run: a
// closure of package combinator or parser may read what its constructor
// captured but may neither assign a captured variable nor write into captured
// storage (store through it, append onto it, copy into it, clear it). A
// result buffer kept with the parser (seed C07-P) makes the nested run
// overwrite the operands the outer run has collected: the tree no longer is
// what the ordered-choice recogniser builds, and it depends on what was parsed
// before.
func reentrantRule(p *load.Program, s *oblig.Set) {
	// positive control: the detector finds the three writes of a small program
	if n := len(capturedWrites(controlFns(), func(*ssa.Function) bool { return true })); n != 3 {
		s.Unk("X11", "detector self-test", "-", fmt.Sprintf("the captured-write detector finds %d sites in its control program, expected 3", n))
		return
	}
	var fns []*ssa.Function
	for fn := range ssautil.AllFunctions(p.SSA) {
		if fn.Pkg == nil || fn.Blocks == nil || fn.Parent() == nil {
			continue
		}
		pp := fn.Pkg.Pkg.Path()
		if pp == load.ModPath+"/combinator" || pp == load.ModPath+"/parser" {
			fns = append(fns, fn)
		}
	}
	sort.Slice(fns, func(i, j int) bool { return fns[i].String() < fns[j].String() })
	if len(fns) < 5 {
		s.Unk("X11", "closures scanned", "-", fmt.Sprintf("only %d closures of packages combinator and parser found", len(fns)))
		return
	}
	sites := capturedWrites(fns, func(*ssa.Function) bool { return true })
	if len(sites) == 0 {
		s.OK("X11", "combinator / parser closures keep no state between runs", "-", fmt.Sprintf("%d closures of packages combinator and parser: none assigns a captured variable or writes into captured storage", len(fns)))
		return
	}
	for i, w := range sites {
		s.Bad("X11", fmt.Sprintf("%s / write to captured state #%d", p.FuncKey(w.fn), i+1), p.Pos(w.pos),
			"the closure "+w.what+": the state is shared by every run of this parser, also by the run that is re-entered through the recursive grammar while this one is still collecting its result, and by the parse of the next statement; what a run returns then depends on other runs")
	}
}

type capWrite struct {
	fn   *ssa.Function
	pos  token.Pos
	what string
}

// capturedWrites finds, in closures, stores to captured variables and writes
// into storage reached from a captured variable.
func capturedWrites(fns []*ssa.Function, want func(*ssa.Function) bool) []capWrite {
	var out []capWrite
	for _, fn := range fns {
		if !want(fn) || fn.Parent() == nil {
			continue
		}
		// values derived from a free variable: the variable itself (a pointer to
		// the captured cell), what is loaded from it, slices / elements of that
		derived := map[ssa.Value]string{}
		for i, fv := range fn.FreeVars {
			if sharedFreeVar(fn, i) {
				derived[fv] = fv.Name()
			}
		}
		// a local of the run that holds a value reached from captured storage
		// (r := buf[:0] where r lives in a cell because a deferred function uses it)
		tainted := map[ssa.Value]string{}
		changed := true
		for changed {
			changed = false
			for _, b := range fn.Blocks {
				for _, ins := range b.Instrs {
					if st, ok := ins.(*ssa.Store); ok {
						if n, ok := derived[st.Val]; ok {
							if _, isLocal := st.Addr.(*ssa.Alloc); isLocal {
								if _, done := tainted[st.Addr]; !done {
									tainted[st.Addr] = n
									changed = true
								}
							}
						}
						continue
					}
					v, ok := ins.(ssa.Value)
					if !ok {
						continue
					}
					if ld, ok := ins.(*ssa.UnOp); ok && ld.Op == token.MUL {
						if n, ok := tainted[ld.X]; ok {
							if _, done := derived[v]; !done {
								derived[v] = n
								changed = true
							}
							continue
						}
					}
					if _, done := derived[v]; done {
						continue
					}
					var src ssa.Value
					switch x := ins.(type) {
					case *ssa.UnOp:
						if x.Op == token.MUL {
							// loading a pointer / slice / map out of captured storage
							switch x.Type().Underlying().(type) {
							case *types.Slice, *types.Pointer, *types.Map:
								src = x.X
							}
						}
					case *ssa.Slice:
						src = x.X
					case *ssa.FieldAddr:
						src = x.X
					case *ssa.IndexAddr:
						src = x.X
					case *ssa.Phi:
						for _, e := range x.Edges {
							if _, ok := derived[e]; ok {
								src = e
							}
						}
					case *ssa.ChangeType:
						src = x.X
					}
					if src != nil {
						if n, ok := derived[src]; ok {
							derived[v] = n
							changed = true
						}
					}
				}
			}
		}
		for _, b := range fn.Blocks {
			for _, ins := range b.Instrs {
				switch x := ins.(type) {
				case *ssa.Store:
					if n, ok := derived[x.Addr]; ok {
						if _, isFV := x.Addr.(*ssa.FreeVar); isFV {
							out = append(out, capWrite{fn, x.Pos(), "assigns the captured variable " + n})
						} else {
							out = append(out, capWrite{fn, x.Pos(), "stores into storage reached from the captured variable " + n})
						}
					}
				case *ssa.MapUpdate:
					if n, ok := derived[x.Map]; ok {
						out = append(out, capWrite{fn, x.Pos(), "updates the captured map " + n})
					}
				case *ssa.Call:
					if bi, ok := x.Call.Value.(*ssa.Builtin); ok && len(x.Call.Args) > 0 {
						switch bi.Name() {
						case "append", "copy", "clear":
							if n, ok := derived[x.Call.Args[0]]; ok {
								// append onto a captured slice value writes into its
								// backing array when there is room
								if _, isSlice := x.Call.Args[0].Type().Underlying().(*types.Slice); isSlice || bi.Name() == "clear" {
									out = append(out, capWrite{fn, x.Pos(), bi.Name() + "s onto storage reached from the captured variable " + n})
								}
							}
						}
					}
				}
			}
		}
	}
	return out
}

// sharedFreeVar: is free variable i of closure fn bound to state that outlives
// one run of the parser? A variable of the constructor (the top-level function
// that builds and returns the parser) is; a local of the run itself -- of an
// enclosing closure, or of a top-level function that is handed the input -- is
// not (a deferred function assigning the run's result, say).
func sharedFreeVar(fn *ssa.Function, i int) bool {
	par := fn.Parent()
	if par == nil {
		return false
	}
	for _, b := range par.Blocks {
		for _, ins := range b.Instrs {
			mc, ok := ins.(*ssa.MakeClosure)
			if !ok || mc.Fn != ssa.Value(fn) || i >= len(mc.Bindings) {
				continue
			}
			switch bv := mc.Bindings[i].(type) {
			case *ssa.FreeVar:
				for j, pfv := range par.FreeVars {
					if pfv == bv {
						return sharedFreeVar(par, j)
					}
				}
				return true
			default:
				if par.Parent() != nil {
					return false // a local of the enclosing closure: of one run
				}
				return !takesInput(par)
			}
		}
	}
	return true
}

// takesInput: a top-level function that is itself a parser run (it is handed
// the lexer), as the grammar functions of package parser are.
func takesInput(fn *ssa.Function) bool {
	for _, p := range fn.Params {
		if it, ok := p.Type().Underlying().(*types.Interface); ok {
			for i := 0; i < it.NumMethods(); i++ {
				if it.Method(i).Name() == "Rollback" || it.Method(i).Name() == "Next" {
					return true
				}
			}
		}
	}
	return false
}

func controlFns() []*ssa.Function {
	const src = `package p
func mk(xs []int) func(int) []int {
	buf := make([]int, 0)
	n := 0
	return func(v int) []int {
		r := buf[:0]
		r = append(r, v)   // write 1: append onto captured storage
		n++                // write 2: assigns a captured variable
		defer func() { buf = r }() // write 3: assigns a captured variable (nested closure)
		_ = xs[0]          // reading captured storage is fine
		own := make([]int, 0)
		own = append(own, v) // the run's own storage
		return own
	}
}
`
	fset := token.NewFileSet()
	f, err := parser.ParseFile(fset, "control.go", src, 0)
	if err != nil {
		return nil
	}
	pkg := types.NewPackage("p", "p")
	sp, _, err := ssautil.BuildPackage(&types.Config{}, fset, pkg, []*ast.File{f}, 0)
	if err != nil {
		return nil
	}
	var out []*ssa.Function
	for fn := range ssautil.AllFunctions(sp.Prog) {
		if fn.Blocks != nil && strings.HasPrefix(fn.String(), "p.") {
			out = append(out, fn)
		}
	}
	sort.Slice(out, func(i, j int) bool { return out[i].String() < out[j].String() })
	return out
}
