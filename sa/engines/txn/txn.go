// Package txn checks the Snapshot / Rollback / Commit discipline of the
// parser combinators and of the transactional lexer. Every combinator closure
// is interpreted abstractly against an abstract input whose position is a
// symbolic token; sub-parsers are unknown functions that fork into success
// and failure and consume an unknown amount of input either way.
package txn

import (
	"fmt"
	"go/types"
	"os"
	"regexp"
	"sort"
	"strings"

	"calcsa/absint"
	"calcsa/engines/lexfsm"
	"calcsa/load"
	"calcsa/oblig"

	"golang.org/x/tools/go/ssa"
)

type event struct {
	kind string // "S","R","C","P","N"
	name string // parser name for P
	ok   bool   // P: succeeded
	res  string // P: result symbol
	pos0 string // position before
	pos1 string // position after
}

type pathInfo struct {
	events   []event
	depth    int
	minDepth int
	stack    []string // positions of open snapshots
	pos      string
	retErr   string // "nil", "err of <P>", ...
	retRes   string
	end      string
	bounded  bool
	under    bool // rollback / commit without snapshot
}

type inputObj struct{ name string }

func (i *inputObj) ObjString() string { return i.name }

var maxCalls = 7

// noResultLaw: combinators whose result is not made of sub-parser results
// (a wrapped token, a transformed list, nothing).
var noResultLaw = map[string]bool{"Accept": true, "Fmap": true, "Ok": true}

// dropsAll: combinators documented to return no nodes at all.
var dropsAll = map[string]bool{"Drop": true, "Assert": true, "Not": true}

// dropsParam: parameters (by position) whose nodes the combinator documents as
// thrown away: the separator of SeparatedBy, the delimiters of SurroundedBy.
var dropsParam = map[string][]int{"SeparatedBy": {1}, "SurroundedBy": {0, 2}}

func dropped(fn *ssa.Function, comb, evName string) bool {
	for _, i := range dropsParam[comb] {
		if i >= len(fn.Params) {
			continue
		}
		pn := fn.Params[i].Name()
		if evName == pn || strings.HasPrefix(evName, pn+".") {
			return true
		}
	}
	return false
}

// flatResult reads the symbolic result of a path as a concatenation of whole
// sub-results; opaque names the first part that is something else.
func flatResult(k string) (atoms []string, opaque string) {
	k = strings.TrimSpace(k)
	switch {
	case k == "nil" || k == "slice[]" || k == "":
		return nil, ""
	case strings.HasPrefix(k, "res:") && !strings.ContainsAny(k, "(),"):
		return []string{k}, ""
	case strings.HasPrefix(k, "append(") && strings.HasSuffix(k, ")"):
		inner := k[len("append(") : len(k)-1]
		depth, cut := 0, -1
		for i, ch := range inner {
			switch ch {
			case '(', '[':
				depth++
			case ')', ']':
				depth--
			case ',':
				if depth == 0 && cut < 0 {
					cut = i
				}
			}
		}
		if cut < 0 {
			return nil, k
		}
		a, oa := flatResult(inner[:cut])
		b, ob := flatResult(inner[cut+1:])
		if oa != "" {
			return nil, oa
		}
		if ob != "" {
			return nil, ob
		}
		return append(a, b...), ""
	}
	return nil, k
}

// combinators whose documented contract is "consumes nothing"
var lookAhead = map[string]bool{"Assert": true, "Not": true}

func Run(p *load.Program, tier string) *oblig.Set {
	s := oblig.NewSet()
	maxCalls = 7
	if tier == "thorough" {
		maxCalls = 10
	}
	reentrantRule(p, s)
	sp := p.SPkg("combinator")
	if sp == nil {
		s.Unk("ANCHOR", "package combinator", "-", "not found")
		return s
	}
	parserObj := sp.Pkg.Scope().Lookup("Parser")
	if parserObj == nil {
		s.Unk("ANCHOR", "combinator.Parser", "-", "type not found")
		return s
	}
	parserT := parserObj.Type()
	var names []string
	for n, m := range sp.Members {
		fn, ok := m.(*ssa.Function)
		if !ok || fn.Signature.Recv() != nil || fn.Signature.Results().Len() != 1 {
			continue
		}
		if types.Identical(fn.Signature.Results().At(0).Type(), parserT) && fn.Object() != nil && fn.Object().Exported() {
			names = append(names, n)
		}
	}
	sort.Strings(names)
	if len(names) < 12 {
		s.Unk("ANCHOR", "combinator constructors", "-", fmt.Sprintf("only %d functions returning Parser found", len(names)))
		return s
	}
	total := 0
	for _, n := range names {
		total += checkCombinator(p, s, sp.Func(n), parserT)
	}
	s.Count("combinator_paths", total)
	s.Note("combinators analysed: %s; each closure interpreted against an abstract input with up to %d sub-parser calls per path, %d paths", strings.Join(names, ","), maxCalls, total)
	tlexer(p, s)
	return s
}

// mkArgs builds symbolic constructor arguments; variadic parameters get n elements.
func mkArgs(in *absint.Interp, fn *ssa.Function, parserT types.Type, n int) ([]absint.Val, bool) {
	var args []absint.Val
	for i, prm := range fn.Params {
		t := prm.Type()
		name := prm.Name()
		var mk func(t types.Type, name string) absint.Val
		mk = func(t types.Type, name string) absint.Val {
			switch {
			case types.Identical(t, parserT):
				return absint.NewVar(name, t)
			default:
				switch u := t.Underlying().(type) {
				case *types.Struct:
					z := absint.Zero(t).(*absint.Struct)
					f := append([]absint.Val(nil), z.F...)
					for j := 0; j < u.NumFields(); j++ {
						f[j] = mk(u.Field(j).Type(), name+"."+u.Field(j).Name())
					}
					return &absint.Struct{T: t, F: f}
				case *types.Signature:
					return absint.NewVar(name, t)
				case *types.Interface:
					return absint.NewVar(name, t)
				case *types.Basic:
					return absint.NewVar(name, t)
				}
			}
			return absint.NewVar(name, t)
		}
		if fn.Signature.Variadic() && i == len(fn.Params)-1 {
			et := t.Underlying().(*types.Slice).Elem()
			var elems []absint.Val
			for k := 0; k < n; k++ {
				elems = append(elems, mk(et, fmt.Sprintf("%s%d", name, k)))
			}
			args = append(args, absint.NewSliceIn(in, et, elems))
			continue
		}
		args = append(args, mk(t, name))
	}
	return args, fn.Signature.Variadic()
}

func checkCombinator(p *load.Program, s *oblig.Set, fn *ssa.Function, parserT types.Type) int {
	name := fn.Name()
	pos := p.Pos(fn.Pos())
	errT := parserT.Underlying().(*types.Signature).Results().At(1).Type()
	nodesT := parserT.Underlying().(*types.Signature).Results().At(0).Type()
	variants := []int{1}
	if fn.Signature.Variadic() {
		variants = []int{1, 2, 3}
	}
	var all []*pathInfo
	spans := map[string]bool{}
	defer func() {
		if name != "Accept" {
			return
		}
		k := "combinator.Accept / error spans are token or lexer spans"
		okSpan := len(spans) > 0
		var list []string
		for sp := range spans {
			list = append(list, sp)
			if sp != "input.From() .. input.To()" && sp != "From() .. To()" {
				okSpan = false
			}
		}
		sort.Strings(list)
		if okSpan {
			s.OK("X7", k, pos, strings.Join(list, "; "))
		} else {
			s.Bad("X7", k, pos, "a parse error must carry the span of the offending token (tok.From(), tok.To()) or the lexer's current span (input.From(), input.To()) unchanged, so that it lies inside the input; found "+strings.Join(list, "; "))
		}
	}()
	for _, nvar := range variants {
		o := &absint.Oracle{}
		for iter := 0; iter < 20000; iter++ {
			in := absint.NewInterp(p.SSA, o)
			in.MaxStep = 100000
			pi := &pathInfo{pos: "p0"}
			ncall := 0
			succeeded := map[string]bool{}
			input := &inputObj{"INPUT"}
			consume := func(tag string) string { return pi.pos + "+" + tag }
			in.Hooks.CallValue = func(in *absint.Interp, fnv absint.Val, args []absint.Val, site ssa.Instruction) (absint.Val, bool) {
				sv, ok := fnv.(*absint.Sym)
				if !ok {
					return nil, false
				}
				ncall++
				if ncall > maxCalls {
					pi.bounded = true
					in.Undecided("bound", site)
				}
				tag := fmt.Sprintf("%s#%d", sv.Name, ncall)
				// a parser: (nodes, *Error); a predicate: bool
				if sig, ok := sv.T.Underlying().(*types.Signature); ok && sig.Results().Len() == 1 {
					return absint.NewVar("pred:"+tag, sig.Results().At(0).Type()), true
				}
				okc := in.Oracle.Choose(2, "parser "+tag) == 0
				ev := event{kind: "P", name: sv.Name, ok: okc, res: "res:" + tag, pos0: pi.pos}
				if okc {
					pi.pos = consume(tag)
				} else {
					pi.pos = consume(tag + "?")
				}
				ev.pos1 = pi.pos
				pi.events = append(pi.events, ev)
				succeeded["res:"+tag] = okc
				res := absint.Val(absint.NewVar("res:"+tag, nodesT))
				if okc {
					return &absint.Tuple{E: []absint.Val{res, absint.Const{T: errT}}}, true
				}
				ec := in.NewCell(absint.NewVar("errdata:"+tag, nil), "err:"+tag)
				ec.Name = "err:" + tag
				return &absint.Tuple{E: []absint.Val{res, &absint.Ptr{Cell: ec}}}, true
			}
			// a parser that succeeds returns a (possibly empty) non-nil list: every
			// combinator and transformer of the repository does (Ok, Assert, Drop and
			// Any build one explicitly); a nil list is what accompanies an error
			in.Hooks.Branch = func(in *absint.Interp, cond absint.Val, site ssa.Instruction) (bool, bool) {
				sy, ok := cond.(*absint.Sym)
				if !ok || (sy.Op != "!=" && sy.Op != "==") || len(sy.Args) != 2 {
					return false, false
				}
				for i, a := range sy.Args {
					v, isV := a.(*absint.Sym)
					if !isV || !strings.HasPrefix(v.Name, "res:") || !absint.IsNil(sy.Args[1-i]) {
						continue
					}
					if succeeded[v.Name] {
						return sy.Op == "!=", true
					}
				}
				return false, false
			}
			in.Hooks.Invoke = func(in *absint.Interp, recv absint.Val, m *types.Func, args []absint.Val, site ssa.Instruction) (absint.Val, bool) {
				if recv != absint.Val(input) {
					// token wrapper etc.
					sig := m.Type().(*types.Signature)
					if sig.Results().Len() == 1 {
						return absint.NewVar(m.Name()+"()", sig.Results().At(0).Type()), true
					}
					return nil, true
				}
				switch m.Name() {
				case "Snapshot":
					pi.events = append(pi.events, event{kind: "S", pos0: pi.pos, pos1: pi.pos})
					pi.stack = append(pi.stack, pi.pos)
					pi.depth++
					return nil, true
				case "Rollback", "Commit":
					k := "R"
					if m.Name() == "Commit" {
						k = "C"
					}
					if len(pi.stack) == 0 {
						pi.under = true
						pi.events = append(pi.events, event{kind: k, pos0: pi.pos, pos1: pi.pos})
						return nil, true
					}
					top := pi.stack[len(pi.stack)-1]
					pi.stack = pi.stack[:len(pi.stack)-1]
					ev := event{kind: k, pos0: pi.pos}
					if k == "R" {
						pi.pos = top
					}
					ev.pos1 = pi.pos
					pi.events = append(pi.events, ev)
					pi.depth--
					return nil, true
				case "Next":
					ncall++
					tag := fmt.Sprintf("next#%d", ncall)
					pi.events = append(pi.events, event{kind: "N", pos0: pi.pos, pos1: consume(tag)})
					pi.pos = consume(tag)
					return absint.NewVar("more:"+tag, types.Typ[types.Bool]), true
				}
				sig := m.Type().(*types.Signature)
				if sig.Results().Len() == 1 {
					return absint.NewVar("input."+m.Name()+"()", sig.Results().At(0).Type()), true
				}
				return nil, true
			}
			in.Hooks.Call = func(in *absint.Interp, callee *ssa.Function, args []absint.Val, site ssa.Instruction) (absint.Val, bool) {
				if callee.Pkg != nil && callee.Pkg.Pkg.Path() == "fmt" {
					return absint.NewVar("fmt."+callee.Name(), callee.Signature.Results().At(0).Type()), true
				}
				return nil, false
			}
			args, _ := mkArgs(in, fn, parserT, nvar)
			clo, end := in.Run(fn, args)
			if end != nil {
				if end.Kind == "panic" {
					// constructor refuses its arguments (e.g. empty list): not a path of the parser
					if !o.Next() {
						break
					}
					continue
				}
				pi.end = "constructor: " + end.Error()
				all = append(all, pi)
				if !o.Next() {
					break
				}
				continue
			}
			c, ok := clo.(*absint.Closure)
			if !ok {
				// a constructor that returns one of its arguments (Seq of one parser)
				pi.end = "returns " + absint.Key(clo)
				all = append(all, pi)
				if !o.Next() {
					break
				}
				continue
			}
			res, end := in.CallClosure(c, []absint.Val{absint.Val(input)})
			switch {
			case end != nil && pi.bounded:
				pi.end = "bound"
			case end != nil && end.Kind == "panic":
				pi.end = "panic: " + end.Msg
			case end != nil:
				pi.end = end.Error()
			default:
				pi.end = "return"
				if tu, ok := res.(*absint.Tuple); ok && len(tu.E) == 2 {
					if ep, ok := tu.E[1].(*absint.Ptr); ok && name == "Accept" {
						if es, ok := ep.Cell.V.(*absint.Struct); ok {
							est := es.T.Underlying().(*types.Struct)
							from, to := "", ""
							for i := 0; i < est.NumFields(); i++ {
								switch est.Field(i).Name() {
								case "from":
									from = absint.Key(es.F[i])
								case "to":
									to = absint.Key(es.F[i])
								}
							}
							spans[from+" .. "+to] = true
						}
					}
					pi.retRes = absint.Key(tu.E[0])
					if absint.IsNil(tu.E[1]) {
						pi.retErr = "nil"
					} else {
						pi.retErr = absint.Key(tu.E[1])
					}
				}
			}
			all = append(all, pi)
			if !o.Next() {
				break
			}
		}
	}

	key := func(what string) string { return "combinator." + name + " / " + what }
	trace := func(pi *pathInfo) []string {
		var out []string
		for _, e := range pi.events {
			switch e.kind {
			case "P":
				r := "fails"
				if e.ok {
					r = "succeeds"
				}
				out = append(out, fmt.Sprintf("sub-parser %s %s (position %s -> %s)", e.name, r, e.pos0, e.pos1))
			case "S":
				out = append(out, "Snapshot at "+e.pos0)
			case "R":
				out = append(out, "Rollback to "+e.pos1)
			case "C":
				out = append(out, "Commit")
			case "N":
				out = append(out, "input.Next()")
			}
		}
		out = append(out, fmt.Sprintf("%s: error=%s result=%s position=%s", pi.end, pi.retErr, pi.retRes, pi.pos))
		return out
	}
	if os.Getenv("CALCSA_DEBUG_TXN") != "" {
		seen := map[string]bool{}
		for _, pi := range all {
			if pi.end == "return" && pi.retErr == "nil" && !seen[pi.retRes] {
				seen[pi.retRes] = true
				fmt.Fprintf(os.Stderr, "TXN %s: %s\n", name, pi.retRes)
			}
		}
	}
	nRet := 0
	bad := map[string]bool{}
	report := func(rule, k, detail string, pi *pathInfo) {
		if bad[rule+k] {
			return
		}
		bad[rule+k] = true
		s.Bad(rule, k, pos, detail, trace(pi)...)
	}
	panics := false
	for _, pi := range all {
		switch {
		case strings.HasPrefix(pi.end, "panic"):
			panics = true
			continue
		case pi.end == "bound":
			// snapshots open at the bound are fine, but underflow is not
			if pi.under {
				report("X1", key("balance"), "Rollback/Commit without a matching Snapshot", pi)
			}
			continue
		case pi.end != "return":
			if strings.HasPrefix(pi.end, "returns ") {
				continue
			}
			s.Unk("X0", key("path"), pos, "path could not be evaluated: "+pi.end, trace(pi)...)
			continue
		}
		nRet++
		// X1 balance
		if pi.under || pi.depth != 0 {
			report("X1", key("balance"), fmt.Sprintf("a path returns with %d snapshot(s) still open (or pops one it did not take): the next Rollback of an enclosing combinator restores the wrong position", pi.depth), pi)
		}
		// X2: a swallowed failure must have been rolled back
		for i, e := range pi.events {
			if e.kind != "P" || e.ok {
				continue
			}
			// what happens next: another consuming event, or the return
			contPos := ""
			continued := false
			for _, f := range pi.events[i+1:] {
				if f.kind == "P" || f.kind == "N" {
					contPos = f.pos0
					continued = true
					break
				}
			}
			if !continued {
				if pi.retErr == "nil" {
					contPos = pi.pos
					continued = true
				} else if lookAhead[name] {
					contPos = pi.pos
					continued = true
				}
			}
			// going on at the position where the failed sub-parser started, or at an
			// earlier snapshot (SeparatedBy drops the separator too), is fine
			if continued && !strings.HasPrefix(e.pos0, contPos) {
				report("X2", key("failed alternative consumes nothing"), fmt.Sprintf("after sub-parser %s failed the combinator goes on (or succeeds) at position %s instead of %s where that sub-parser started: what the failed alternative consumed stays consumed", e.name, contPos, e.pos0), pi)
			}
		}
		// X4 look-ahead combinators consume nothing
		if lookAhead[name] && pi.pos != "p0" {
			report("X4", key("look-ahead consumes nothing"), "a look-ahead combinator returns with the input at "+pi.pos+" instead of where it started", pi)
		}
		// X9 an ordered choice that fails as a whole has tried every alternative
		// from the same position and gives the input back
		if name == "OneOf" && pi.end == "return" && pi.retErr != "nil" && pi.pos != "p0" {
			report("X9", key("a failed choice restores the input"), "every alternative of OneOf failed but the input stays at "+pi.pos+": what the last alternative consumed before it failed is lost to whoever reads on (each attempt, the last one included, is made under its own snapshot)", pi)
		}
		// X8 what a failed sub-parser built is not part of a successful result
		if pi.retErr == "nil" {
			for _, e := range pi.events {
				if e.kind == "P" && !e.ok && strings.Contains(pi.retRes, e.res+")") || e.kind == "P" && !e.ok && strings.HasSuffix(pi.retRes, e.res) || e.kind == "P" && !e.ok && strings.Contains(pi.retRes, e.res+",") {
					report("X8", key("a failed alternative contributes no nodes"), fmt.Sprintf("sub-parser %s failed and its input was given back, but the nodes it had built so far (sequences return their partial result with the error) are part of the successful result %s", e.name, pi.retRes), pi)
				}
			}
		}
		// X10 the nodes of a successful result are the nodes of the sub-parsers that
		// matched and stayed matched, whole and in order, less those the combinator
		// documents as dropped
		if pi.retErr == "nil" && !noResultLaw[name] {
			got, opaque := flatResult(pi.retRes)
			var want []string
			for _, e := range pi.events {
				if e.kind != "P" || !e.ok || !strings.HasPrefix(pi.pos, e.pos1) {
					continue
				}
				if dropsAll[name] || dropped(fn, name, e.name) {
					continue
				}
				want = append(want, e.res)
			}
			switch {
			case opaque != "":
				report("X10", key("the result is the matched sub-results, whole and in order"), "a successful result must be the concatenation of whole sub-parser results; it is "+pi.retRes+" (part of a sub-result is cut out or rearranged: "+opaque+"), which is only right for sub-parsers that return a particular number of nodes", pi)
			case strings.Join(got, " ") != strings.Join(want, " "):
				report("X10", key("the result is the matched sub-results, whole and in order"), fmt.Sprintf("the sub-parsers that matched and stayed matched built %v (in input order, without what the combinator documents as dropped), the combinator returns %v", want, got), pi)
			}
		}
		// X3 a successful sub-parser whose result is returned keeps its input consumed
		if pi.retErr == "nil" {
			for _, e := range pi.events {
				if e.kind == "P" && e.ok && strings.Contains(pi.retRes, e.res) && !strings.HasPrefix(pi.pos, e.pos1) {
					report("X3", key("success keeps the input consumed"), fmt.Sprintf("the result of sub-parser %s is returned but the input was rolled back to %s, before what it consumed (%s)", e.name, pi.pos, e.pos1), pi)
				}
			}
		}
	}
	for _, r := range []struct{ rule, k, ok string }{
		{"X1", "balance", "every Snapshot is matched by exactly one Rollback or Commit on every returning path"},
		{"X2", "failed alternative consumes nothing", "whenever a failed sub-parser is not propagated, the input is back where that sub-parser started"},
		{"X3", "success keeps the input consumed", "input consumed by a sub-parser whose result is returned is never rolled back"},
		{"X8", "a failed alternative contributes no nodes", "no successful result contains nodes built by a sub-parser that failed"},
		{"X10", "the result is the matched sub-results, whole and in order", "every successful result is the in-order concatenation of the whole results of the sub-parsers that matched and stayed matched, less the documented drops"},
	} {
		if !bad[r.rule+key(r.k)] && nRet > 0 {
			s.OK(r.rule, key(r.k), pos, fmt.Sprintf("%s (%d returning paths)", r.ok, nRet))
		}
	}
	if name == "OneOf" && !bad["X9"+key("a failed choice restores the input")] && nRet > 0 {
		s.OK("X9", key("a failed choice restores the input"), pos, "on every path where all alternatives fail the input is back at the start")
	}
	if lookAhead[name] && !bad["X4"+key("look-ahead consumes nothing")] && nRet > 0 {
		s.OK("X4", key("look-ahead consumes nothing"), pos, "returns with the input position it started at on every path")
	}
	if panics {
		s.Note("combinator.%s has an aborting path (checked by the grammar rules)", name)
	}
	return len(all)
}

// tlexer (X5, X6): the transaction primitives and accessors of the
// transactional lexer.
var liveField = regexp.MustCompile(`^\.(\w+)\(LEXER\)$`)
var cachedField = regexp.MustCompile(`\.(\w+)\((?:deref\()?elemaddr\(STACK,RP\)\)`)

func tlexer(p *load.Program, s *oblig.Set) {
	sp := p.SPkg("lexer")
	if sp == nil {
		return
	}
	obj := sp.Pkg.Scope().Lookup("TLexer")
	if obj == nil {
		s.Unk("ANCHOR", "lexer.TLexer", "-", "type not found")
		return
	}
	T := obj.Type()
	st := T.Underlying().(*types.Struct)
	fld := tlexerRoles(p, st)
	roleOfField := map[int]string{}
	for r, i := range fld {
		roleOfField[i] = r
	}
	for _, n := range []string{"stack", "pointers", "readp", "lexer"} {
		if _, ok := fld[n]; !ok {
			s.Unk("ANCHOR", "lexer.TLexer."+n, "-", "field not found")
			return
		}
	}
	// the write position is a field of its own or simply the length of the cache
	_, hasWP := fld["writep"]
	wpName := "WP"
	if !hasWP {
		wpName = "len(STACK)"
	}
	mk := func(in *absint.Interp) (*absint.Cell, absint.Val) {
		z := absint.Zero(T).(*absint.Struct)
		f := append([]absint.Val(nil), z.F...)
		f[fld["stack"]] = absint.NewVar("STACK", st.Field(fld["stack"]).Type())
		f[fld["pointers"]] = absint.NewVar("PTRS", st.Field(fld["pointers"]).Type())
		f[fld["readp"]] = absint.NewVar("RP", types.Typ[types.Int])
		if hasWP {
			f[fld["writep"]] = absint.NewVar("WP", types.Typ[types.Int])
		}
		f[fld["lexer"]] = absint.NewVar("LEXER", st.Field(fld["lexer"]).Type())
		for i := 0; i < st.NumFields(); i++ {
			if roleOfField[i] == "" {
				// any further state is unknown: a primitive that consults it is not a
				// function of the position, the cache and the live lexer any more
				f[i] = absint.NewVar("EXTRA."+st.Field(i).Name(), st.Field(i).Type())
			}
		}
		c := in.NewCell(&absint.Struct{T: T, F: f}, "tl")
		return c, &absint.Ptr{Cell: c}
	}
	get := func(c *absint.Cell, n string) string {
		if n == "writep" && !hasWP {
			// derived from the cache: unchanged cache = unchanged write position
			if absint.Key(c.V.(*absint.Struct).F[fld["stack"]]) == "STACK" {
				return "WP"
			}
			return "(WP+1)"
		}
		return absint.Key(c.V.(*absint.Struct).F[fld[n]])
	}
	run := func(name string) (*absint.Cell, absint.Val, *absint.PathEnd, bool) {
		fn := p.Method("lexer", "TLexer", name)
		if fn == nil {
			s.Unk("ANCHOR", "lexer.TLexer."+name, "-", "method not found")
			return nil, nil, nil, false
		}
		o := &absint.Oracle{}
		in := absint.NewInterp(p.SSA, o)
		c, recv := mk(in)
		res, end := in.Run(fn, []absint.Val{recv})
		if o.Next() {
			s.Unk("X5", "lexer.TLexer."+name, p.Pos(fn.Pos()), "the primitive branches on symbolic state")
			return nil, nil, nil, false
		}
		return c, res, end, true
	}
	pos := func(name string) string {
		if fn := p.Method("lexer", "TLexer", name); fn != nil {
			return p.Pos(fn.Pos())
		}
		return "-"
	}
	if c, _, end, ok := run("Snapshot"); ok {
		k := "lexer.TLexer.Snapshot / pushes the read position"
		if end == nil && get(c, "pointers") == "append(PTRS,slice[RP])" && get(c, "readp") == "RP" && get(c, "stack") == "STACK" {
			s.OK("X5", k, pos("Snapshot"), "pointers = append(pointers, readp); nothing else changes")
		} else {
			s.Bad("X5", k, pos("Snapshot"), fmt.Sprintf("Snapshot must push readp and change nothing else: pointers=%s readp=%s", get(c, "pointers"), get(c, "readp")))
		}
	}
	last := "index(PTRS,(len(PTRS)-1))"
	popped := "slice(PTRS,nil,(len(PTRS)-1),nil)"
	if c, _, end, ok := run("Rollback"); ok {
		k := "lexer.TLexer.Rollback / restores and pops the last snapshot"
		rp := get(c, "readp")
		if end == nil && (rp == last || rp == "deref(elemaddr(PTRS,(len(PTRS)-1)))") && get(c, "pointers") == popped && get(c, "stack") == "STACK" && get(c, "writep") == "WP" {
			s.OK("X5", k, pos("Rollback"), "readp = pointers[len-1]; pointers = pointers[:len-1]; the token cache is kept")
		} else {
			s.Bad("X5", k, pos("Rollback"), fmt.Sprintf("Rollback must set readp to the last snapshot and pop it, keeping the token cache: readp=%s pointers=%s stack=%s writep=%s", rp, get(c, "pointers"), get(c, "stack"), get(c, "writep")))
		}
	}
	if c, _, end, ok := run("Commit"); ok {
		k := "lexer.TLexer.Commit / pops the last snapshot only"
		if end == nil && get(c, "readp") == "RP" && get(c, "pointers") == popped && get(c, "stack") == "STACK" {
			s.OK("X5", k, pos("Commit"), "pointers = pointers[:len-1]; readp untouched")
		} else {
			s.Bad("X5", k, pos("Commit"), fmt.Sprintf("Commit must pop the snapshot without moving the read position: readp=%s pointers=%s", get(c, "readp"), get(c, "pointers")))
		}
	}
	// X6: accessors answer from the replay buffer entry at readp
	rst, _ := st.Field(fld["stack"]).Type().Underlying().(*types.Slice)
	if rst == nil {
		return
	}
	est, _ := rst.Elem().Underlying().(*types.Struct)
	if est == nil {
		return
	}
	// which field of a cached entry stands for what is read off the accessors:
	// Token() answers with the entry's token field, whatever it is called
	recRole := map[string]string{} // record field name -> token / err / from / to
	for _, acc := range []string{"Token", "Err", "From", "To"} {
		fname := strings.ToLower(acc)
		_, res, end, ok := run(acc)
		if !ok {
			continue
		}
		k := "lexer.TLexer." + acc + " / answers from the cached entry at the read position"
		got := absint.Key(res)
		m := cachedField.FindStringSubmatch(got)
		if end == nil && m != nil && recRole[m[1]] == "" && strings.Count(got, "elemaddr(") == 1 && !strings.ContainsAny(got, "+-*") && !strings.Contains(got, "LEXER") {
			recRole[m[1]] = fname
			s.OK("X6", k, pos(acc), "stack[readp]."+m[1])
		} else {
			s.Bad("X6", k, pos(acc), "after a rollback the lexer must answer from a field of its own of the cached entry stack[readp]; it answers "+got+": a replayed token would carry the state of the live lexer")
		}
	}
	// the fields of the live lexer by role (its token, error and span bounds)
	lexNames := map[string]string{}
	if lt := sp.Pkg.Scope().Lookup("Lexer"); lt != nil {
		if lst, ok := lt.Type().Underlying().(*types.Struct); ok {
			for role, i := range lexfsm.LexerRoles(p) {
				if i < lst.NumFields() {
					lexNames[lst.Field(i).Name()] = role
				}
			}
		}
	}
	lexFieldRole := func(name string) string {
		if r, ok := lexNames[name]; ok {
			return r
		}
		return name
	}
	// X6: Next caches exactly what the live lexer produced
	nextFn := p.Method("lexer", "TLexer", "Next")
	if nextFn == nil {
		s.Unk("ANCHOR", "lexer.TLexer.Next", "-", "method not found")
		return
	}
	o := &absint.Oracle{}
	seenReplay, seenPull := false, false
	for n := 0; n < 50; n++ {
		in := absint.NewInterp(p.SSA, o)
		c, recv := mk(in)
		var appended absint.Val
		in.Hooks.Call = func(in *absint.Interp, callee *ssa.Function, args []absint.Val, site ssa.Instruction) (absint.Val, bool) {
			if callee.Name() == "Next" && callee != nextFn {
				return absint.NewVar("lexer.Next()", types.Typ[types.Bool]), true
			}
			return nil, false
		}
		in.Hooks.Append = func(in *absint.Interp, sl absint.Val, elems absint.Val, site ssa.Instruction) (absint.Val, bool) {
			if absint.Key(sl) == "STACK" {
				if es, ok := elems.(*absint.Slice); ok && es.Len == 1 {
					appended = es.Elems()[0]
				}
			}
			return nil, false
		}
		res, end := in.Run(nextFn, []absint.Val{recv})
		k := "lexer.TLexer.Next"
		if end != nil {
			s.Unk("X6", k, p.Pos(nextFn.Pos()), "path not evaluated: "+end.Error())
		} else {
			b, isC := absint.ConstBool(res)
			rp, wp := get(c, "readp"), get(c, "writep")
			// Next is a function of the read position, the cache and the live lexer:
			// those are what Snapshot/Rollback/Commit restore or deliberately keep
			foreign := ""
			for _, cl := range in.CondLog {
				if !nativeCond(cl) {
					foreign = cl
				}
			}
			for i := 0; i < st.NumFields(); i++ {
				if roleOfField[i] == "" {
					if v := absint.Key(c.V.(*absint.Struct).F[i]); v != "EXTRA."+st.Field(i).Name() {
						foreign = "field " + st.Field(i).Name() + " := " + v
					}
				}
			}
			// what the path knows about the position, as linear facts
			facts := &absint.LinFacts{}
			for _, cv := range in.CondV {
				facts.AddCond(cv)
			}
			wLin, rpLin := absint.LinAtom(wpName), absint.LinAtom("RP")
			switch {
			case foreign != "":
				s.Bad("X6", k+" / state outside the transaction", p.Pos(nextFn.Pos()), "Next consults or changes state that Snapshot/Rollback do not restore ("+foreign+"): after a rollback the lexer would not replay the tokens it handed out before", in.CondLog...)
			case appended == nil && isC && b && rp == "(RP+1)" && wp == "WP":
				seenReplay = true
				cond := strings.Join(in.CondLog, "; ")
				// readp < writep-1, however it is spelt
				if facts.Proves(wLin.Sub(rpLin).Plus(-2)) {
					s.OK("X6", k+" / replay", p.Pos(nextFn.Pos()), "while readp < writep-1 the next cached token is replayed")
				} else {
					s.Bad("X6", k+" / replay", p.Pos(nextFn.Pos()), "replay happens under condition ["+cond+"], expected readp < writep-1")
				}
			case appended != nil && isC && b && !facts.Proves(rpLin.Sub(wLin).Plus(1)):
				s.Bad("X6", k+" / pull", p.Pos(nextFn.Pos()), "a new token is pulled from the live lexer although cached tokens may still lie ahead of the read position (the path does not establish readp >= writep-1): "+strings.Join(in.CondLog, "; "))
			case appended != nil && isC && b:
				seenPull = true
				es, _ := appended.(*absint.Struct)
				okf := es != nil && rp == "(RP+1)" && wp == "(WP+1)"
				if okf {
					// each cached field is the live lexer's field of the same
					// meaning, unedited (no arithmetic, no choice between values)
					seenF := map[string]bool{}
					for i := 0; i < est.NumFields(); i++ {
						fk := absint.Key(es.F[i])
						m := liveField.FindStringSubmatch(fk)
						role := recRole[est.Field(i).Name()]
						if m == nil || seenF[m[1]] || role == "" || !strings.EqualFold(lexFieldRole(m[1]), role) {
							okf = false
						}
						if m != nil {
							seenF[m[1]] = true
						}
					}
					for _, cl := range in.CondLog {
						if strings.Contains(cl, "LEXER") {
							okf = false // what is cached does not depend on what the token is
						}
					}
				}
				if okf {
					s.OK("X6", k+" / pull", p.Pos(nextFn.Pos()), "a new token is cached with the live lexer's token, error and span; readp and writep advance")
				} else {
					s.Bad("X6", k+" / pull", p.Pos(nextFn.Pos()), fmt.Sprintf("a pulled token must be cached as the live lexer delivered it (token, error, from, to taken from the lexer's fields of the same name, unedited, on every path) and both positions advanced: entry=%s readp=%s writep=%s", absint.Key(appended), rp, wp))
				}
			case isC && !b && rp == "RP" && wp == "WP":
				// end of input
			default:
				s.Bad("X6", k+" / path", p.Pos(nextFn.Pos()), fmt.Sprintf("unexpected path: result=%s readp=%s writep=%s", absint.Key(res), rp, wp), in.CondLog...)
			}
		}
		if !o.Next() {
			break
		}
	}
	if !seenReplay || !seenPull {
		s.Bad("X6", "lexer.TLexer.Next / paths", p.Pos(nextFn.Pos()), "Next must have a replay path and a pull path")
	}
}

// tlexerRoles finds the fields of TLexer by what they hold: the token cache (a
// slice of records), the snapshot stack (a slice of ints), the live lexer (a
// struct of the package), the read position and -- when there is one -- the
// write position (ints; NewTLexer starts the read position below zero).
func tlexerRoles(p *load.Program, st *types.Struct) map[string]int {
	fld := map[string]int{}
	var ints []int
	for i := 0; i < st.NumFields(); i++ {
		t := st.Field(i).Type()
		switch u := t.Underlying().(type) {
		case *types.Slice:
			if _, isStruct := u.Elem().Underlying().(*types.Struct); isStruct {
				if _, dup := fld["stack"]; !dup {
					fld["stack"] = i
				}
			} else if b, ok := u.Elem().Underlying().(*types.Basic); ok && b.Kind() == types.Int {
				if _, dup := fld["pointers"]; !dup {
					fld["pointers"] = i
				}
			}
		case *types.Struct:
			if n, ok := t.(*types.Named); ok && n.Obj().Pkg() != nil && strings.HasSuffix(n.Obj().Pkg().Path(), "/lexer") {
				if _, dup := fld["lexer"]; !dup {
					fld["lexer"] = i
				}
			}
		case *types.Basic:
			if u.Kind() == types.Int {
				ints = append(ints, i)
			}
		}
	}
	switch len(ints) {
	case 1:
		fld["readp"] = ints[0]
	case 2:
		// the constructor tells them apart: the read position starts at -1
		rd := -1
		if ctor := p.Func("lexer", "NewTLexer"); ctor != nil && len(ctor.Params) == 1 {
			in := absint.NewInterp(p.SSA, &absint.Oracle{})
			in.Hooks.Call = func(in *absint.Interp, fn *ssa.Function, args []absint.Val, site ssa.Instruction) (absint.Val, bool) {
				if fn.Pkg == nil || !strings.HasPrefix(fn.Pkg.Pkg.Path(), load.ModPath) {
					if fn.Signature.Results().Len() == 1 {
						return &absint.Sym{Op: fn.String(), Args: args, T: fn.Signature.Results().At(0).Type()}, true
					}
				}
				return nil, false
			}
			if res, end := in.Run(ctor, []absint.Val{absint.NewVar("IN", types.Typ[types.String])}); end == nil {
				if rs, ok := res.(*absint.Struct); ok {
					for _, i := range ints {
						if c, ok := absint.ConstInt(rs.F[i]); ok && c < 0 {
							rd = i
						}
					}
				}
			}
		}
		if rd < 0 {
			// fall back on the names
			for _, i := range ints {
				if st.Field(i).Name() == "readp" {
					rd = i
				}
			}
		}
		for _, i := range ints {
			if i == rd {
				fld["readp"] = i
			} else if rd >= 0 {
				fld["writep"] = i
			}
		}
	}
	return fld
}

// nativeCond: a decision of TLexer.Next that only asks about the read
// position, the cache, the live lexer and what it returned.
func nativeCond(cl string) bool {
	for _, tok := range []string{"lexer.Next()", "len(STACK)", "LEXER", "STACK", "RP", "WP", ":= true", ":= false", "nil"} {
		cl = strings.ReplaceAll(cl, tok, "")
	}
	for _, r := range cl {
		if (r >= 'a' && r <= 'z') || (r >= 'A' && r <= 'Z') {
			return false
		}
	}
	return true
}
