// Package enc checks the bit-level encodings (instruction words, function
// values): the encoder and decoder functions are interpreted symbolically,
// their results are read as compositions of bit fields (shift / mask pairs),
// and writer and reader are compared field by field.
package enc

import (
	"fmt"
	"go/types"
	"sort"
	"strings"

	"calcsa/absint"
	"calcsa/load"
	"calcsa/oblig"

	"golang.org/x/tools/go/ssa"
)

// field is `((src >> rshift) & mask) << lshift`.
type field struct {
	src    string
	mask   uint64
	lshift uint
	rshift uint
}

func (f field) String() string {
	return fmt.Sprintf("%s: mask %#x at bit %d", f.src, f.mask, f.lshift)
}

func width(mask uint64) int {
	n := 0
	for mask != 0 {
		if mask&1 == 0 {
			return -1 // not contiguous from bit 0
		}
		n++
		mask >>= 1
	}
	return n
}

func u64(v absint.Val) (uint64, bool) {
	i, ok := absint.ConstInt(v)
	return uint64(i), ok
}

// fields decomposes an OR of shifted masked values.
func fields(v absint.Val) ([]field, bool) {
	s, ok := v.(*absint.Sym)
	if !ok {
		return nil, false
	}
	switch s.Op {
	case "|":
		// field | 1...10...0: the sign extension of one field (the field stays
		// what it is; whether the extension is right is E2's question)
		for i, arg := range s.Args {
			if c, isC := u64(arg); isC && c != 0 && (^c)&(^c+1) == 0 {
				return fields(s.Args[1-i])
			}
		}
		a, ok1 := fields(s.Args[0])
		b, ok2 := fields(s.Args[1])
		return append(a, b...), ok1 && ok2
	case "<<":
		sh, ok := u64(s.Args[1])
		if !ok {
			return nil, false
		}
		fs, ok := fields(s.Args[0])
		for i := range fs {
			fs[i].lshift += uint(sh)
		}
		return fs, ok
	case ">>":
		sh, ok := u64(s.Args[1])
		if !ok {
			return nil, false
		}
		fs, ok := fields(s.Args[0])
		if !ok || len(fs) != 1 || fs[0].lshift != 0 || fs[0].mask != ^uint64(0) {
			return nil, false
		}
		fs[0].rshift += uint(sh)
		return fs, true
	case "&":
		var m uint64
		var inner absint.Val
		if c, ok := u64(s.Args[1]); ok {
			m, inner = c, s.Args[0]
		} else if c, ok := u64(s.Args[0]); ok {
			m, inner = c, s.Args[1]
		} else {
			return nil, false
		}
		fs, ok := fields(inner)
		if !ok || len(fs) != 1 || fs[0].lshift != 0 {
			return nil, false
		}
		fs[0].mask &= m
		return fs, true
	}
	if strings.HasPrefix(s.Op, "bits:") || strings.HasPrefix(s.Op, "conv:") {
		return fields(s.Args[0])
	}
	if s.Op == "var" {
		return []field{{src: s.Name, mask: ^uint64(0)}}, true
	}
	return nil, false
}

type eng struct {
	p *load.Program
	s *oblig.Set
	// what instr() learned about the decoder, for the disassembly rules
	readers map[int]rd
	opField *field
	globals map[*ssa.Global]*absint.Cell
	addrFns map[*ssa.Function]int // the address accessors, by operand slot
}

type rd struct{ kind, addr field }

func (e *eng) eval(fn *ssa.Function, args []absint.Val) (outs []struct {
	res   absint.Val
	end   *absint.PathEnd
	conds []absint.CondRec
}) {
	o := &absint.Oracle{}
	for n := 0; n < 200; n++ {
		in := absint.NewInterp(e.p.SSA, o)
		res, end := in.Run(fn, args)
		outs = append(outs, struct {
			res   absint.Val
			end   *absint.PathEnd
			conds []absint.CondRec
		}{res, end, append([]absint.CondRec(nil), in.CondV...)})
		if !o.Next() {
			break
		}
	}
	return
}

func Run(p *load.Program, tier string) *oblig.Set {
	s := oblig.NewSet()
	e := &eng{p: p, s: s}
	e.instr()
	e.function()
	e.disasm()
	return s
}

func (e *eng) instr() {
	p, s := e.p, e.s
	bt := "types/bytecode"
	encFn := p.Func(bt, "EncodeSrc")
	newFn := p.Func(bt, "New")
	conv := p.Func(bt, "convImm")
	if encFn == nil || newFn == nil {
		s.Unk("ANCHOR", "bytecode.EncodeSrc / New", "-", "functions not found")
		return
	}
	// conv (the sign extension helper) may be missing: the accessors then do the
	// conversion themselves and are read path by path
	u64T := types.Typ[types.Uint64]
	intT := types.Typ[types.Int]
	pos := p.Pos(encFn.Pos())

	type wr struct{ kind, addr field }
	writers := map[int]wr{}
	var accepted [2]*int64 // interval of srcAddr let through
	for k := 0; k < 3; k++ {
		outs := e.eval(encFn, []absint.Val{absint.MkInt(int64(k)), absint.NewVar("KIND", u64T), absint.NewVarRange("ADDR", intT, nil, nil)})
		nOK := 0
		for _, o := range outs {
			if o.end != nil {
				if o.end.Kind != "panic" {
					s.Unk("E1", fmt.Sprintf("bytecode.EncodeSrc / srcsel %d", k), pos, "path not evaluated: "+o.end.Error())
				}
				continue
			}
			nOK++
			fs, ok := fields(o.res)
			var w wr
			found := 0
			if ok {
				for _, f := range fs {
					switch f.src {
					case "KIND":
						w.kind = f
						found++
					case "ADDR":
						w.addr = f
						found++
					}
				}
			}
			if !ok || found != 2 || len(fs) != 2 {
				s.Unk("E1", fmt.Sprintf("bytecode.EncodeSrc / srcsel %d", k), pos, "result is not a composition of a kind field and an address field: "+absint.Key(o.res))
				continue
			}
			writers[k] = w
			if k == 0 {
				lo, hi := intervalOf(o.conds, "ADDR")
				accepted = [2]*int64{lo, hi}
			}
		}
		if nOK != 1 {
			s.Unk("E1", fmt.Sprintf("bytecode.EncodeSrc / srcsel %d / paths", k), pos, fmt.Sprintf("expected one successful path, found %d", nOK))
		}
	}
	// an out-of-range srcsel must not silently produce an instruction
	for _, o := range e.eval(encFn, []absint.Val{absint.MkInt(3), absint.NewVar("KIND", u64T), absint.MkInt(0)}) {
		key := "bytecode.EncodeSrc / srcsel 3 refused"
		if o.end != nil && o.end.Kind == "panic" {
			s.OK("E1", key, pos, "refused")
		} else {
			s.Bad("E1", key, pos, "an operand selector outside 0..2 is encoded silently")
		}
		break
	}

	// readers
	readers := map[int]rd{}
	e.readers = readers
	typeT := encFn.Signature.Results().At(0).Type()
	for k := 0; k < 3; k++ {
		var r rd
		okAll := true
		for i, name := range []string{fmt.Sprintf("Src%d", k), fmt.Sprintf("Src%dAddr", k)} {
			fn := p.Method(bt, "Type", name)
			if fn == nil {
				s.Unk("ANCHOR", "bytecode.Type."+name, "-", "accessor not found")
				okAll = false
				continue
			}
			var f field
			ok := false
			o := &absint.Oracle{}
			in := absint.NewInterp(p.SSA, o)
			in.Hooks.Call = func(in *absint.Interp, callee *ssa.Function, args []absint.Val, site ssa.Instruction) (absint.Val, bool) {
				if conv != nil && callee == conv {
					// the decoded field is the argument of convImm
					if fs, ok2 := fields(args[0]); ok2 && len(fs) == 1 {
						f, ok = fs[0], true
					}
					return absint.NewVar("decoded", intT), true
				}
				return nil, false
			}
			res, end := in.Run(fn, []absint.Val{absint.NewVar("INSTR", typeT)})
			if i == 1 {
				if e.addrFns == nil {
					e.addrFns = map[*ssa.Function]int{}
				}
				e.addrFns[fn] = k
			}
			if end == nil && i == 0 {
				if fs, ok2 := fields(res); ok2 && len(fs) == 1 {
					f, ok = fs[0], true
				}
			}
			if !ok && i == 1 {
				// no conversion helper: every path of the accessor must decode the
				// same single field (plain, or sign extended under a test of its top bit)
				same := true
				var first *field
				for _, po := range e.eval(fn, []absint.Val{absint.NewVar("INSTR", typeT)}) {
					if po.end != nil {
						same = false
						break
					}
					fs, ok2 := fields(po.res)
					if !ok2 || len(fs) != 1 {
						same = false
						break
					}
					if first == nil {
						ff := fs[0]
						first = &ff
					} else if *first != fs[0] {
						same = false
					}
				}
				if same && first != nil {
					f, ok = *first, true
				}
			}
			if !ok {
				s.Unk("E1", "bytecode.Type."+name, p.Pos(fn.Pos()), "accessor is not a shift-and-mask of the instruction word: "+absint.Key(res))
				okAll = false
				continue
			}
			if i == 0 {
				r.kind = f
			} else {
				r.addr = f
			}
		}
		if okAll {
			readers[k] = r
		}
	}
	// E1: writer and reader agree per slot
	type rng struct {
		name   string
		lo, hi int
	}
	var layout []rng
	for k := 0; k < 3; k++ {
		w, okw := writers[k]
		r, okr := readers[k]
		if !okw || !okr {
			continue
		}
		for _, pr := range []struct {
			what string
			w, r field
		}{{"kind", w.kind, r.kind}, {"address", w.addr, r.addr}} {
			key := fmt.Sprintf("bytecode / operand %d %s field", k, pr.what)
			ww := width(pr.w.mask)
			if ww > 0 && pr.w.rshift == 0 && pr.r.rshift == pr.w.lshift && pr.r.mask == pr.w.mask && pr.r.lshift == 0 {
				s.OK("E1", key, pos, fmt.Sprintf("EncodeSrc writes %d bits at bit %d, Src%d%s reads the same bits", ww, pr.w.lshift, k, map[string]string{"kind": "", "address": "Addr"}[pr.what]))
				layout = append(layout, rng{key, int(pr.w.lshift), int(pr.w.lshift) + ww - 1})
			} else {
				s.Bad("E1", key, pos, fmt.Sprintf("encoder writes mask %#x at bit %d, decoder reads mask %#x at bit %d: the operand does not decode to what was encoded", pr.w.mask, pr.w.lshift, pr.r.mask, pr.r.rshift))
			}
		}
	}
	// opcode field
	{
		outs := e.eval(newFn, []absint.Val{absint.NewVar("OP", newFn.Params[0].Type())})
		opAcc := p.Method(bt, "Type", "OpCode")
		key := "bytecode / opcode field"
		if len(outs) == 1 && outs[0].end == nil && opAcc != nil {
			wf, ok1 := fields(outs[0].res)
			ro := e.eval(opAcc, []absint.Val{absint.NewVar("INSTR", typeT)})
			var rf []field
			ok2 := false
			if len(ro) == 1 && ro[0].end == nil {
				rf, ok2 = fields(ro[0].res)
			}
			if ok1 && ok2 && len(wf) == 1 && len(rf) == 1 && width(wf[0].mask) > 0 && rf[0].rshift == wf[0].lshift && rf[0].mask == wf[0].mask {
				w := width(wf[0].mask)
				s.OK("E1", key, p.Pos(newFn.Pos()), fmt.Sprintf("New writes %d bits at bit %d, OpCode reads the same bits", w, wf[0].lshift))
				layout = append(layout, rng{key, int(wf[0].lshift), int(wf[0].lshift) + w - 1})
				e.opField = &wf[0]
				e.opcodes(w)
			} else {
				s.Bad("E1", key, p.Pos(newFn.Pos()), "New and OpCode disagree on the opcode field: "+absint.Key(outs[0].res))
			}
		} else {
			s.Unk("E1", key, p.Pos(newFn.Pos()), "New / OpCode could not be evaluated")
		}
	}
	// disjointness
	sort.Slice(layout, func(i, j int) bool { return layout[i].lo < layout[j].lo })
	okL := len(layout) == 7
	for i := range layout {
		if layout[i].hi > 63 || (i > 0 && layout[i].lo <= layout[i-1].hi) {
			okL = false
			s.Bad("E1", "bytecode / field layout", pos, fmt.Sprintf("fields overlap or leave the 64 bit word: %v", layout))
			break
		}
	}
	if okL {
		s.OK("E1", "bytecode / field layout", pos, fmt.Sprintf("7 fields, pairwise disjoint, within 64 bits: %v", layout))
	} else if len(layout) != 7 {
		s.Unk("E1", "bytecode / field layout", pos, fmt.Sprintf("expected 7 instruction fields, resolved %d", len(layout)))
	}

	// E2: accepted address range = representable range
	if w, ok := writers[0]; ok {
		W := width(w.addr.mask)
		var lo, hi *int64
		if conv != nil {
			lo, hi = e.representable(conv, typeT, W)
		}
		if lo == nil {
			lo, hi = e.decodedRange(typeT, w.addr, W)
		}
		key := "bytecode.EncodeSrc / accepted address range is representable"
		switch {
		case lo == nil:
			s.Unk("E2", key, pos, "the decoding of an address field could not be read off the accessor")
		case accepted[0] == nil || accepted[1] == nil:
			s.Bad("E2", key, pos, fmt.Sprintf("EncodeSrc does not bound srcAddr on both sides before packing it into %d bits: larger addresses are silently truncated", W))
		case *accepted[0] >= *lo && *accepted[1] <= *hi:
			s.OK("E2", key, pos, fmt.Sprintf("EncodeSrc lets through [%d, %d]; a %d bit field decodes [%d, %d]", *accepted[0], *accepted[1], W, *lo, *hi))
		default:
			s.Bad("E2", key, pos, fmt.Sprintf("EncodeSrc lets through srcAddr in [%d, %d] but the %d bit field decodes only [%d, %d]: addresses outside come back wrapped around", *accepted[0], *accepted[1], W, *lo, *hi))
		}
		// kinds fit the kind field
		kw := width(w.kind.mask)
		maxKind := int64(-1)
		for _, n := range []string{"AddrInv", "AddrImm", "AddrGbl", "AddrLcl", "AddrCls", "AddrStck", "AddrTmp", "AddrDS"} {
			if v, ok := p.ConstInt(bt, n); ok && v > maxKind {
				maxKind = v
			}
		}
		key = "bytecode / operand kinds fit the kind field"
		if kw > 0 && maxKind >= 0 && maxKind < 1<<uint(kw) {
			s.OK("E4", key, pos, fmt.Sprintf("largest kind constant %d fits %d bits", maxKind, kw))
		} else {
			s.Bad("E4", key, pos, fmt.Sprintf("kind constant %d does not fit the %d bit kind field", maxKind, kw))
		}
	}
}

// intervalOf reads the interval of variable v implied by the path conditions.
func intervalOf(conds []absint.CondRec, v string) (lo, hi *int64) {
	for _, c := range conds {
		s, ok := c.V.(*absint.Sym)
		if !ok || len(s.Args) != 2 {
			continue
		}
		x, y := s.Args[0], s.Args[1]
		op, b := s.Op, c.B
		xv, xIsVar := x.(*absint.Sym)
		yv, yIsVar := y.(*absint.Sym)
		var cst int64
		var varLeft bool
		switch {
		case xIsVar && xv.Name == v:
			k, ok := absint.ConstInt(y)
			if !ok {
				continue
			}
			cst, varLeft = k, true
		case yIsVar && yv.Name == v:
			k, ok := absint.ConstInt(x)
			if !ok {
				continue
			}
			cst, varLeft = k, false
		default:
			continue
		}
		// normalise to "v REL cst"
		if !varLeft {
			switch op {
			case "<":
				op = ">"
			case "<=":
				op = ">="
			case ">":
				op = "<"
			case ">=":
				op = "<="
			}
		}
		if !b {
			switch op {
			case "<":
				op = ">="
			case "<=":
				op = ">"
			case ">":
				op = "<="
			case ">=":
				op = "<"
			default:
				continue
			}
		}
		set := func(p **int64, val int64, isLo bool) {
			if *p == nil || (isLo && val > **p) || (!isLo && val < **p) {
				*p = &val
			}
		}
		switch op {
		case "<":
			set(&hi, cst-1, false)
		case "<=":
			set(&hi, cst, false)
		case ">":
			set(&lo, cst+1, true)
		case ">=":
			set(&lo, cst, true)
		}
	}
	return
}

// representable evaluates convImm symbolically: sign extension from bit W-1?
// decodedRange: what the operand-0 address accessor returns for the four
// corner values of its field (0, the largest value with a clear top bit, the
// smallest with it set, all ones), evaluated concretely. A two's complement
// field decodes [min, -1] and [0, max]; an unsigned one [0, all ones].
func (e *eng) decodedRange(typeT types.Type, fld field, W int) (lo, hi *int64) {
	if W <= 1 || W > 62 {
		return nil, nil
	}
	var acc *ssa.Function
	for fn, k := range e.addrFns {
		if k == 0 {
			acc = fn
		}
	}
	if acc == nil {
		return nil, nil
	}
	dec := func(v uint64) (int64, bool) {
		in := absint.NewInterp(e.p.SSA, &absint.Oracle{})
		res, end := in.Run(acc, []absint.Val{absint.MkIntT(int64(v<<fld.lshift), typeT)})
		if end != nil {
			return 0, false
		}
		return absint.ConstInt(res)
	}
	top := uint64(1) << uint(W-1)
	r0, ok0 := dec(0)
	r1, ok1 := dec(top - 1)
	r2, ok2 := dec(top)
	r3, ok3 := dec(top<<1 - 1)
	if !ok0 || !ok1 || !ok2 || !ok3 || r0 != 0 || r1 != int64(top-1) {
		return nil, nil
	}
	switch {
	case r2 == -int64(top) && r3 == -1:
		l, h := r2, r1
		return &l, &h
	case r2 == int64(top) && r3 == int64(top<<1-1):
		l, h := int64(0), r3
		return &l, &h
	}
	return nil, nil
}

func (e *eng) representable(conv *ssa.Function, typeT types.Type, W int) (lo, hi *int64) {
	if W <= 0 || W > 62 {
		return nil, nil
	}
	outs := e.eval(conv, []absint.Val{absint.NewVar("N", conv.Params[0].Type())})
	signExt := false
	plain := false
	for _, o := range outs {
		if o.end != nil {
			return nil, nil
		}
		k := absint.Key(o.res)
		switch {
		case k == "N" || k == "bits:int(N)":
			plain = true
		case strings.Contains(k, "|("):
			// OR with the complement of the low W bits, under a test of bit W-1
			fsOK := false
			if s, ok := o.res.(*absint.Sym); ok {
				inner := s
				if strings.HasPrefix(s.Op, "bits:") {
					inner, _ = s.Args[0].(*absint.Sym)
				}
				if inner != nil && inner.Op == "|" {
					for _, a := range inner.Args {
						if c, ok := u64(a); ok && c == ^uint64(0)<<uint(W) {
							fsOK = true
						}
					}
				}
			}
			tested := false
			for _, c := range o.conds {
				if strings.Contains(absint.Key(c.V), fmt.Sprintf("&(N,%d)", uint64(1)<<uint(W-1))) {
					tested = true
				}
			}
			if !fsOK || !tested {
				return nil, nil
			}
			signExt = true
		default:
			return nil, nil
		}
	}
	if !plain {
		return nil, nil
	}
	if signExt {
		l, h := -(int64(1) << uint(W-1)), int64(1)<<uint(W-1)-1
		return &l, &h
	}
	l, h := int64(0), int64(1)<<uint(W)-1
	return &l, &h
}

// opcodes (E3): base opcodes below the temp flag, flagged ones within the field.
func (e *eng) opcodes(opWidth int) {
	p, s := e.p, e.s
	bt := "types/bytecode"
	ops := p.ConstsOfType(bt, "OpCode")
	tf, ok := p.ConstInt(bt, "TempFlag")
	pos := "types/bytecode/bytecode.go"
	if fn := p.Func(bt, "New"); fn != nil {
		pos = p.Pos(fn.Pos())
	}
	if !ok {
		s.Unk("ANCHOR", "bytecode.TempFlag", "-", "constant not found")
		return
	}
	names := load.SortedKeys(ops)
	byVal := map[int64]string{}
	for _, n := range names {
		v := ops[n]
		key := "bytecode.OpCode / " + n
		if prev, dup := byVal[v]; dup {
			s.Bad("E3", key, pos, fmt.Sprintf("opcodes %s and %s have the same value %d", prev, n, v))
			continue
		}
		byVal[v] = n
		switch {
		case v >= 1<<uint(opWidth):
			s.Bad("E3", key, pos, fmt.Sprintf("opcode value %d does not fit the %d bit opcode field", v, opWidth))
		case strings.HasSuffix(n, "TMP"):
			base, ok := ops[strings.TrimSuffix(n, "TMP")]
			if ok && v == tf|base && base < tf {
				s.OK("E3", key, pos, fmt.Sprintf("= TempFlag | %s", strings.TrimSuffix(n, "TMP")))
			} else {
				s.Bad("E3", key, pos, fmt.Sprintf("a TMP opcode must be TempFlag | its base opcode; %s = %d, TempFlag = %d, base = %d", n, v, tf, base))
			}
		case v >= tf:
			s.Bad("E3", key, pos, fmt.Sprintf("base opcode value %d collides with the temp flag %d", v, tf))
		default:
			s.OK("E3", key, pos, fmt.Sprintf("value %d below the temp flag", v))
		}
	}
}

// function (E5, E4, E6): NewFunction / ToFunction.
func (e *eng) function() {
	p, s := e.p, e.s
	nf := p.Func("types/value", "NewFunction")
	tf := p.Method("types/value", "Type", "ToFunction")
	if nf == nil || tf == nil {
		s.Unk("ANCHOR", "value.NewFunction / ToFunction", "-", "not found")
		return
	}
	pos := p.Pos(nf.Pos())
	intT := types.Typ[types.Int]
	args := []absint.Val{absint.NewVar("NODE", intT), absint.NewVar("FRAME", nf.Params[1].Type()), absint.NewVar("PARAMS", intT), absint.NewVar("LOCALS", intT)}
	outs := e.eval(nf, args)
	var wf []field
	guarded := map[string]bool{}
	nOK := 0
	var resVal *absint.Struct
	for _, o := range outs {
		if o.end != nil {
			continue
		}
		nOK++
		rs, ok := o.res.(*absint.Struct)
		if !ok {
			continue
		}
		resVal = rs
		for _, v := range []string{"NODE", "PARAMS", "LOCALS"} {
			lo, hi := intervalOf(o.conds, v)
			if lo != nil && hi != nil {
				guarded[v] = true
			}
		}
	}
	if nOK != 1 || resVal == nil {
		s.Unk("E5", "value.NewFunction", pos, fmt.Sprintf("expected one successful path, found %d", nOK))
		return
	}
	// payload field = the uint64 one
	st := resVal.T.Underlying().(*types.Struct)
	morphIx, ptrIx := -1, -1
	for i := 0; i < st.NumFields(); i++ {
		if st.Field(i).Type().Underlying().String() == "uint64" {
			morphIx = i
		}
		if st.Field(i).Type().String() == "unsafe.Pointer" {
			ptrIx = i
		}
	}
	var ok bool
	wf, ok = fields(resVal.F[morphIx])
	if !ok || len(wf) != 3 {
		s.Unk("E5", "value.NewFunction / layout", pos, "payload is not a composition of three bit fields: "+absint.Key(resVal.F[morphIx]))
		return
	}
	if k := absint.Key(resVal.F[ptrIx]); k != "FRAME" {
		s.Bad("E5", "value.NewFunction / frame", pos, "the frame pointer stored is "+k)
	}
	w := map[string]field{}
	for _, f := range wf {
		w[f.src] = f
	}
	// reader
	z := absint.Zero(resVal.T).(*absint.Struct)
	zf := append([]absint.Val(nil), z.F...)
	kinds := p.ConstsOfType("types/value", "kind")
	zf[0] = absint.MkIntT(kinds["functionT"], st.Field(0).Type())
	zf[morphIx] = absint.NewVar("MORPH", st.Field(morphIx).Type())
	zf[ptrIx] = absint.NewVar("PTR", st.Field(ptrIx).Type())
	ro := e.eval(tf, []absint.Val{&absint.Struct{T: resVal.T, F: zf}})
	if len(ro) != 1 || ro[0].end != nil {
		s.Unk("E5", "value.ToFunction", p.Pos(tf.Pos()), "could not be evaluated on a function value")
		return
	}
	tu, _ := ro[0].res.(*absint.Tuple)
	var fd *absint.Struct
	if tu != nil {
		fd, _ = tu.E[0].(*absint.Struct)
	}
	if fd == nil {
		s.Unk("E5", "value.ToFunction", p.Pos(tf.Pos()), "result is "+absint.Key(ro[0].res))
		return
	}
	fst := fd.T.Underlying().(*types.Struct)
	pairs := map[string]string{"Node": "NODE", "ParamCnt": "PARAMS", "LocalCnt": "LOCALS"}
	widths := map[string]int{}
	for i := 0; i < fst.NumFields(); i++ {
		name := fst.Field(i).Name()
		src, isPacked := pairs[name]
		if !isPacked {
			continue
		}
		key := "value function layout / " + name
		rf, ok := fields(fd.F[i])
		wfld, okw := w[src]
		if !ok || len(rf) != 1 || !okw {
			s.Unk("E5", key, pos, "field is not a shift-and-mask of the payload: "+absint.Key(fd.F[i]))
			continue
		}
		ww := width(wfld.mask)
		widths[name] = ww
		if ww > 0 && rf[0].rshift == wfld.lshift && rf[0].mask == wfld.mask {
			s.OK("E5", key, pos, fmt.Sprintf("NewFunction packs %d bits at bit %d, ToFunction reads the same bits", ww, wfld.lshift))
		} else {
			s.Bad("E5", key, pos, fmt.Sprintf("NewFunction writes mask %#x at bit %d, ToFunction reads mask %#x at bit %d", wfld.mask, wfld.lshift, rf[0].mask, rf[0].rshift))
		}
		// E4: narrowing pack guarded by a range test?
		k4 := "value.NewFunction / " + name + " is range checked before it is packed"
		if guarded[src] {
			s.OK("E4", k4, pos, "bounded on both sides on the packing path")
		} else {
			s.Bad("E4", k4, pos, fmt.Sprintf("%s is masked to %d bits without any range test: a larger value is silently truncated instead of being refused", src, ww))
		}
	}
	// disjoint
	type rg struct{ lo, hi int }
	var rs []rg
	for _, f := range wf {
		rs = append(rs, rg{int(f.lshift), int(f.lshift) + width(f.mask) - 1})
	}
	sort.Slice(rs, func(i, j int) bool { return rs[i].lo < rs[j].lo })
	okD := true
	for i := range rs {
		if rs[i].hi > 63 || rs[i].hi < rs[i].lo || (i > 0 && rs[i].lo <= rs[i-1].hi) {
			okD = false
		}
	}
	if okD {
		s.OK("E5", "value function layout / disjoint", pos, fmt.Sprintf("three fields, disjoint, within 64 bits: %v", rs))
	} else {
		s.Bad("E5", "value function layout / disjoint", pos, fmt.Sprintf("function payload fields overlap: %v", rs))
	}
	// E6: every local the instruction encoding can address is counted
	if aw, ok := p.ConstInt("types/bytecode", "SrcChanWidth"); ok {
		for _, n := range []string{"ParamCnt", "LocalCnt"} {
			key := "value function layout / " + n + " covers every addressable local"
			if widths[n] >= int(aw) {
				s.OK("E6", key, pos, fmt.Sprintf("%d bits >= operand address width %d", widths[n], aw))
			} else {
				s.Bad("E6", key, pos, fmt.Sprintf("%s has %d bits but local indices are encoded in %d bit operands: a function can use more locals than its value can count, the count wraps", n, widths[n], aw))
			}
		}
		key := "value function layout / entry point covers every jump target"
		if widths["Node"] >= int(aw) {
			s.OK("E6", key, pos, fmt.Sprintf("%d bits for the entry point", widths["Node"]))
		} else {
			s.Bad("E6", key, pos, "the entry point field is narrower than an operand address")
		}
	}
}
