package enc

import (
	"fmt"
	"go/types"
	"sort"
	"strings"

	"calcsa/absint"
	"calcsa/load"

	"golang.org/x/tools/go/ssa"
)

// E7 / E8: the disassembly the error report prints (C19: "marks the instruction
// that actually failed together with the operand values it saw"). The text is
// not judged; what is judged is that the rendering of an instruction word reads
// the word the way the decoder does:
//
//	E7a  (bytecode.Type).String renders every operand slot from the kind field
//	     and the address field of that same slot (the pairing fetch is held to
//	     by V1), renders all three slots and the opcode field;
//	E7b  the operand renderer is total on the eight kinds, shows the address
//	     for every kind that carries one (immediate, global, local, closure,
//	     data segment: the kinds whose fetch reads the address), and no two
//	     kinds with the same address render alike;
//	E8   the name of every declared opcode is its own: no declared opcode
//	     falls into the "OpCode(n)" fallback of the generated Stringer and no
//	     two declared opcodes share a name (a stale generated table after the
//	     instruction set was changed).
func (e *eng) disasm() {
	p, s := e.p, e.s
	bt := "types/bytecode"
	strFn := p.Method(bt, "Type", "String")
	conv := p.Func(bt, "convImm")
	if strFn == nil {
		s.Unk("ANCHOR", "bytecode.Type.String", "-", "method not found")
		return
	}
	pos := p.Pos(strFn.Pos())
	typeT := strFn.Params[0].Type()
	intT := types.Typ[types.Int]

	// the operand renderer: the function(s) of the package String hands a
	// (kind, address) pair to -- (uint64, int) -> string
	isRenderer := func(fn *ssa.Function) bool {
		if fn == nil || fn.Pkg == nil || fn.Pkg != strFn.Pkg || (conv != nil && fn == conv) {
			return false
		}
		sig := fn.Signature
		if sig.Recv() != nil || sig.Params().Len() != 2 || sig.Results().Len() != 1 {
			return false
		}
		b, ok := sig.Results().At(0).Type().Underlying().(*types.Basic)
		return ok && b.Kind() == types.String
	}
	type call struct {
		kind, addr field
		okK, okA   bool
		marker     string
	}
	var calls []call
	var sunk []absint.Val
	var renderer *ssa.Function
	in := absint.NewInterp(p.SSA, &absint.Oracle{})
	// lookup tables of the package have their contents
	pkgGlobals, gerr := absint.InitGlobals(p.SSA, strFn.Pkg)
	if gerr == nil {
		in.Globals = pkgGlobals
		e.globals = pkgGlobals
	}
	in.Hooks.Call = func(in *absint.Interp, callee *ssa.Function, args []absint.Val, site ssa.Instruction) (absint.Val, bool) {
		if conv != nil && callee == conv {
			return &absint.Sym{Op: "decoded", Args: []absint.Val{args[0]}, T: intT}, true
		}
		// an address accessor applied to the word: the address of that slot
		if k, isAcc := e.addrFns[callee]; isAcc && len(args) == 1 {
			if v, ok := args[0].(*absint.Sym); ok && v.Op == "var" && v.Name == "INSTR" {
				return &absint.Sym{Op: "addrslot", Name: fmt.Sprint(k), T: intT}, true
			}
		}
		if callee.Pkg != strFn.Pkg {
			// what is handed to the library (a strings.Builder, fmt.Fprintf)
			// is on its way into the text
			for _, a := range args {
				sunk = append(sunk, a)
			}
			return nil, false
		}
		// the opcode handed to a function of the package (its String method, a
		// name table) is the opcode being rendered
		if (conv == nil || callee != conv) && !isRenderer(callee) && len(args) >= 1 && e.opField != nil {
			if fs, ok := fields(args[0]); ok && len(fs) == 1 && fs[0].src == "INSTR" && fs[0].rshift == e.opField.lshift && fs[0].mask == e.opField.mask {
				if callee.Signature.Results().Len() == 1 {
					if bt, isB := callee.Signature.Results().At(0).Type().Underlying().(*types.Basic); isB && bt.Kind() == types.String {
						sunk = append(sunk, args[0])
						return &absint.Sym{Op: "var", Name: "OPCODENAME", T: types.Typ[types.String]}, true
					}
				}
			}
		}
		if isRenderer(callee) {
			renderer = callee
			c := call{marker: fmt.Sprintf("OPERAND%d", len(calls))}
			if fs, ok := fields(args[0]); ok && len(fs) == 1 {
				c.kind, c.okK = fs[0], true
			}
			if d, ok := args[1].(*absint.Sym); ok && d.Op == "decoded" {
				if fs, ok := fields(d.Args[0]); ok && len(fs) == 1 {
					c.addr, c.okA = fs[0], true
				}
			}
			if d, ok := args[1].(*absint.Sym); ok && d.Op == "addrslot" {
				for k, r := range e.readers {
					if fmt.Sprint(k) == d.Name {
						c.addr, c.okA = r.addr, true
					}
				}
			}
			calls = append(calls, c)
			return &absint.Sym{Op: "var", Name: c.marker, T: types.Typ[types.String]}, true
		}
		return nil, false
	}
	res, end := in.Run(strFn, []absint.Val{absint.NewVar("INSTR", typeT)})
	if end != nil {
		s.Unk("E7", "bytecode.Type.String", pos, "the disassembly could not be evaluated: "+end.Error())
		return
	}
	if renderer == nil {
		s.Unk("E7", "bytecode.Type.String / operand renderer", pos, "String does not hand (kind, address) pairs to a renderer of the package; the rule does not know this form")
		return
	}
	sunk = append(sunk, res)
	text := ""
	for _, v := range sunk {
		text += deepKey(v)
	}
	seen := map[int]bool{}
	for _, c := range calls {
		slot := -1
		for k, r := range e.readers {
			if c.okK && c.kind == r.kind {
				slot = k
			}
		}
		key := fmt.Sprintf("bytecode.Type.String / operand %d", slot)
		switch {
		case !c.okK || !c.okA || slot < 0:
			s.Bad("E7", "bytecode.Type.String / operand rendered from something else than a slot's fields", pos, fmt.Sprintf("an operand is rendered from kind=%v address=%v, which is not the kind field and the address field of one operand slot", c.kind, c.addr))
		case c.addr != e.readers[slot].addr:
			s.Bad("E7", key, pos, fmt.Sprintf("the kind of operand %d is rendered with the address field %v of another slot: the report shows an operand the failing instruction does not have", slot, c.addr))
		case seen[slot]:
			s.Bad("E7", key, pos, "the slot is rendered twice")
		default:
			seen[slot] = true
			if strings.Contains(text, c.marker) {
				s.OK("E7", key, pos, "rendered from the kind field and the address field of the same slot")
			} else {
				s.Bad("E7", key, pos, "the rendering of the slot does not reach the text String returns")
			}
		}
	}
	for k := 0; k < 3; k++ {
		if !seen[k] && len(e.readers) == 3 {
			s.Bad("E7", fmt.Sprintf("bytecode.Type.String / operand %d", k), pos, "the disassembly leaves this operand slot out")
		}
	}
	// the opcode field reaches the text
	{
		key := "bytecode.Type.String / opcode"
		found := false
		for _, sv := range sunk {
			walk(sv, func(v absint.Val) {
				if fs, ok := fields(v); ok && len(fs) == 1 && e.opField != nil && fs[0].src == "INSTR" && fs[0].rshift == e.opField.lshift && fs[0].mask == e.opField.mask {
					found = true
				}
			})
		}
		if found {
			s.OK("E7", key, pos, "the opcode field of the word is rendered")
		} else {
			s.Bad("E7", key, pos, "the text does not contain the opcode field of the instruction word: "+clip(deepKey(res), 300))
		}
	}

	// E7b: the operand renderer kind by kind
	kinds := []string{"AddrInv", "AddrImm", "AddrGbl", "AddrLcl", "AddrCls", "AddrStck", "AddrTmp", "AddrDS"}
	carries := map[string]bool{"AddrImm": true, "AddrGbl": true, "AddrLcl": true, "AddrCls": true, "AddrDS": true}
	rpos := p.Pos(renderer.Pos())
	rendered := map[string]string{}
	for _, kn := range kinds {
		kv, ok := p.ConstInt(bt, kn)
		if !ok {
			s.Unk("ANCHOR", "bytecode."+kn, "-", "constant not found")
			continue
		}
		key := "bytecode operand renderer / " + kn
		outs := e.evalM(renderer, []absint.Val{absint.MkIntT(kv, renderer.Params[0].Type()), absint.NewVar("ADDR", intT)})
		if len(outs) != 1 || outs[0].end != nil {
			why := fmt.Sprintf("%d paths", len(outs))
			if len(outs) > 0 && outs[0].end != nil {
				why = outs[0].end.Error()
			}
			if len(outs) > 0 && outs[0].end != nil && outs[0].end.Kind == "panic" {
				s.Bad("E7", key, rpos, "rendering an operand of this kind aborts: producing the report fails")
			} else {
				s.Unk("E7", key, rpos, "not one straight path for a given kind: "+why)
			}
			continue
		}
		k := deepKey(outs[0].res)
		rendered[kn] = k
		if carries[kn] && !strings.Contains(k, "ADDR") {
			s.Bad("E7", key, rpos, "an operand of this kind carries an address (fetch reads it) but the rendering does not show it: "+clip(k, 200))
		} else {
			s.OK("E7", key, rpos, clip(k, 120))
		}
	}
	var ks []string
	for kn := range rendered {
		ks = append(ks, kn)
	}
	sort.Strings(ks)
	for i, a := range ks {
		for _, b := range ks[i+1:] {
			if rendered[a] == rendered[b] {
				s.Bad("E7", "bytecode operand renderer / "+a+" vs "+b, rpos, "two operand kinds render alike: the report does not tell where the operand came from")
			}
		}
	}

	// E8: opcode names
	nameFn := p.Method(bt, "OpCode", "String")
	if nameFn == nil {
		s.Unk("ANCHOR", "bytecode.OpCode.String", "-", "method not found")
		return
	}
	ops := p.ConstsOfType(bt, "OpCode")
	npos := p.Pos(nameFn.Pos())
	// the fallback form: what the method answers for a value no opcode has
	unused := int64(0)
	used := map[int64]bool{}
	for _, v := range ops {
		used[v] = true
	}
	for used[unused] {
		unused++
	}
	globals, gend := pkgGlobals, gerr
	if gend != nil {
		s.Unk("E8", "bytecode.OpCode.String / package initialiser", npos, gend.Error())
		return
	}
	name := func(v int64) (string, *absint.PathEnd) {
		in := absint.NewInterp(p.SSA, &absint.Oracle{})
		in.Globals = globals
		res, end := in.Run(nameFn, []absint.Val{absint.MkIntT(v, nameFn.Params[0].Type())})
		if end != nil {
			return "", end
		}
		str, ok := absint.ConstString(res)
		if !ok {
			return "", &absint.PathEnd{Kind: "undecided", Msg: "the name is not a constant: " + absint.Key(res)}
		}
		return str, nil
	}
	fallback, fend := name(unused)
	if fend != nil {
		s.Unk("E8", "bytecode.OpCode.String / undeclared value", npos, fend.Error())
		return
	}
	// the fallback mentions the number; a declared opcode's name must not be of that form
	fbPrefix := strings.TrimRight(fallback, "0123456789)")
	byName := map[string]string{}
	for _, n := range load.SortedKeys(ops) {
		key := "bytecode.OpCode.String / " + n
		got, end := name(ops[n])
		switch {
		case end != nil && end.Kind == "panic":
			s.Bad("E8", key, npos, "naming this opcode aborts (index out of the generated table): the error report fails")
		case end != nil:
			s.Unk("E8", key, npos, end.Error())
		case fbPrefix != "" && strings.HasPrefix(got, fbPrefix) && got != n:
			s.Bad("E8", key, npos, fmt.Sprintf("the declared opcode renders as %q, the form used for values that are not opcodes: the generated name table is stale", got))
		case byName[got] != "":
			s.Bad("E8", key, npos, fmt.Sprintf("opcodes %s and %s both render as %q", byName[got], n, got))
		default:
			byName[got] = n
			s.OK("E8", key, npos, fmt.Sprintf("%q", got))
		}
	}
}

// evalM is eval with the module set (library code opaque on symbolic arguments).
func (e *eng) evalM(fn *ssa.Function, args []absint.Val) (outs []struct {
	res absint.Val
	end *absint.PathEnd
}) {
	o := &absint.Oracle{}
	for n := 0; n < 50; n++ {
		in := absint.NewInterp(e.p.SSA, o)
		if e.globals != nil {
			in.Globals = e.globals
		}
		res, end := in.Run(fn, args)
		outs = append(outs, struct {
			res absint.Val
			end *absint.PathEnd
		}{res, end})
		if !o.Next() {
			break
		}
	}
	return
}

func clip(s string, n int) string {
	if len(s) > n {
		return s[:n] + "…"
	}
	return s
}

// walk visits v and everything it is built from.
func walk(v absint.Val, f func(absint.Val)) {
	if v == nil {
		return
	}
	f(v)
	switch x := v.(type) {
	case *absint.Sym:
		for _, a := range x.Args {
			walk(a, f)
		}
	case *absint.Iface:
		walk(x.V, f)
	case *absint.Slice:
		for _, el := range x.Elems() {
			walk(el, f)
		}
	case *absint.Struct:
		for _, el := range x.F {
			walk(el, f)
		}
	case *absint.Tuple:
		for _, el := range x.E {
			walk(el, f)
		}
	}
}

// deepKey renders v with the contents of slices and interfaces.
func deepKey(v absint.Val) string {
	var b strings.Builder
	walk(v, func(x absint.Val) {
		switch y := x.(type) {
		case *absint.Sym:
			if y.Op == "var" {
				b.WriteString(y.Name)
			} else {
				b.WriteString(y.Op)
			}
			b.WriteString(" ")
		case absint.Const:
			b.WriteString(absint.Key(y))
			b.WriteString(" ")
		}
	})
	return b.String()
}
