package pipeline

import (
	"fmt"
	"go/token"
	"go/types"
	"sort"
	"strings"

	"calcsa/absint"
	"calcsa/load"
	"calcsa/oblig"

	"golang.org/x/tools/go/ssa"
)

// caretRule (P12): rendering a parse error cuts the offending line out of the
// text with slice expressions; Go checks the bounds of each at run time and
// aborts the process when they do not hold. Given what the front-end rules
// establish about an error span (0 <= From <= To <= len(text): N9, X6, X7, and
// P11 for "the text is the text that was parsed"), every slice expression of
// reportError must provably satisfy 0 <= low <= high <= len(operand) on every
// path, from the comparisons decided on that path and the contracts of
// strings.Index / strings.LastIndex (-1 <= r <= len(s)-1 for a non-empty
// separator). The proof is linear arithmetic over the symbolic offsets
// (absint.LinFacts, Fourier-Motzkin); an unproved bound is a violation.
func caretRule(p *load.Program, s *oblig.Set) {
	fn := p.Func("types/node", "reportError")
	if fn == nil {
		s.Unk("ANCHOR", "node.reportError", "-", "not found")
		return
	}
	pos := p.Pos(fn.Pos())
	// slice expressions in source order
	ord := map[ssa.Instruction]int{}
	var sites []*ssa.Slice
	for _, b := range fn.Blocks {
		for _, ins := range b.Instrs {
			if sl, ok := ins.(*ssa.Slice); ok {
				if b, isB := sl.X.Type().Underlying().(*types.Basic); isB && b.Info()&types.IsString != 0 {
					sites = append(sites, sl)
				}
			}
		}
	}
	sort.Slice(sites, func(i, j int) bool { return sites[i].Pos() < sites[j].Pos() })
	for i, sl := range sites {
		ord[sl] = i + 1
	}
	type verdict struct {
		seen   int
		failed []string
		forms  map[string]bool
	}
	res := map[int]*verdict{}
	intT := types.Typ[types.Int]
	o := &absint.Oracle{}
	paths := 0
	nRepeat := 0
	badRepeat := map[string]bool{}
	for n := 0; n < 2000; n++ {
		paths++
		in := absint.NewInterp(p.SSA, o)
		base := &absint.LinFacts{}
		from := absint.NewVar("FROM", intT)
		to := absint.NewVar("TO", intT)
		line := absint.NewVar("LINE", types.Typ[types.String])
		lens := map[string]absint.Val{}
		in.Hooks.Len = func(in *absint.Interp, x absint.Val) (absint.Val, bool) {
			if l, ok := lens[absint.Key(x)]; ok {
				return l, true
			}
			return nil, false
		}
		base.AddCmp(token.GEQ, from, absint.MkInt(0), true)
		base.AddCmp(token.LEQ, from, to, true)
		base.AddCmp(token.LEQ, to, in.LenOf(line), true)
		facts := func() *absint.LinFacts {
			f := base.Copy()
			for _, c := range in.CondV {
				f.AddCond(c)
			}
			return f
		}
		nIdx := 0
		in.Hooks.Builtin = func(in *absint.Interp, name string, args []absint.Val, site ssa.Instruction) (absint.Val, bool) {
			if (name != "max" && name != "min") || len(args) != 2 {
				return nil, false
			}
			a, ok1 := absint.LinOf(args[0])
			b, ok2 := absint.LinOf(args[1])
			if !ok1 || !ok2 {
				return nil, false
			}
			nIdx++
			mv := absint.NewVar(fmt.Sprintf("%s#%d", strings.ToUpper(name), nIdx), intT)
			ml, _ := absint.LinOf(mv)
			base.AddMax(ml, a, b, name == "max")
			return mv, true
		}
		in.Hooks.Slice = func(in *absint.Interp, x, lo, hi, mx absint.Val, site ssa.Instruction) (absint.Val, bool) {
			xs, isSym := x.(*absint.Sym)
			if !isSym {
				return nil, false
			}
			if b, ok := xs.T.Underlying().(*types.Basic); !ok || b.Info()&types.IsString == 0 {
				return nil, false
			}
			lx := in.LenOf(x)
			l, h := lo, hi
			if l == nil {
				l = absint.MkInt(0)
			}
			if h == nil {
				h = lx
			}
			k := ord[site]
			v := res[k]
			if v == nil {
				v = &verdict{forms: map[string]bool{}}
				res[k] = v
			}
			v.seen++
			form := fmt.Sprintf("%s[%s:%s]", absint.Key(x), absint.Key(l), absint.Key(h))
			v.forms[form] = true
			f := facts()
			ll, ok1 := absint.LinOf(l)
			lh, ok2 := absint.LinOf(h)
			llen, ok3 := absint.LinOf(lx)
			var miss []string
			if !ok1 || !ok2 || !ok3 {
				miss = append(miss, "bounds are not linear in the offsets")
			} else {
				if !f.Proves(ll) {
					miss = append(miss, "0 <= low")
				}
				if !f.Proves(lh.Sub(ll)) {
					miss = append(miss, "low <= high")
				}
				if !f.Proves(llen.Sub(lh)) {
					miss = append(miss, "high <= len")
				}
			}
			if len(miss) > 0 {
				v.failed = append(v.failed, fmt.Sprintf("%s: not established: %s, under [%s]", form, strings.Join(miss, ", "), strings.Join(in.CondLog, "; ")))
			}
			r := &absint.Sym{Op: "slice", Args: []absint.Val{x, l, h}, T: xs.T}
			lens[absint.Key(r)] = in.BinOp(token.SUB, h, l, intT, intT)
			return r, true
		}
		in.Hooks.Call = func(in *absint.Interp, callee *ssa.Function, args []absint.Val, site ssa.Instruction) (absint.Val, bool) {
			name := callee.String()
			switch {
			case strings.HasSuffix(name, "combinator.Error).From"):
				return from, true
			case strings.HasSuffix(name, "combinator.Error).To"):
				return to, true
			case name == "strings.Repeat":
				nRepeat++
				cnt, ok := absint.LinOf(args[1])
				if !ok || !facts().Proves(cnt) {
					badRepeat[fmt.Sprintf("%s: count %s under [%s]", p.Pos(site.Pos()), absint.Key(args[1]), strings.Join(in.CondLog, "; "))] = true
				}
				return absint.NewVar("repeated", types.Typ[types.String]), true
			case name == "strings.Index" || name == "strings.LastIndex":
				nIdx++
				r := absint.NewVar(fmt.Sprintf("%s#%d", callee.Name(), nIdx), intT)
				base.AddCmp(token.GEQ, r, absint.MkInt(-1), true)
				ls := in.LenOf(args[0])
				if sep, ok := absint.ConstString(args[1]); ok && len(sep) >= 1 {
					// found: r + len(sep) <= len(s); not found: r = -1 <= len(s) - 1
					base.AddCmp(token.LSS, r, ls, true)
				} else {
					base.AddCmp(token.LEQ, r, ls, true)
				}
				return r, true
			case callee.Pkg != nil && callee.Pkg.Pkg.Path() != load.ModPath+"/types/node":
				rs := callee.Signature.Results()
				if rs.Len() == 0 {
					return nil, true
				}
				if rs.Len() == 1 {
					return &absint.Sym{Op: name, Args: args, T: rs.At(0).Type()}, true
				}
				tu := &absint.Tuple{}
				for i := 0; i < rs.Len(); i++ {
					tu.E = append(tu.E, &absint.Sym{Op: fmt.Sprintf("%s.%d", name, i), Args: args, T: rs.At(i).Type()})
				}
				return tu, true
			}
			return nil, false
		}
		// counting loops of the function (a caret line built character by
		// character) are evaluated at one symbolic position
		loops := &absint.LoopSym{Fn: fn, In: func(f *ssa.Function) bool {
			return f != nil && f.Pkg != nil && f.Pkg == fn.Pkg
		}, Facts: base}
		in.Hooks.Instr = loops.OnInstr
		in.Hooks.Branch = loops.OnBranch
		_, end := in.Run(fn, []absint.Val{absint.NewVar("ERR", fn.Params[0].Type()), line})
		if end != nil && end.Kind != "panic" {
			s.Unk("P12", "node.reportError / path", pos, "could not be evaluated: "+end.Error())
		}
		if !o.Next() {
			break
		}
	}
	for i, sl := range sites {
		k := i + 1
		key := fmt.Sprintf("node.reportError / slice expression #%d stays inside its text", k)
		v := res[k]
		switch {
		case v == nil:
			s.Unk("P12", key, p.Pos(sl.Pos()), "the slice expression was not evaluated on any explored path as a slice of symbolic text")
		case len(v.failed) == 0:
			var fs []string
			for f := range v.forms {
				fs = append(fs, f)
			}
			sort.Strings(fs)
			s.OK("P12", key, p.Pos(sl.Pos()), fmt.Sprintf("0 <= low <= high <= len proved on %d evaluation(s) over %d path(s), given 0 <= From <= To <= len(text): %s", v.seen, paths, strings.Join(fs, ", ")))
		default:
			sort.Strings(v.failed)
			if len(v.failed) > 4 {
				v.failed = v.failed[:4]
			}
			s.Bad("P12", key, p.Pos(sl.Pos()), "a slice expression out of range aborts the interpreter while it reports a syntax error; the bounds do not follow from 0 <= From <= To <= len(text) and the comparisons on the path", v.failed...)
		}
	}
	if len(sites) == 0 {
		s.OK("P12", "node.reportError / no slice expressions", pos, "nothing to bound")
	}
	// P5: strings.Repeat panics on a negative count
	key5 := "node.reportError / caret and squiggle counts are never negative"
	switch {
	case nRepeat == 0:
		s.OK("P5", key5, pos, "no strings.Repeat")
	case len(badRepeat) == 0:
		s.OK("P5", key5, pos, fmt.Sprintf("every strings.Repeat count is proved non-negative from the decisions of its path (%d evaluation(s) over %d path(s)), given 0 <= From <= To <= len(text)", nRepeat, paths))
	default:
		var l []string
		for b := range badRepeat {
			l = append(l, b)
		}
		sort.Strings(l)
		if len(l) > 4 {
			l = l[:4]
		}
		s.Bad("P5", key5, pos, "strings.Repeat panics on a negative count; a count does not follow to be non-negative from the comparisons on its path", l...)
	}
}
