package pipeline

import (
	"fmt"
	"go/ast"
	"go/parser"
	"go/token"
	"go/types"
	"strings"

	"calcsa/load"
	"calcsa/oblig"

	"golang.org/x/tools/go/ssa"
	"golang.org/x/tools/go/ssa/ssautil"
)

// recoverRule (P7): an abort inside the pipeline ends the process. Every other
// rule relies on that: the compiler rules show that code is appended in whole
// statements, the session rules that a failed statement leaves only its
// globals. A recover() turns an abort in the middle of the compiler or the VM
// (the operand-limit panic of EncodeSrc, for one) into a session that goes on
// with half a statement in the code segment and the VM where the panic left
// it; segments may not be cut back either (P6), so there is no sound way of
// resuming. The rule reports every call of the recover builtin in the module.
func recoverRule(p *load.Program, s *oblig.Set) {
	// positive control: the detector finds the recover of a three line program
	if n := len(recoverSites(controlProgram())); n != 1 {
		s.Unk("P7", "detector self-test", "-", fmt.Sprintf("the recover detector finds %d sites in its control program, expected 1", n))
		return
	}
	var fns []*ssa.Function
	for fn := range ssautil.AllFunctions(p.SSA) {
		if fn.Pkg == nil || fn.Blocks == nil || !strings.HasPrefix(fn.Pkg.Pkg.Path(), load.ModPath) {
			continue
		}
		fns = append(fns, fn)
	}
	sites := recoverSites(fns)
	s.Count("functions_scanned_for_recover", len(fns))
	if len(fns) < 300 {
		s.Unk("P7", "functions scanned", "-", fmt.Sprintf("only %d functions of the module were scanned", len(fns)))
	}
	if len(sites) == 0 {
		s.OK("P7", "no abort is swallowed", "-", fmt.Sprintf("no call of recover() in %d functions of the module: a panic in the compiler or the VM ends the process, it never resumes a session on partial state", len(fns)))
		return
	}
	for i, c := range sites {
		s.Bad("P7", fmt.Sprintf("%s / recover #%d", p.FuncKey(c.Parent()), i+1), p.Pos(c.Pos()),
			"recover() resumes after a panic raised in the middle of parsing, compiling or running a statement: the code and data segments keep the half-compiled statement (they can only grow), the VM's memory and iterator contexts stay where the panic left them, and the limit that was meant to refuse the program is no longer enforced for the rest of the session")
	}
}

func recoverSites(fns []*ssa.Function) []*ssa.Call {
	var out []*ssa.Call
	for _, fn := range fns {
		for _, b := range fn.Blocks {
			for _, ins := range b.Instrs {
				if c, ok := ins.(*ssa.Call); ok {
					if bi, ok := c.Call.Value.(*ssa.Builtin); ok && bi.Name() == "recover" {
						out = append(out, c)
					}
				}
			}
		}
	}
	return out
}

func controlProgram() []*ssa.Function {
	const src = "package p\nfunc f() { defer func() { _ = recover() }() }\n"
	fset := token.NewFileSet()
	f, err := parser.ParseFile(fset, "control.go", src, 0)
	if err != nil {
		return nil
	}
	pkg := types.NewPackage("p", "p")
	sp, _, err := ssautil.BuildPackage(&types.Config{}, fset, pkg, []*ast.File{f}, 0)
	if err != nil {
		return nil
	}
	var out []*ssa.Function
	for fn := range ssautil.AllFunctions(sp.Prog) {
		if fn.Blocks != nil {
			out = append(out, fn)
		}
	}
	return out
}
