package pipeline

import (
	"fmt"
	"go/types"
	"strings"

	"calcsa/absint"
	"calcsa/load"
	"calcsa/oblig"

	"golang.org/x/tools/go/ssa"
)

// boundaryRule (P13): the statement-boundary state of node.Loop does not
// outlive a statement that cannot be completed (C08: a statement that fails to
// parse leaves the session usable; C16: every later statement is executed as
// if entered on its own; defect D33).
//
// Loop is interpreted for one and for two reads with the number of opening and
// closing braces (brackets) of each line symbolic -- A1, B1, A2, B2 >= 0, the
// other characters it counts absent -- and the decisions of each path are
// collected as linear facts:
//
//	P13a  for every line with more closers than openers (B1 > A1): on every
//	      path the facts do not refute, the pending input is handed to
//	      processInput in that round. A stray closer can never be balanced by
//	      later lines; a driver that keeps waiting swallows the rest of the
//	      session without a word.
//	P13b  for every such line followed by a line that opens a block (A2 > B2):
//	      on every feasible path the second line is not submitted in its
//	      round: the surplus of the refused statement does not count against
//	      the statements after it.
//
// A driver that does not count with strings.Count (its own scan of the bytes)
// is judged on the representative lines "}" / "{" and "]" / "[" instead,
// evaluated concretely; the evidence says which.
func boundaryRule(p *load.Program, s *oblig.Set) {
	fn := p.Func("types/node", "Loop")
	if fn == nil {
		return // reported by loopRule
	}
	pos := p.Pos(fn.Pos())
	for _, pair := range [][2]string{{"{", "}"}, {"[", "]"}} {
		for _, two := range []bool{false, true} {
			rule, what := "P13", "a line with a surplus "+pair[1]+" is submitted"
			if two {
				what = "the surplus " + pair[1] + " of a refused line does not count against the next statement"
			}
			key := "node.Loop / " + what
			verdict, why, wit := boundaryScenario(p, fn, pair, two, false)
			if verdict == "scanned" {
				verdict, why, wit = boundaryScenario(p, fn, pair, two, true)
				why += " (the driver scans the line itself: judged on the representative lines)"
			}
			switch verdict {
			case "ok":
				s.OK(rule, key, pos, why)
			case "bad":
				s.Bad(rule, key, pos, why, wit...)
			default:
				s.Unk(rule, key, pos, why, wit...)
			}
		}
	}
}

func boundaryScenario(p *load.Program, fn *ssa.Function, pair [2]string, two, concrete bool) (verdict, why string, witness []string) {
	intT := types.Typ[types.Int]
	strT := types.Typ[types.String]
	o := &absint.Oracle{}
	feasible, refuted := 0, 0
	nLines := 1
	if two {
		nLines = 2
	}
	for n := 0; n < 4000; n++ {
		in := absint.NewInterp(p.SSA, o)
		in.MaxStep = 50000
		reads := 0
		scanned := false
		counted := false
		// processed[i]: the inputs handed to processInput while `reads` was i
		processed := map[int][]string{}
		lineVal := func(i int) absint.Val {
			if concrete {
				if i == 1 {
					return absint.MkString(pair[1])
				}
				return absint.MkString("x = () -> " + pair[0])
			}
			return absint.NewVar(fmt.Sprintf("LINE%d", i), strT)
		}
		in.Hooks.Invoke = func(in *absint.Interp, recv absint.Val, m *types.Func, args []absint.Val, site ssa.Instruction) (absint.Val, bool) {
			if m.Name() == "Parse" && len(args) == 1 {
				processed[reads] = append(processed[reads], absint.Key(args[0]))
				sig := m.Type().(*types.Signature)
				return &absint.Tuple{E: []absint.Val{absint.Const{T: sig.Results().At(0).Type()}, absint.Const{T: sig.Results().At(1).Type()}}}, true
			}
			if m.Name() != "read" {
				return nil, false
			}
			reads++
			errT := m.Type().(*types.Signature).Results().At(1).Type()
			if reads <= nLines {
				return &absint.Tuple{E: []absint.Val{lineVal(reads), absint.Const{T: errT}}}, true
			}
			ec := in.NewCell(absint.NewVar("eof", nil), "EOF")
			return &absint.Tuple{E: []absint.Val{absint.MkString(""), &absint.Iface{T: types.NewPointer(intT), V: &absint.Ptr{Cell: ec}}}}, true
		}
		in.Hooks.Branch = func(in *absint.Interp, cond absint.Val, site ssa.Instruction) (bool, bool) {
			ck := absint.Key(cond)
			for i := 1; i <= nLines; i++ {
				l := fmt.Sprintf("LINE%d", i)
				if isTest, saysEmpty := emptinessTest(ck, l); isTest {
					return !saysEmpty, true // the lines are not empty
				}
				if strings.Contains(ck, "len("+l+")") || strings.Contains(ck, "index("+l) || strings.Contains(ck, "strindex("+l) {
					scanned = true
				}
			}
			return false, false
		}
		in.Hooks.Call = func(in *absint.Interp, callee *ssa.Function, args []absint.Val, site ssa.Instruction) (absint.Val, bool) {
			switch {
			case callee.Name() == "processInput":
				processed[reads] = append(processed[reads], absint.Key(args[0]))
				return nil, true
			case callee.String() == "strings.Count" && !concrete:
				counted = true
				line := absint.Key(args[0])
				sub, _ := absint.ConstString(args[1])
				idx := 0
				switch {
				case line == "LINE1":
					idx = 1
				case line == "LINE2":
					idx = 2
				default:
					return nil, false
				}
				switch sub {
				case pair[0]:
					return absint.NewVarRange(fmt.Sprintf("A%d", idx), intT, absint.I64(0), nil), true
				case pair[1]:
					return absint.NewVarRange(fmt.Sprintf("B%d", idx), intT, absint.I64(0), nil), true
				}
				return absint.MkInt(0), true // the line contains nothing else the driver counts
			case callee.Pkg != nil && callee.Pkg.Pkg.Path() != load.ModPath+"/types/node" && !concrete:
				if callee.Signature.Results().Len() == 1 {
					return &absint.Sym{Op: callee.String(), Args: args, T: callee.Signature.Results().At(0).Type()}, true
				}
			}
			return nil, false
		}
		args := []absint.Val{absint.NewVar("READER", fn.Params[0].Type()), absint.NewVar("PARSER", fn.Params[1].Type()), absint.NewVar("VM", fn.Params[2].Type()), absint.NewVar("DOOUT", types.Typ[types.Bool])}
		_, end := in.Run(fn, args)
		if scanned && !concrete {
			return "scanned", "", nil
		}
		if end != nil {
			return "unk", "a path of the loop could not be evaluated: " + end.Error(), append([]string(nil), in.CondLog...)
		}
		// is the path compatible with the hypothesis?
		ok := true
		if !concrete {
			if !counted {
				return "scanned", "", nil
			}
			f := &absint.LinFacts{}
			for _, c := range in.CondV {
				f.AddCond(c)
			}
			for _, v := range []string{"A1", "B1", "A2", "B2"} {
				f.AddGE(absint.LinAtom(v))
			}
			f.AddGE(absint.LinAtom("B1").Sub(absint.LinAtom("A1")).Plus(-1)) // B1 > A1
			if two {
				f.AddGE(absint.LinAtom("A2").Sub(absint.LinAtom("B2")).Plus(-1)) // A2 > B2
			}
			if f.Proves(absint.LinConst(-1)) {
				ok = false
			}
		}
		if !ok {
			refuted++
		} else {
			feasible++
			if !two {
				has := false
				for _, pi := range processed[1] {
					if concrete || strings.Contains(pi, "LINE1") {
						has = true
					}
				}
				if !has {
					return "bad", "a line whose closing " + pair[1] + " outnumber its opening " + pair[0] + " is not handed to the parser when it is read: no later line can balance it, so the driver waits for ever and the rest of the script or session is swallowed without a report", append([]string(nil), in.CondLog...)
				}
			} else {
				for _, pi := range processed[2] {
					if concrete || strings.Contains(pi, "LINE2") {
						return "bad", "after a line with a surplus " + pair[1] + " was refused, a line that opens a block is submitted as if it were complete: the boundary state of the refused statement leaks into the next one", append([]string(nil), in.CondLog...)
					}
				}
			}
		}
		if !o.Next() {
			break
		}
	}
	if feasible == 0 {
		return "unk", "no path of the loop is compatible with such a line", nil
	}
	return "ok", fmt.Sprintf("%d feasible path(s), %d refuted by their own decisions", feasible, refuted), nil
}

// joinRule (P15): the lines of one statement reach the parser joined by exactly
// one line break each, whether the last of them was read with or without the
// end of input. Loop is interpreted for two reads: a line that opens a block,
// then the line that closes it -- arriving together with the read error (a
// file without a final line break) or without it. The one submission must be
// the two lines with one line break between them: without it the closing
// brace lands on the previous line's last token, and a multi-line string loses
// a line break (seed C16-S; the two end-of-input checks of Loop folded into
// one that appended the last line bare).
func joinRule(p *load.Program, s *oblig.Set) {
	fn := p.Func("types/node", "Loop")
	if fn == nil {
		return
	}
	pos := p.Pos(fn.Pos())
	intT := types.Typ[types.Int]
	strT := types.Typ[types.String]
	for _, withErr := range []bool{false, true} {
		key := "node.Loop / the lines of a statement are joined by one line break each"
		if withErr {
			key += " (last line read together with the end of input)"
		}
		for _, concrete := range []bool{false, true} {
			in := absint.NewInterp(p.SSA, &absint.Oracle{})
			in.MaxStep = 50000
			reads := 0
			scanned, counted := false, false
			var submitted []absint.Val
			line := func(i int) absint.Val {
				if concrete {
					return absint.MkString(map[int]string{1: "f = () -> {", 2: "}"}[i])
				}
				return absint.NewVar(fmt.Sprintf("LINE%d", i), strT)
			}
			in.Hooks.Invoke = func(in *absint.Interp, recv absint.Val, m *types.Func, args []absint.Val, site ssa.Instruction) (absint.Val, bool) {
				if m.Name() == "Parse" && len(args) == 1 {
					submitted = append(submitted, args[0])
					sig := m.Type().(*types.Signature)
					return &absint.Tuple{E: []absint.Val{absint.Const{T: sig.Results().At(0).Type()}, absint.Const{T: sig.Results().At(1).Type()}}}, true
				}
				if m.Name() != "read" {
					return nil, false
				}
				reads++
				errT := m.Type().(*types.Signature).Results().At(1).Type()
				eof := func() absint.Val {
					ec := in.NewCell(absint.NewVar("eof", nil), "EOF")
					return &absint.Iface{T: types.NewPointer(intT), V: &absint.Ptr{Cell: ec}}
				}
				switch {
				case reads == 1:
					return &absint.Tuple{E: []absint.Val{line(1), absint.Const{T: errT}}}, true
				case reads == 2 && withErr:
					return &absint.Tuple{E: []absint.Val{line(2), eof()}}, true
				case reads == 2:
					return &absint.Tuple{E: []absint.Val{line(2), absint.Const{T: errT}}}, true
				}
				return &absint.Tuple{E: []absint.Val{absint.MkString(""), eof()}}, true
			}
			in.Hooks.Branch = func(in *absint.Interp, cond absint.Val, site ssa.Instruction) (bool, bool) {
				ck := absint.Key(cond)
				// a text that contains one of the (non-empty) lines is not empty
				if c, ok := cond.(*absint.Sym); ok && (c.Op == "==" || c.Op == "!=") && len(c.Args) == 2 {
					for i := 0; i < 2; i++ {
						if e, isC := absint.ConstString(c.Args[i]); isC && e == "" {
							for _, leaf := range concatLeaves(c.Args[1-i]) {
								if leaf == "LINE1" || leaf == "LINE2" {
									return c.Op == "!=", true
								}
							}
						}
					}
				}
				for i := 1; i <= 2; i++ {
					l := fmt.Sprintf("LINE%d", i)
					if isTest, saysEmpty := emptinessTest(ck, l); isTest {
						return !saysEmpty, true
					}
					if strings.Contains(ck, "len("+l+")") || strings.Contains(ck, "index("+l) || strings.Contains(ck, "strindex("+l) {
						scanned = true
					}
				}
				return false, false
			}
			in.Hooks.Call = func(in *absint.Interp, callee *ssa.Function, args []absint.Val, site ssa.Instruction) (absint.Val, bool) {
				switch {
				case callee.Name() == "processInput":
					submitted = append(submitted, args[0])
					return nil, true
				case callee.String() == "strings.Count" && !concrete:
					counted = true
					sub, _ := absint.ConstString(args[1])
					switch absint.Key(args[0]) + " " + sub {
					case "LINE1 {", "LINE2 }":
						return absint.MkInt(1), true
					}
					return absint.MkInt(0), true
				case callee.Pkg != nil && callee.Pkg.Pkg.Path() != load.ModPath+"/types/node" && !concrete:
					if callee.Signature.Results().Len() == 1 {
						return &absint.Sym{Op: callee.String(), Args: args, T: callee.Signature.Results().At(0).Type()}, true
					}
				}
				return nil, false
			}
			args := []absint.Val{absint.NewVar("READER", fn.Params[0].Type()), absint.NewVar("PARSER", fn.Params[1].Type()), absint.NewVar("VM", fn.Params[2].Type()), absint.NewVar("DOOUT", types.Typ[types.Bool])}
			_, end := in.Run(fn, args)
			if !concrete && (scanned || !counted) {
				continue // the driver scans the lines itself: judged on the concrete pair
			}
			if end != nil {
				s.Unk("P15", key, pos, "the loop could not be evaluated: "+end.Error(), in.CondLog...)
				break
			}
			var parts []string
			if len(submitted) == 1 {
				parts = concatLeaves(submitted[0])
			}
			want := []string{"LINE1", "\"\\n\"", "LINE2"}
			if concrete {
				want = []string{"\"f = () -> {\\n}\""}
			}
			if len(submitted) == 1 && strings.Join(parts, " ") == strings.Join(want, " ") {
				how := ""
				if concrete {
					how = " (the driver scans the lines itself: judged on a concrete pair of lines)"
				}
				s.OK("P15", key, pos, "one submission: the opening line, one line break, the closing line"+how)
			} else {
				var got []string
				for _, v := range submitted {
					got = append(got, strings.Join(concatLeaves(v), " + "))
				}
				s.Bad("P15", key, pos, fmt.Sprintf("a block opened on one line and closed on the next must reach the parser once, as the two lines with one line break between them; it reaches it as %d submission(s): [%s]", len(submitted), strings.Join(got, " | ")), in.CondLog...)
			}
			break
		}
	}
}

// concatLeaves flattens a string concatenation into its operands, leaving out
// empty strings.
func concatLeaves(v absint.Val) []string {
	if s, ok := v.(*absint.Sym); ok && s.Op == "+" && len(s.Args) == 2 {
		return append(concatLeaves(s.Args[0]), concatLeaves(s.Args[1])...)
	}
	if c, ok := absint.ConstString(v); ok && c == "" {
		return nil
	}
	return []string{absint.Key(v)}
}
