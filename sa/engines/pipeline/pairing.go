package pipeline

import (
	"fmt"
	"go/constant"
	"go/token"
	"go/types"
	"strings"

	"calcsa/load"
	"calcsa/oblig"

	"golang.org/x/tools/go/ssa"
)

// pairingRule (P8, P9): the two compile entry points differ in whether the
// statement's value is left on the operand stack (the compiler rules show
// ByteCode leaves exactly one value, ByteCodeNoStck none), and vm.Run takes
// the value off the stack iff it is called with true. A driver that pairs
// them wrongly leaves one slot per statement behind (or pops a value that is
// not there).
//
//	P8  in every driver, a statement compiled with ByteCode is run with
//	    Run(true) and one compiled with ByteCodeNoStck with Run(false); when
//	    the argument of Run is a variable, each compile call is guarded by a
//	    test of that very variable with the matching outcome.
//	P9  vm.Run ends with "if retResult { return m.Pop() }": the value is taken
//	    off the stack under that parameter and under nothing else.
func pairingRule(p *load.Program, s *oblig.Set) {
	n := 0
	for _, fn := range allFuncs(p) {
		var runs []*ssa.Call
		var comps []compTarget
		for _, b := range fn.Blocks {
			for _, ins := range b.Instrs {
				c, ok := ins.(*ssa.Call)
				if !ok {
					continue
				}
				nm := calleeName(&c.Call)
				switch {
				case strings.HasSuffix(nm, "vm.Type).Run"):
					runs = append(runs, c)
				default:
					comps = append(comps, resolveCompile(c)...)
				}
			}
		}
		if len(runs) == 0 || len(comps) == 0 {
			continue
		}
		for ri, r := range runs {
			n++
			key := fmt.Sprintf("%s / run #%d takes the value iff the statement was compiled to leave one", p.FuncKey(fn), ri+1)
			arg := r.Call.Args[len(r.Call.Args)-1]
			var problems []string
			reach := 0
			for _, c := range comps {
				if !reaches(c.call.Block(), r.Block()) {
					continue
				}
				reach++
				pushing := c.pushing
				if k, ok := arg.(*ssa.Const); ok {
					if k.Value == nil || k.Value.Kind() != constant.Bool {
						problems = append(problems, "Run is called with "+k.String())
					} else if constant.BoolVal(k.Value) != pushing {
						problems = append(problems, fmt.Sprintf("%s (%s) is followed by Run(%v)", shortName(c.name), p.Pos(c.call.Pos()), constant.BoolVal(k.Value)))
					}
					continue
				}
				if !c.guarded(arg) {
					problems = append(problems, fmt.Sprintf("%s (%s) is not guarded by a test that %s is %v", shortName(c.name), p.Pos(c.call.Pos()), arg.Name(), pushing))
				}
			}
			if reach == 0 {
				problems = append(problems, "no compile call reaches this Run")
			}
			if len(problems) == 0 {
				s.OK("P8", key, p.Pos(r.Pos()), fmt.Sprintf("%d compile call(s) reach it, each paired with the matching argument", reach))
			} else {
				s.Bad("P8", key, p.Pos(r.Pos()), "ByteCode leaves the statement's value on the operand stack and needs Run(true), ByteCodeNoStck leaves nothing and needs Run(false); otherwise every statement leaves a slot behind or Run pops a value that is not there: "+strings.Join(problems, "; "))
			}
		}
	}
	if n < 2 {
		s.Unk("P8", "drivers", "-", fmt.Sprintf("expected at least 2 Run call sites in drivers (processInput, -eval), found %d", n))
	}

	// the flag travels unchanged from the driver to processInput
	if loop := p.Func("types/node", "Loop"); loop != nil {
		var flagP *ssa.Parameter
		for _, prm := range loop.Params {
			if b, ok := prm.Type().Underlying().(*types.Basic); ok && b.Kind() == types.Bool {
				flagP = prm
			}
		}
		k := "node.Loop / hands its output flag to processInput unchanged"
		found, good := 0, 0
		for _, b := range loop.Blocks {
			for _, ins := range b.Instrs {
				if c, ok := ins.(*ssa.Call); ok && strings.HasSuffix(calleeName(&c.Call), "node.processInput") {
					found++
					for _, a := range c.Call.Args {
						if flagP != nil && a == ssa.Value(flagP) {
							good++
						}
					}
				}
			}
		}
		// Loop may run the statements itself (processInput inlined): its own
		// calls of Run are then judged like any driver's above, and the flag
		// they are given must be Loop's
		if found == 0 && flagP != nil {
			for _, b := range loop.Blocks {
				for _, ins := range b.Instrs {
					if c, ok := ins.(*ssa.Call); ok && strings.HasSuffix(calleeName(&c.Call), "vm.Type).Run") {
						found++
						for _, a := range c.Call.Args {
							if a == ssa.Value(flagP) {
								good++
							}
						}
					}
				}
			}
		}
		if flagP != nil && found > 0 && good == found {
			s.OK("P8", k, p.Pos(loop.Pos()), fmt.Sprintf("%d call(s), each passes %s", found, flagP.Name()))
		} else {
			s.Bad("P8", k, p.Pos(loop.Pos()), "script mode (false) and the REPL (true) differ only in that flag; every statement must be processed under the flag the driver chose")
		}
	} else {
		s.Unk("ANCHOR", "node.Loop", "-", "not found")
	}

	// P9
	run := p.Method("vm", "Type", "Run")
	if run == nil || len(run.Params) < 2 {
		s.Unk("ANCHOR", "vm.Type.Run", "-", "method not found")
		return
	}
	flag := run.Params[1]
	key := "vm.Run / takes the result off the stack iff asked to"
	pos := p.Pos(run.Pos())
	var tests []*ssa.If
	for _, b := range run.Blocks {
		if len(b.Instrs) == 0 {
			continue
		}
		if iff, ok := b.Instrs[len(b.Instrs)-1].(*ssa.If); ok && iff.Cond == ssa.Value(flag) {
			// the test that ends Run: both outcomes return
			ends := true
			for _, sc := range b.Succs {
				if len(sc.Instrs) == 0 {
					ends = false
					continue
				}
				if _, isRet := sc.Instrs[len(sc.Instrs)-1].(*ssa.Return); !isRet {
					ends = false
				}
			}
			if ends {
				tests = append(tests, iff)
			}
		}
	}
	if len(tests) != 1 {
		s.Bad("P9", key, pos, fmt.Sprintf("expected exactly one test of the parameter %s whose outcomes both return, found %d", flag.Name(), len(tests)))
		return
	}
	tb, fb := tests[0].Block().Succs[0], tests[0].Block().Succs[1]
	popRet := func(b *ssa.BasicBlock) (pops int, returnsPop bool, returns bool) {
		var popV ssa.Value
		for _, ins := range b.Instrs {
			switch x := ins.(type) {
			case *ssa.Call:
				if strings.HasSuffix(calleeName(&x.Call), "memory.Type).Pop") {
					pops++
					popV = x
				}
			case *ssa.Return:
				returns = true
				if len(x.Results) > 0 && popV != nil && x.Results[0] == popV {
					returnsPop = true
				}
			}
		}
		return
	}
	tp, tr, tret := popRet(tb)
	fp, _, fret := popRet(fb)
	// no other Pop-and-return outside the dispatch loop: the handlers' pops are fetches (V-rules)
	if tp == 1 && tr && tret && fp == 0 && fret {
		s.OK("P9", key, pos, "if "+flag.Name()+" { return m.Pop() }; otherwise returns without touching the stack")
	} else {
		s.Bad("P9", key, pos, fmt.Sprintf("when asked for the result Run must pop exactly one value and return it, otherwise leave the stack alone: true branch pops %d (returned: %v), false branch pops %d", tp, tr, fp))
	}
}

func shortName(n string) string {
	if i := strings.LastIndex(n, "/"); i >= 0 {
		return n[i+1:]
	}
	return n
}

// reaches: b can reach c along control flow (or is the same block).
func reaches(b, c *ssa.BasicBlock) bool {
	seen := map[*ssa.BasicBlock]bool{}
	var walk func(x *ssa.BasicBlock) bool
	walk = func(x *ssa.BasicBlock) bool {
		if x == c {
			return true
		}
		if seen[x] {
			return false
		}
		seen[x] = true
		for _, s := range x.Succs {
			if walk(s) {
				return true
			}
		}
		return false
	}
	return walk(b)
}

// guardedBy: block b only executes when v has the value want: some dominator
// of b ends in "if v" and b is dominated by the successor of the matching
// outcome, which is entered only from that test.
func guardedBy(b *ssa.BasicBlock, v ssa.Value, want bool) bool {
	for d := b; d != nil; d = d.Idom() {
		id := d.Idom()
		if id == nil || len(id.Instrs) == 0 {
			continue
		}
		iff, ok := id.Instrs[len(id.Instrs)-1].(*ssa.If)
		if !ok {
			continue
		}
		cond, w := iff.Cond, want
		for {
			u, isNot := cond.(*ssa.UnOp)
			if !isNot || u.Op != token.NOT {
				break
			}
			cond, w = u.X, !w
		}
		if cond != v {
			continue
		}
		ix := 1
		if w {
			ix = 0
		}
		if id.Succs[ix] == d && len(d.Preds) == 1 && id.Succs[1-ix] != d {
			return true
		}
	}
	return false
}

// compTarget is one compile entry point a call may enter: the callee of a
// direct call, or one incoming value of a function variable that is chosen
// between the two entry points before it is called.
type compTarget struct {
	call    *ssa.Call
	name    string
	pushing bool
	// for a chosen function value: the control edge on which it is chosen
	pred, blk *ssa.BasicBlock
}

// guarded: the target is entered only when v has the value the target needs.
func (c compTarget) guarded(v ssa.Value) bool {
	if c.pred == nil {
		return guardedBy(c.call.Block(), v, c.pushing)
	}
	// the edge pred -> blk is itself the outcome of a test of v
	if len(c.pred.Instrs) > 0 {
		if iff, ok := c.pred.Instrs[len(c.pred.Instrs)-1].(*ssa.If); ok {
			cond, w := iff.Cond, c.pushing
			for {
				u, isNot := cond.(*ssa.UnOp)
				if !isNot || u.Op != token.NOT {
					break
				}
				cond, w = u.X, !w
			}
			ix := 1
			if w {
				ix = 0
			}
			if cond == v && c.pred.Succs[ix] == c.blk && c.pred.Succs[1-ix] != c.blk {
				return true
			}
		}
	}
	return guardedBy(c.pred, v, c.pushing)
}

func isCompileName(n string) (pushing, ok bool) {
	switch {
	case strings.HasSuffix(n, "node.ByteCode"):
		return true, true
	case strings.HasSuffix(n, "node.ByteCodeNoStck"):
		return false, true
	}
	return false, false
}

// resolveCompile lists the compile entry points call c may enter; nil when it
// is not (known to be) a call of the compiler.
func resolveCompile(c *ssa.Call) []compTarget {
	if f := c.Call.StaticCallee(); f != nil {
		if push, ok := isCompileName(f.String()); ok {
			return []compTarget{{call: c, name: f.String(), pushing: push}}
		}
		return nil
	}
	if c.Call.IsInvoke() {
		return nil
	}
	ph, ok := strip(c.Call.Value).(*ssa.Phi)
	if !ok {
		return nil
	}
	var out []compTarget
	for i, e := range ph.Edges {
		if strip(e) == ssa.Value(ph) {
			continue // the variable carried round a loop unchanged
		}
		f, isF := strip(e).(*ssa.Function)
		if !isF {
			return nil
		}
		push, ok := isCompileName(f.String())
		if !ok {
			return nil
		}
		out = append(out, compTarget{call: c, name: f.String(), pushing: push, pred: ph.Block().Preds[i], blk: ph.Block()})
	}
	return out
}
