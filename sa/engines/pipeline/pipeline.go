// Package pipeline checks the drivers (cmd/calc main, node.processInput,
// node.Loop, builtin.Load): the same Parse -> STRewrite -> ByteCode -> Run
// chain in every mode, nothing compiled or run after a parse error, every
// statement of the parse result, no input line dropped.
package pipeline

import (
	"fmt"
	"go/token"
	"go/types"
	"os"
	"strings"

	"calcsa/absint"
	"calcsa/load"
	"calcsa/oblig"

	"golang.org/x/tools/go/ssa"
)

func Run(p *load.Program, tier string) *oblig.Set {
	s := oblig.NewSet()
	drivers := 0
	for _, fn := range allFuncs(p) {
		if pc := parseCall(fn); pc != nil {
			drivers++
			checkDriver(p, s, fn, pc)
		}
	}
	if drivers < 2 {
		s.Unk("ANCHOR", "drivers", "-", fmt.Sprintf("expected at least 2 functions that parse and execute (processInput, main), found %d", drivers))
	}
	s.Count("drivers", drivers)
	// builtin.Load: trees are rewritten before they are compiled
	if fn := p.Func("builtin", "Load"); fn != nil {
		checkCompileCalls(p, s, fn, nil)
	} else {
		s.Unk("ANCHOR", "builtin.Load", "-", "not found")
	}
	loopRule(p, s)
	boundaryRule(p, s)
	joinRule(p, s)
	pkgStateRule(p, s)
	readerRule(p, s)
	segmentsRule(p, s)
	recoverRule(p, s)
	pairingRule(p, s)
	reportTextRule(p, s)
	caretRule(p, s)
	return s
}

func allFuncs(p *load.Program) []*ssa.Function {
	var out []*ssa.Function
	for _, rel := range []string{"cmd/calc", "types/node", "builtin"} {
		sp := p.SPkg(rel)
		if sp == nil {
			continue
		}
		for _, m := range sp.Members {
			if fn, ok := m.(*ssa.Function); ok && fn.Blocks != nil {
				out = append(out, fn)
			}
		}
	}
	return out
}

func calleeName(c *ssa.CallCommon) string {
	if c.IsInvoke() {
		return "iface." + c.Method.Name()
	}
	if f := c.StaticCallee(); f != nil {
		return f.String()
	}
	return ""
}

// parseCall finds the call that parses source text: parser.Parse or an
// interface method Parse returning (trees, error).
func parseCall(fn *ssa.Function) *ssa.Call {
	for _, b := range fn.Blocks {
		for _, ins := range b.Instrs {
			c, ok := ins.(*ssa.Call)
			if !ok {
				continue
			}
			n := calleeName(&c.Call)
			if (n == "iface.Parse" || strings.HasSuffix(n, "/parser.Parse")) && c.Call.Signature().Results().Len() == 2 {
				return c
			}
		}
	}
	return nil
}

func isExec(n string) bool {
	return strings.HasSuffix(n, "node.ByteCode") || strings.HasSuffix(n, "node.ByteCodeNoStck") || strings.HasSuffix(n, "vm.Type).Run") || strings.HasSuffix(n, ".STRewrite")
}

// checkDriver: P1 (nothing executed after a parse error) and P2.
func checkDriver(p *load.Program, s *oblig.Set, fn *ssa.Function, pc *ssa.Call) {
	key := p.FuncKey(fn)
	pos := p.Pos(pc.Pos())
	// the error value
	var errV, treesV ssa.Value
	for _, r := range *pc.Referrers() {
		if ex, ok := r.(*ssa.Extract); ok {
			if ex.Index == 1 {
				errV = ex
			} else {
				treesV = ex
			}
		}
	}
	if errV == nil || treesV == nil {
		s.Bad("P1", key+" / parse error is examined", pos, "the error result of the parser is not even extracted")
		return
	}
	// blocks reachable while the error is known to be non-nil
	isNilTest := func(v ssa.Value) (neq bool, ok bool) {
		bo, isB := v.(*ssa.BinOp)
		if !isB || (bo.Op != token.NEQ && bo.Op != token.EQL) {
			return false, false
		}
		if (bo.X == errV && isNilConst(bo.Y)) || (bo.Y == errV && isNilConst(bo.X)) {
			return bo.Op == token.NEQ, true
		}
		return false, false
	}
	seen := map[*ssa.BasicBlock]bool{}
	var bad []string
	var walk func(b *ssa.BasicBlock, startAfter ssa.Instruction)
	walk = func(b *ssa.BasicBlock, startAfter ssa.Instruction) {
		if seen[b] && startAfter == nil {
			return
		}
		if startAfter == nil {
			seen[b] = true
		}
		started := startAfter == nil
		for _, ins := range b.Instrs {
			if !started {
				if ins == startAfter {
					started = true
				}
				continue
			}
			if c, ok := ins.(ssa.CallInstruction); ok {
				if n := calleeName(c.Common()); isExec(n) {
					bad = append(bad, fmt.Sprintf("%s at %s", n, p.Pos(ins.Pos())))
				} else if cc, isCall := ins.(*ssa.Call); isCall && len(resolveCompile(cc)) > 0 {
					bad = append(bad, fmt.Sprintf("the compiler (through a function value) at %s", p.Pos(ins.Pos())))
				}
			}
			if iff, ok := ins.(*ssa.If); ok {
				if neq, isT := isNilTest(iff.Cond); isT {
					if neq {
						walk(b.Succs[0], nil)
					} else {
						walk(b.Succs[1], nil)
					}
					return
				}
			}
		}
		for _, sc := range b.Succs {
			walk(sc, nil)
		}
	}
	walk(pc.Block(), pc)
	if len(bad) == 0 {
		s.OK("P1", key+" / nothing is compiled or run after a parse error", pos, "no STRewrite / ByteCode / Run call is reachable while the parse error is non-nil")
	} else {
		s.Bad("P1", key+" / nothing is compiled or run after a parse error", pos, "reachable although the parser reported an error: "+strings.Join(bad, ", "))
	}
	checkCompileCalls(p, s, fn, treesV)
}

func isNilConst(v ssa.Value) bool {
	c, ok := v.(*ssa.Const)
	return ok && c.Value == nil
}

// checkCompileCalls (P2): every tree handed to the compiler is the result of
// STRewrite applied to an element of the parse result, for every element; and
// every compilation is followed by a Run (drivers only).
func checkCompileCalls(p *load.Program, s *oblig.Set, fn *ssa.Function, trees ssa.Value) {
	key := p.FuncKey(fn)
	n := 0
	for _, b := range fn.Blocks {
		for _, ins := range b.Instrs {
			c, ok := ins.(*ssa.Call)
			if !ok {
				continue
			}
			tg := resolveCompile(c)
			if len(tg) == 0 {
				continue
			}
			name := tg[0].name
			for _, t := range tg[1:] {
				name += "|" + t.name[strings.LastIndex(t.name, ".")+1:]
			}
			n++
			k := fmt.Sprintf("%s / tree compiled by %s", key, name[strings.LastIndex(name, ".")+1:])
			pos := p.Pos(c.Pos())
			src := strip(c.Call.Args[0])
			rw, isCall := src.(*ssa.Call)
			if !isCall || !strings.HasSuffix(calleeName(&rw.Call), ".STRewrite") {
				s.Bad("P2", k, pos, "the tree handed to the compiler is not the result of STRewrite: names are not resolved to locals/closures, so parameters and locals are looked up as globals")
				continue
			}
			// the symbol table it is rewritten with is empty (top level)
			stOK := false
			if len(rw.Call.Args) >= 1 {
				stArg := rw.Call.Args[len(rw.Call.Args)-1]
				if sl, ok := strip(stArg).(*ssa.Slice); ok {
					if al, ok := sl.X.(*ssa.Alloc); ok {
						if arr, ok := al.Type().Underlying().(*types.Pointer).Elem().Underlying().(*types.Array); ok && arr.Len() == 0 {
							stOK = true
						}
					}
				}
				if cst, ok := strip(stArg).(*ssa.Const); ok && cst.Value == nil {
					stOK = true
				}
			}
			if !stOK {
				s.Bad("P2", k+" / top-level symbol table", pos, "a top-level statement must be rewritten with an empty symbol table")
			}
			if trees == nil {
				s.OK("P2", k, pos, "STRewrite result compiled")
				continue
			}
			// receiver: element of the parse result at a loop index
			recv := strip(rw.Call.Value)
			okElem := false
			if ld, ok := recv.(*ssa.UnOp); ok && ld.Op == token.MUL {
				if ia, ok := ld.X.(*ssa.IndexAddr); ok && strip(ia.X) == trees {
					if _, isConst := ia.Index.(*ssa.Const); !isConst && rangesAll(ia.Index, trees) {
						okElem = true
					}
				}
			}
			if okElem {
				s.OK("P2", k, pos, "every element of the parse result is rewritten and compiled")
			} else {
				s.Bad("P2", k, pos, "the tree compiled is not taken from a loop over every statement of the parse result (only some statements of the input would be executed)")
			}
			// the loop over the statements is left only when they are used up
			if okElem {
				if exits := earlyExits(c.Block(), trees); len(exits) > 0 {
					var where []string
					for _, x := range exits {
						where = append(where, p.Pos(x))
					}
					s.Bad("P2", k+" / every statement of the input is executed", pos, "the loop over the statements of one input is left before they are used up (at "+strings.Join(where, ", ")+"): after a failing statement the rest of the same input is silently dropped, while the same statements on separate lines would run")
				} else {
					s.OK("P2", k+" / every statement of the input is executed", pos, "the loop over the parse result has no exit but its bound test")
				}
			}
			// each statement is run before the next one is compiled: the Run that
			// executes it belongs to the same round of the loop
			if okElem {
				inRound := false
				for _, x := range c.Parent().Blocks {
					if !(reaches(c.Block(), x) && reaches(x, c.Block())) {
						continue
					}
					for _, ins2 := range x.Instrs {
						if cc, ok := ins2.(ssa.CallInstruction); ok && strings.HasSuffix(calleeName(cc.Common()), "vm.Type).Run") {
							inRound = true
						}
					}
				}
				if inRound {
					s.OK("P2", k+" / run before the next statement is compiled", pos, "Run is called in the same round of the statement loop")
				} else {
					s.Bad("P2", k+" / run before the next statement is compiled", pos, "the statements of one input are all compiled before anything runs: a top-level return or a runtime error in one statement skips the statements after it, and only the last value is shown, while script mode and the REPL run statement by statement")
				}
			}
			// followed by Run
			if !reachesRun(c) {
				s.Bad("P2", k+" / executed", pos, "the compiled statement is not executed (no vm.Run after the compilation)")
			}
		}
	}
	if n == 0 {
		s.Bad("P2", key+" / compiles", p.Pos(fn.Pos()), "the driver never calls the compiler")
	}
}

func strip(v ssa.Value) ssa.Value {
	for {
		switch x := v.(type) {
		case *ssa.ChangeInterface:
			v = x.X
		case *ssa.MakeInterface:
			v = x.X
		case *ssa.ChangeType:
			v = x.X
		default:
			return v
		}
	}
}

// rangesAll: idx is `phi + 1` of a range loop bounded by len(trees).
func rangesAll(idx ssa.Value, trees ssa.Value) bool {
	bo, ok := idx.(*ssa.BinOp)
	if !ok || bo.Op != token.ADD {
		// for i := 0; i < len(t); i++ form: idx is the phi itself
		ph, isPhi := idx.(*ssa.Phi)
		if !isPhi {
			return false
		}
		return phiBoundedByLen(ph, ph, trees, 0)
	}
	ph, ok := bo.X.(*ssa.Phi)
	one, ok2 := bo.Y.(*ssa.Const)
	if !ok || !ok2 || one.Int64() != 1 {
		return false
	}
	return phiBoundedByLen(ph, bo, trees, -1)
}

func phiBoundedByLen(ph *ssa.Phi, tested ssa.Value, trees ssa.Value, start int64) bool {
	// initial value
	okStart := false
	for _, e := range ph.Edges {
		if c, ok := e.(*ssa.Const); ok && c.Int64() == start {
			okStart = true
		}
	}
	if !okStart {
		return false
	}
	for _, r := range *tested.Referrers() {
		if cmp, ok := r.(*ssa.BinOp); ok && cmp.Op == token.LSS && cmp.X == tested {
			if l, ok := cmp.Y.(*ssa.Call); ok {
				if b, ok := l.Call.Value.(*ssa.Builtin); ok && b.Name() == "len" && strip(l.Call.Args[0]) == trees {
					return true
				}
			}
		}
	}
	return false
}

func reachesRun(c *ssa.Call) bool {
	seen := map[*ssa.BasicBlock]bool{}
	var walk func(b *ssa.BasicBlock, after ssa.Instruction) bool
	walk = func(b *ssa.BasicBlock, after ssa.Instruction) bool {
		if after == nil {
			if seen[b] {
				return false
			}
			seen[b] = true
		}
		started := after == nil
		for _, ins := range b.Instrs {
			if !started {
				started = ins == after
				continue
			}
			if cc, ok := ins.(ssa.CallInstruction); ok && strings.HasSuffix(calleeName(cc.Common()), "vm.Type).Run") {
				return true
			}
		}
		for _, s := range b.Succs {
			if walk(s, nil) {
				return true
			}
		}
		return false
	}
	return walk(c.Block(), c)
}

// loopRule (P3, P4): node.Loop interpreted for up to two reads.
func loopRule(p *load.Program, s *oblig.Set) {
	fn := p.Func("types/node", "Loop")
	if fn == nil {
		s.Unk("ANCHOR", "node.Loop", "-", "not found")
		return
	}
	pos := p.Pos(fn.Pos())
	type res struct {
		conds       []string
		processed   []string
		counts      []string
		end         string
		err1        bool
		lineEmpty   bool
		accumulated bool // LINE1 was appended to the pending input
		scanned     bool // the driver looked at the bytes of the line itself (no strings.Count)
		condV       []absint.CondRec
	}
	var all []res
	o := &absint.Oracle{}
	for n := 0; n < 3000; n++ {
		in := absint.NewInterp(p.SSA, o)
		in.MaxStep = 50000
		r := res{}
		reads := 0
		in.Hooks.Invoke = func(in *absint.Interp, recv absint.Val, m *types.Func, args []absint.Val, site ssa.Instruction) (absint.Val, bool) {
			if m.Name() == "Parse" && len(args) == 1 {
				// processInput inlined: the pending input goes to the parser here;
				// what the parser answers is of no interest to the line loop
				r.processed = append(r.processed, absint.Key(args[0]))
				sig := m.Type().(*types.Signature)
				return &absint.Tuple{E: []absint.Val{absint.Const{T: sig.Results().At(0).Type()}, absint.Const{T: sig.Results().At(1).Type()}}}, true
			}
			if m.Name() == "read" {
				reads++
				errT := m.Type().(*types.Signature).Results().At(1).Type()
				if reads == 1 {
					line := absint.NewVar("LINE1", types.Typ[types.String])
					if in.Oracle.Choose(2, "read error") == 0 {
						return &absint.Tuple{E: []absint.Val{line, absint.Const{T: errT}}}, true
					}
					r.err1 = true
					ec := in.NewCell(absint.NewVar("eof", nil), "EOF")
					return &absint.Tuple{E: []absint.Val{line, &absint.Iface{T: types.NewPointer(types.Typ[types.Int]), V: &absint.Ptr{Cell: ec}}}}, true
				}
				ec := in.NewCell(absint.NewVar("eof", nil), "EOF")
				return &absint.Tuple{E: []absint.Val{absint.MkString(""), &absint.Iface{T: types.NewPointer(types.Typ[types.Int]), V: &absint.Ptr{Cell: ec}}}}, true
			}
			return nil, false
		}
		// whether the line that came with the error is empty is one choice per
		// path, however the code spells the test
		lineEmpty := -1
		loopIter := map[string]int{}
		in.Hooks.BinOp = func(in *absint.Interp, op token.Token, x, y absint.Val, t types.Type) (absint.Val, bool) {
			if op == token.ADD && (strings.Contains(absint.Key(x), "LINE1") || strings.Contains(absint.Key(y), "LINE1")) {
				r.accumulated = true // the line is joined to the pending input
			}
			return nil, false
		}
		in.Hooks.Branch = func(in *absint.Interp, cond absint.Val, site ssa.Instruction) (bool, bool) {
			ck := absint.Key(cond)
			isTest, saysEmpty := emptinessTest(ck, "LINE1")
			if !isTest {
				// a loop over the bytes of the line: two rounds, then out
				if strings.Contains(ck, "len(LINE1)") && (strings.HasPrefix(ck, "<(") || strings.HasPrefix(ck, ">(") || strings.HasPrefix(ck, "<=(") || strings.HasPrefix(ck, ">=(")) {
					p := fmt.Sprint(site.Pos())
					loopIter[p]++
					r.scanned = true
					if loopIter[p] > 2 {
						// leave the loop: the comparison is false for "<"/"<=" headers
						return strings.HasPrefix(ck, ">"), true
					}
				}
				if strings.Contains(ck, "index(LINE1") || strings.Contains(ck, "strindex(LINE1") {
					r.scanned = true
				}
				return false, false
			}
			if lineEmpty < 0 {
				lineEmpty = in.Oracle.Choose(2, "LINE1 is empty")
			}
			r.lineEmpty = lineEmpty == 1
			return saysEmpty == (lineEmpty == 1), true
		}
		in.Hooks.Call = func(in *absint.Interp, callee *ssa.Function, args []absint.Val, site ssa.Instruction) (absint.Val, bool) {
			switch {
			case callee.Name() == "processInput":
				r.processed = append(r.processed, absint.Key(args[0]))
				return nil, true
			case callee.String() == "strings.Count":
				r.counts = append(r.counts, absint.Key(args[0])+" / "+absint.Key(args[1]))
				return &absint.Sym{Op: "count", Args: args, T: types.Typ[types.Int]}, true
			case callee.Pkg != nil && callee.Pkg.Pkg.Path() != load.ModPath+"/types/node":
				var t types.Type
				if callee.Signature.Results().Len() >= 1 {
					t = callee.Signature.Results().At(0).Type()
				}
				if callee.Signature.Results().Len() > 1 {
					tu := &absint.Tuple{}
					for i := 0; i < callee.Signature.Results().Len(); i++ {
						tu.E = append(tu.E, &absint.Sym{Op: fmt.Sprintf("%s.%d", callee.String(), i), Args: args, T: callee.Signature.Results().At(i).Type()})
					}
					return tu, true
				}
				return &absint.Sym{Op: callee.String(), Args: args, T: t}, true
			}
			return nil, false
		}
		args := []absint.Val{absint.NewVar("READER", fn.Params[0].Type()), absint.NewVar("PARSER", fn.Params[1].Type()), absint.NewVar("VM", fn.Params[2].Type()), absint.NewVar("DOOUT", types.Typ[types.Bool])}
		_, end := in.Run(fn, args)
		r.conds = append([]string(nil), in.CondLog...)
		r.condV = append([]absint.CondRec(nil), in.CondV...)
		if end != nil {
			r.end = end.Error()
		} else {
			r.end = "return"
		}
		all = append(all, r)
		if !o.Next() {
			break
		}
	}
	s.Count("loop_paths", len(all))
	// P3: a last line that arrives together with the read error is processed
	key := "node.Loop / a line returned together with a read error is processed"
	found, okP3 := false, true
	var witness []string
	nLine := 0
	var dropped []string
	for _, r := range all {
		if r.end != "return" {
			s.Unk("P3", "node.Loop / path", pos, "path could not be evaluated: "+r.end, r.conds...)
			okP3 = false
			continue
		}
		if !r.err1 {
			// a line that was read without error and completes a statement is
			// handed to processInput whatever it looks like (P3b)
			// whatever it looks like, the line joins the pending input (and is
			// parsed with it once the statement is complete)
			if !r.lineEmpty {
				nLine++
				if !r.accumulated && dropped == nil {
					dropped = r.conds
				}
			}
			continue
		}
		// the statement is complete: every balance test says so
		complete := true
		nonEmpty := true
		if r.lineEmpty {
			nonEmpty = false
		}
		// "complete" however the balance tests are spelt (== 0, <= 0, a helper):
		// the decisions of the path must be what they are for a line in which
		// every counted character occurs zero times
		for _, c := range r.condV {
			if !strings.Contains(absint.Key(c.V), "count(") {
				continue
			}
			if v, ok := truthAtZero(c.V); ok && v != c.B {
				complete = false
			} else if !ok {
				complete = false // not a comparison the rule can evaluate: the path is no witness
			}
		}
		if !complete || !nonEmpty {
			continue
		}
		if r.scanned {
			// the balance was computed by the driver's own scan of the line: which
			// paths are "complete" is not visible here; such a path counts only as
			// a witness that the line can be processed
			for _, pi := range r.processed {
				if strings.Contains(pi, "LINE1") {
					found = true
				}
			}
			continue
		}
		found = true
		has := false
		for _, pi := range r.processed {
			if strings.Contains(pi, "LINE1") {
				has = true
			}
		}
		if !has {
			okP3 = false
			witness = r.conds
		}
	}
	keyB := "node.Loop / every line read reaches the parser"
	switch {
	case dropped != nil:
		s.Bad("P3", keyB, pos, "a line that was read without error is not joined to the pending input: the driver drops source text on its own judgement (such a line may be part of a multi-line string literal, or mean something the driver does not know)", dropped...)
	case nLine == 0:
		s.Unk("P3", keyB, pos, "no path found on which a complete line is read without error")
	default:
		s.OK("P3", keyB, pos, fmt.Sprintf("%d path(s): every non-empty line read without error is joined to the pending input", nLine))
	}
	switch {
	case found && okP3:
		s.OK("P3", key, pos, "on every path where the reader returns (line, error) with a non-empty, complete line, the line is handed to processInput")
	case !found:
		s.Bad("P3", key, pos, "no path processes a line that arrives together with the read error: bufio.Reader.ReadString returns the final unterminated line with io.EOF, so the last statement of a file without trailing line break is dropped")
	default:
		s.Bad("P3", key, pos, "a non-empty line returned together with the read error is dropped", witness...)
	}
	// P4b: the balance is computed on the very line that is appended to the input
	keyb := "node.Loop / statement boundaries are computed on the text that is parsed"
	badCount := ""
	ncount := 0
	for _, r := range all {
		for _, c := range r.counts {
			ncount++
			if !strings.HasPrefix(c, "LINE1 / ") && !strings.HasPrefix(c, "\"\" / ") {
				badCount = c
			}
		}
		for _, pi := range r.processed {
			if !strings.Contains(pi, "LINE1") && pi != "\"\"" && !strings.HasPrefix(pi, "+(") {
				badCount = "processInput(" + pi + ")"
			}
		}
	}
	anyScanned := false
	for _, r := range all {
		if r.scanned {
			anyScanned = true
		}
	}
	if badCount == "" && ncount > 0 {
		s.OK("P4b", keyb, pos, "every strings.Count runs on the line as read, and the accumulated lines are handed to the parser unchanged")
	} else if badCount == "" && anyScanned {
		s.OK("P4b", keyb, pos, "the driver scans the bytes of the line as read itself, and the accumulated lines are handed to the parser unchanged")
	} else {
		s.Bad("P4b", keyb, pos, "the open-block / open-quote / open-bracket balance is computed on a modified copy of the line ("+badCount+"): what is counted is not what is parsed")
	}
	// P4: (known finding) the boundary heuristic is lexically blind
	// the finding is recorded for the characters the reference tree counts; a
	// further character counted the same blind way is a further way of
	// swallowing a script, reported on its own
	recorded := map[string]bool{`"{"`: true, `"}"`: true, `"["`: true, `"]"`: true, `"\""`: true, `"\\\""`: true}
	extra := map[string]bool{}
	for _, r := range all {
		for _, c := range r.counts {
			if i := strings.Index(c, " / "); i >= 0 && !recorded[c[i+3:]] {
				extra[c[i+3:]] = true
			}
		}
	}
	for _, sub := range load.SortedKeys(extra) {
		s.Bad("P4", "node.Loop / statement boundaries ignore lexical context: occurrences of "+sub+" are counted too", pos, "the driver also counts the raw occurrences of "+sub+" in each line to decide where a statement ends; inside a string literal or a comment they are counted as well, so a line such as write(\"1) done\") keeps the driver waiting and the rest of the script or session is swallowed, while -eval runs the same statement")
	}
	if ncount > 0 {
		s.Bad("P4", "node.Loop / statement boundaries ignore lexical context", pos, "statement boundaries are found by counting the raw characters { } [ ] \" of each line; braces, brackets and quotes inside string literals and comments are counted too, so such a line swallows the rest of the script")
	} else {
		s.OK("P4", "node.Loop / statement boundaries ignore lexical context", pos, "no raw character counting")
	}
}

// readerRule (P3b): the file reader returns whole lines of any length.
func readerRule(p *load.Program, s *oblig.Set) {
	fn := p.Method("types/node", "FReader", "read")
	if fn == nil {
		s.Unk("ANCHOR", "node.FReader.read", "-", "not found")
		return
	}
	pos := p.Pos(fn.Pos())
	key := "node.FReader.read / returns whole lines of any length"
	key10 := "node.FReader.read / hands out lines without their line break, like the interactive reader"
	// what the method returns, with the buffered reader's calls opaque
	o := &absint.Oracle{}
	in := absint.NewInterp(p.SSA, o)
	var reads []string
	hook := func(in *absint.Interp, callee *ssa.Function, args []absint.Val, site ssa.Instruction) (absint.Val, bool) {
		if callee.Pkg != nil && callee.Pkg.Pkg.Path() == "bufio" {
			var ks []string
			for _, a := range args[1:] {
				ks = append(ks, absint.Key(a))
			}
			reads = append(reads, callee.Name()+"("+strings.Join(ks, ",")+")")
			tu := &absint.Tuple{}
			for i := 0; i < callee.Signature.Results().Len(); i++ {
				tu.E = append(tu.E, &absint.Sym{Op: fmt.Sprintf("%s.%d", callee.Name(), i), T: callee.Signature.Results().At(i).Type()})
			}
			if len(tu.E) == 1 {
				return tu.E[0], true
			}
			return tu, true
		}
		return nil, false
	}
	recv := absint.NewVar("FR", fn.Params[0].Type())
	if st, ok := fn.Params[0].Type().Underlying().(*types.Struct); ok {
		z := absint.Zero(fn.Params[0].Type()).(*absint.Struct)
		f := append([]absint.Val(nil), z.F...)
		for i := 0; i < st.NumFields(); i++ {
			f[i] = absint.NewVar("FR."+st.Field(i).Name(), st.Field(i).Type())
		}
		recv = nil
		// every path through the method: what was read, what is returned, under
		// which decisions
		type rpath struct {
			reads     []string
			line, err string
			conds     map[string]bool
		}
		var paths []rpath
		for n := 0; ; n++ {
			o.Reset()
			in = absint.NewInterp(p.SSA, o)
			in.Hooks.Call = hook
			reads = nil
			res, end := in.Run(fn, []absint.Val{&absint.Struct{T: fn.Params[0].Type(), F: f}})
			tu, _ := res.(*absint.Tuple)
			if end != nil || tu == nil || len(tu.E) != 2 || n > 64 {
				s.Unk("P3", key, pos, fmt.Sprintf("the reader could not be evaluated: %v", end))
				return
			}
			cs := map[string]bool{}
			for k, v := range in.Conds {
				cs[strings.ReplaceAll(k, "()", "")] = v
			}
			paths = append(paths, rpath{append([]string(nil), reads...), strings.ReplaceAll(absint.Key(tu.E[0]), "()", ""), strings.ReplaceAll(absint.Key(tu.E[1]), "()", ""), cs})
			if !o.Next() {
				break
			}
		}
		whole := true
		var lines []string
		for _, pt := range paths {
			if !(len(pt.reads) == 1 && pt.reads[0] == "ReadString(10)" && pt.err == "ReadString.1" && strings.Contains(pt.line, "ReadString.0")) {
				whole = false
			}
			lines = append(lines, fmt.Sprintf("(%s, %s) after %v", pt.line, pt.err, pt.reads))
		}
		if whole {
			s.OK("P3", key, pos, "bufio.Reader.ReadString('\\n'): unbounded line length, data returned together with io.EOF; the error is handed on unchanged")
		} else {
			s.Bad("P3", key, pos, fmt.Sprintf("the script reader must return each line whole whatever its length and hand back the final unterminated line together with the read error (bufio.Reader.ReadString('\\n')); it returns %s: a size-limited reader (bufio.Scanner, ReadLine) drops or splits long lines", strings.Join(lines, "; ")))
		}
		// P10: Loop puts one line break between the lines of a statement; the
		// interactive reader delivers lines without terminator, so must this one
		var bad []string
		for _, pt := range paths {
			if os.Getenv("CALCSA_DEBUG_READER") != "" {
				fmt.Fprintf(os.Stderr, "reader path: line=%s err=%s conds=%v\n", pt.line, pt.err, pt.conds)
			}
			if !stripsBreak(pt.line, pt.conds) {
				bad = append(bad, pt.line)
			}
		}
		if len(bad) == 0 {
			s.OK("P10", key10, pos, fmt.Sprintf("%d path(s): %s", len(paths), strings.Join(lines, "; ")))
		} else {
			s.Bad("P10", key10, pos, "node.Loop joins the lines of a multi-line statement with a line break of its own; the readline based reader returns lines without their terminator, the script reader returns "+strings.Join(bad, " / ")+": a line break inside a multi-line string literal is doubled in script mode (the same literal is one character per line longer in a script than in the REPL)")
		}
	}
	_ = recv
}

// segmentsRule (P6): the code and data segments only grow. Outside the
// compiler (which appends and patches its own placeholders) nothing stores
// into *CR.CS / *CR.DS: code already compiled refers to data segment slots
// and code addresses by number, and the VM resumes at len(CS).
func segmentsRule(p *load.Program, s *oblig.Set) {
	n := 0
	for _, rel := range []string{"cmd/calc", "types/node", "vm", "builtin", "memory"} {
		sp := p.SPkg(rel)
		if sp == nil {
			continue
		}
		var fns []*ssa.Function
		for _, m := range sp.Members {
			switch x := m.(type) {
			case *ssa.Function:
				fns = append(fns, x)
			case *ssa.Type:
				for _, T := range []types.Type{x.Type(), types.NewPointer(x.Type())} {
					ms := p.SSA.MethodSets.MethodSet(T)
					for i := 0; i < ms.Len(); i++ {
						if f := p.SSA.MethodValue(ms.At(i)); f != nil && f.Blocks != nil && f.Synthetic == "" {
							fns = append(fns, f)
						}
					}
				}
			}
		}
		seen := map[*ssa.Function]bool{}
		for _, fn := range fns {
			if seen[fn] || fn.Blocks == nil {
				continue
			}
			seen[fn] = true
			all := append([]*ssa.Function{fn}, fn.AnonFuncs...)
			for _, f := range all {
				for _, b := range f.Blocks {
					for _, ins := range b.Instrs {
						st, ok := ins.(*ssa.Store)
						if !ok {
							continue
						}
						// store through the pointer held in field CS or DS of a compresult.Type
						fname := segField(st.Addr)
						if fname == "" {
							continue
						}
						n++
						key := fmt.Sprintf("%s / writes segment %s", p.FuncKey(f), fname)
						inCompiler := rel == "types/node" && (strings.HasSuffix(f.Name(), "byteCode") || strings.HasPrefix(f.Name(), "ByteCode") || f.Name() == "condition" || f.Name() == "discardingWhile" || f.Name() == "pushingWhile")
						// an append of the old value keeps everything that was there
						isAppend := false
						if c, ok := st.Val.(*ssa.Call); ok {
							if bi, ok := c.Call.Value.(*ssa.Builtin); ok && bi.Name() == "append" {
								if l, ok := c.Call.Args[0].(*ssa.UnOp); ok && segField(l.X) == fname {
									isAppend = true
								}
							}
						}
						switch {
						case isAppend:
							s.OK("P6", key, p.Pos(st.Pos()), "append to the segment")
						case inCompiler:
							s.OK("P6", key, p.Pos(st.Pos()), "the compiler's own segment handling (checked by the compiler rules: code is only appended)")
						default:
							s.Bad("P6", key, p.Pos(st.Pos()), "code outside the compiler replaces the "+fname+" segment by something other than an append to it: compiled code addresses data segment entries and code positions by number, shrinking or rewriting a segment invalidates code that already exists")
						}
					}
				}
			}
		}
	}
	if n == 0 {
		s.Unk("P6", "segment writes", "-", "no store to a code/data segment found at all")
	}
}

// segField names the segment (CS / DS) a pointer value comes from, or "".
func segField(v ssa.Value) string {
	var st types.Type
	var ix int
	switch x := v.(type) {
	case *ssa.Field:
		st, ix = x.X.Type(), x.Field
	case *ssa.UnOp:
		fa, ok := x.X.(*ssa.FieldAddr)
		if !ok {
			return ""
		}
		pt, ok := fa.X.Type().Underlying().(*types.Pointer)
		if !ok {
			return ""
		}
		st, ix = pt.Elem(), fa.Field
	default:
		return ""
	}
	named, ok := types.Unalias(st).(*types.Named)
	if !ok || named.Obj().Pkg() == nil || !strings.HasSuffix(named.Obj().Pkg().Path(), "types/compresult") {
		return ""
	}
	n := named.Underlying().(*types.Struct).Field(ix).Name()
	if n == "CS" || n == "DS" {
		return n
	}
	return ""
}

// emptinessTest recognises the spellings of "string v is empty" / "is not
// empty": comparisons of v with "" and of len(v) with 0 or 1.
func emptinessTest(key, v string) (isTest bool, saysEmpty bool) {
	l := "len(" + v + ")"
	switch key {
	case "==(" + v + ",\"\")", "==(\"\"," + v + ")", "==(" + l + ",0)", "==(0," + l + ")", "<(" + l + ",1)", "<=(" + l + ",0)", ">(1," + l + ")", ">=(0," + l + ")":
		return true, true
	case "!=(" + v + ",\"\")", "!=(\"\"," + v + ")", "!=(" + l + ",0)", "!=(0," + l + ")", ">=(" + l + ",1)", ">(" + l + ",0)", "<=(1," + l + ")", "<(0," + l + ")":
		return true, false
	}
	return false, false
}

// earlyExits: the loop (strongly connected region) around block b, which walks
// the parse result, may only be left through the test of its index against
// len(trees); the positions of all other exits are returned.
func earlyExits(b *ssa.BasicBlock, trees ssa.Value) []token.Pos {
	inLoop := map[*ssa.BasicBlock]bool{}
	for _, x := range b.Parent().Blocks {
		if reaches(b, x) && reaches(x, b) {
			inLoop[x] = true
		}
	}
	if len(inLoop) < 2 {
		return nil
	}
	// the loop over the statements may sit inside another loop (the line loop
	// of a driver that parses and runs in one function): take the innermost
	// one, the blocks dominated by the header that tests the index against
	// len(trees) and leading back to it
	isBound := func(x *ssa.BasicBlock) bool {
		if len(x.Instrs) == 0 {
			return false
		}
		iff, ok := x.Instrs[len(x.Instrs)-1].(*ssa.If)
		if !ok {
			return false
		}
		cmp, ok := iff.Cond.(*ssa.BinOp)
		if !ok || cmp.Op != token.LSS {
			return false
		}
		l, ok := cmp.Y.(*ssa.Call)
		if !ok {
			return false
		}
		bi, ok := l.Call.Value.(*ssa.Builtin)
		return ok && bi.Name() == "len" && strip(l.Call.Args[0]) == trees
	}
	for h := range inLoop {
		if !isBound(h) || !h.Dominates(b) {
			continue
		}
		inner := map[*ssa.BasicBlock]bool{h: true}
		for x := range inLoop {
			if h.Dominates(x) && reachesWithin(x, h, inLoop, h) {
				inner[x] = true
			}
		}
		inLoop = inner
		break
	}
	var out []token.Pos
	for x := range inLoop {
		for _, sc := range x.Succs {
			if inLoop[sc] {
				continue
			}
			// the bound test?
			okExit := false
			if iff, ok := x.Instrs[len(x.Instrs)-1].(*ssa.If); ok {
				if cmp, ok := iff.Cond.(*ssa.BinOp); ok && cmp.Op == token.LSS {
					if l, ok := cmp.Y.(*ssa.Call); ok {
						if bi, ok := l.Call.Value.(*ssa.Builtin); ok && bi.Name() == "len" && strip(l.Call.Args[0]) == trees {
							okExit = true
						}
					}
				}
			}
			if !okExit {
				pos := x.Instrs[len(x.Instrs)-1].Pos()
				if !pos.IsValid() && len(sc.Instrs) > 0 {
					pos = sc.Instrs[len(sc.Instrs)-1].Pos()
				}
				out = append(out, pos)
			}
		}
	}
	return out
}

// stripsBreak: on a path with the given decisions the returned line is the
// text read by ReadString('\n') without its final line break: either a library
// trim of exactly that break, or the text itself where it is known not to end
// in one, or the text less its last byte where it is known to end in one.
func stripsBreak(line string, conds map[string]bool) bool {
	const L = "ReadString.0"
	switch line {
	case `strings.TrimSuffix(` + L + `,"\n")`, `strings.TrimRight(` + L + `,"\n")`:
		return true
	}
	facts := map[string]bool{}
	for k, v := range conds {
		if !v {
			k = "!" + k
		}
		facts[absint.CanonCmp(k)] = true
	}
	any := func(ks ...string) bool {
		for _, k := range ks {
			if facts[k] {
				return true
			}
		}
		return false
	}
	last := "index(" + L + ",(len(" + L + ")-1))"
	n := "len(" + L + ")"
	nonEmpty := any("<(0,"+n+")", "!<("+n+",1)", "!==("+n+",0)", "!==(0,"+n+")", `!==(`+L+`,"")`, `!==("",`+L+`)`)
	empty := any("!<(0,"+n+")", "<("+n+",1)", "==("+n+",0)", "==(0,"+n+")", `==(`+L+`,"")`, `==("",`+L+`)`)
	suffix := `strings.HasSuffix(` + L + `,"\n")`
	endsNL := any(suffix) || (nonEmpty && any("==("+last+",10)", "==(10,"+last+")"))
	notNL := empty || any("!"+suffix, "!==("+last+",10)", "!==(10,"+last+")")
	switch line {
	case L:
		return notNL
	case "slice(" + L + ",nil,(" + n + "-1),nil)":
		return endsNL
	}
	return false
}

// truthAtZero evaluates a comparison whose only unknowns are counts of
// characters in a line for a line in which none of them occurs.
func truthAtZero(v absint.Val) (bool, bool) {
	s, ok := v.(*absint.Sym)
	if !ok || len(s.Args) != 2 {
		return false, false
	}
	a, ok1 := intAtZero(s.Args[0])
	b, ok2 := intAtZero(s.Args[1])
	if !ok1 || !ok2 {
		return false, false
	}
	switch s.Op {
	case "==":
		return a == b, true
	case "!=":
		return a != b, true
	case "<":
		return a < b, true
	case "<=":
		return a <= b, true
	case ">":
		return a > b, true
	case ">=":
		return a >= b, true
	}
	return false, false
}

func intAtZero(v absint.Val) (int64, bool) {
	if c, ok := absint.ConstInt(v); ok {
		return c, true
	}
	s, ok := v.(*absint.Sym)
	if !ok {
		return 0, false
	}
	if s.Op == "count" {
		return 0, true
	}
	if s.Op == "%" && len(s.Args) == 2 {
		a, ok1 := intAtZero(s.Args[0])
		b, ok2 := intAtZero(s.Args[1])
		if ok1 && ok2 && b != 0 {
			return a % b, true
		}
		return 0, false
	}
	if l, ok := absint.LinOf(v); ok {
		for k := range l.T {
			if !strings.HasPrefix(k, "count(") {
				return 0, false
			}
		}
		return l.C, true
	}
	return 0, false
}

// reachesWithin: from reaches to by edges that stay inside the set and do not
// pass through stop (other than arriving at it).
func reachesWithin(from, to *ssa.BasicBlock, set map[*ssa.BasicBlock]bool, stop *ssa.BasicBlock) bool {
	seen := map[*ssa.BasicBlock]bool{}
	var dfs func(x *ssa.BasicBlock) bool
	dfs = func(x *ssa.BasicBlock) bool {
		for _, sc := range x.Succs {
			if sc == to {
				return true
			}
			if !set[sc] || seen[sc] || sc == stop {
				continue
			}
			seen[sc] = true
			if dfs(sc) {
				return true
			}
		}
		return false
	}
	return dfs(from)
}
