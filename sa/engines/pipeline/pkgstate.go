package pipeline

import (
	"go/ast"
	"go/parser"
	"go/token"
	"go/types"
	"sort"
	"strings"

	"calcsa/load"
	"calcsa/oblig"

	"golang.org/x/tools/go/ssa"
	"golang.org/x/tools/go/ssa/ssautil"
)

// pkgStateRule (P14): the state of a session lives in the objects the drivers
// create for it -- the memory, the VM with its code and data segments, the
// lexer of one parse -- and nowhere else. A package-level variable that is
// written while the interpreter runs is state every later statement, every
// later parse and every other mode silently shares: a pool of recycled
// lexers, a literal-interning table, a cached parser buffer, a "last answer".
// The properties that quantify over histories (C03 whatever happened before,
// C08 a failed statement leaves no trace, C16 the same in every mode) have it
// as a necessary condition that no such variable exists.
//
// The rule scans every function of the module outside package initialisers:
// a package-level variable of the module may be read (loaded, indexed, ranged
// over, its function value called); it may not be assigned, have an element or
// field stored, be the target of append/copy/clear/delete or a map update, and
// its address may not escape into a call or a stored pointer (a pointer-method
// call on it is how `scanner.Reset(input)` writes). One exception is frozen in
// the rule with its reason: the process-wide input reader of package vm, whose
// every use is judged by V12 (it must be the receiver of ReadString and
// nothing else). Values behind a pointer-typed global (the flag variables)
// are read through a load and stay readable.
func pkgStateRule(p *load.Program, s *oblig.Set) {
	if n := len(pkgWrites(controlPkgState(), func(g *ssa.Global) bool { return true }, nil)); n != 5 {
		s.Note("advisory P14: the package-state detector finds %d sites in its control program, expected 5; not run", n)
		return
	}
	var fns []*ssa.Function
	for fn := range ssautil.AllFunctions(p.SSA) {
		if fn.Pkg == nil || fn.Blocks == nil || !strings.HasPrefix(fn.Pkg.Pkg.Path(), load.ModPath) {
			continue
		}
		fns = append(fns, fn)
	}
	sort.Slice(fns, func(i, j int) bool { return fns[i].String() < fns[j].String() })
	inModule := func(g *ssa.Global) bool {
		return g.Pkg != nil && strings.HasPrefix(g.Pkg.Pkg.Path(), load.ModPath) && !strings.HasPrefix(g.Name(), "init$")
	}
	exempt := func(g *ssa.Global, ins ssa.Instruction) bool {
		// vm's shared line reader: a *bufio.Reader handed to its own ReadString; V12 owns it
		if g.Pkg.Pkg.Path() == load.ModPath+"/vm" {
			if pt, ok := g.Type().Underlying().(*types.Pointer); ok && strings.HasSuffix(pt.Elem().String(), "bufio.Reader") {
				return true
			}
		}
		return false
	}
	all := pkgWrites(fns, inModule, exempt)
	// the node counter of the -ast debugging output (graphvizzer.go) numbers the
	// nodes of a dot file; no property speaks about that output (the abort
	// inventory leaves the file out for the same reason)
	var sites []pkgWrite
	for _, w := range all {
		if !strings.Contains(p.Pos(w.pos), "graphvizzer.go") {
			sites = append(sites, w)
		}
	}
	nGlobals := 0
	for _, pkg := range p.SSA.AllPackages() {
		if !strings.HasPrefix(pkg.Pkg.Path(), load.ModPath) {
			continue
		}
		for _, m := range pkg.Members {
			if g, ok := m.(*ssa.Global); ok && inModule(g) {
				nGlobals++
			}
		}
	}
	s.Count("package_variables", nGlobals)
	if len(fns) < 300 || nGlobals < 10 {
		s.Note("advisory P14: only %d functions / %d package variables of the module were found; not run", len(fns), nGlobals)
		return
	}
	// Advisory only. "No package-level state" is sufficient for the history
	// properties, not necessary: a pooled lexer that is completely re-initialised
	// before every use (probe Rhand_8/R3) writes a package variable and changes
	// no behaviour, so a finding here is never a violation. What is found is put
	// into the evidence as a note; the rules that decide (N11 for the lexer, X11
	// for parser closures, O7 for program state, P6 for the segments) name the
	// consequences where there are any.
	if len(sites) == 0 {
		s.Note("advisory P14: %d package variables, %d functions: outside the package initialisers every package variable of the module is only read (the shared input reader of package vm is judged by V12; the node counter of the -ast output is left out)", nGlobals, len(fns))
		return
	}
	for _, w := range sites {
		s.Note("advisory P14: %s: %s %s (%s): package-level state written at run time is shared by every later statement, parse and session; not a violation by itself", p.Pos(w.pos), p.FuncKey(w.fn), w.what, w.name)
	}
}

type pkgWrite struct {
	fn   *ssa.Function
	pos  token.Pos
	name string
	what string
}

func pkgWrites(fns []*ssa.Function, want func(*ssa.Global) bool, exempt func(*ssa.Global, ssa.Instruction) bool) []pkgWrite {
	var out []pkgWrite
	for _, fn := range fns {
		if fn.Name() == "init" || strings.HasPrefix(fn.Name(), "init#") || fn.Synthetic == "package initializer" {
			continue
		}
		// also closures of initialisers run at init time only when called there;
		// they are treated like any other function (a closure stored by init
		// and run later writes at run time)
		// addresses derived from a global: the global itself, field / element
		// addresses of it, and what is loaded from it when that is a slice / map /
		// pointer (storage the global owns)
		derived := map[ssa.Value]*ssa.Global{}
		for _, b := range fn.Blocks {
			for _, ins := range b.Instrs {
				for _, op := range ins.Operands(nil) {
					if g, ok := (*op).(*ssa.Global); ok && want(g) {
						derived[g] = g
					}
				}
			}
		}
		if len(derived) == 0 {
			continue
		}
		changed := true
		for changed {
			changed = false
			for _, b := range fn.Blocks {
				for _, ins := range b.Instrs {
					v, ok := ins.(ssa.Value)
					if !ok {
						continue
					}
					if _, done := derived[v]; done {
						continue
					}
					var src ssa.Value
					switch x := ins.(type) {
					case *ssa.FieldAddr:
						src = x.X
					case *ssa.IndexAddr:
						src = x.X
					case *ssa.Slice:
						src = x.X
					case *ssa.UnOp:
						if x.Op == token.MUL {
							switch x.Type().Underlying().(type) {
							case *types.Slice, *types.Map:
								src = x.X
							}
						}
					case *ssa.Phi:
						for _, e := range x.Edges {
							if _, ok := derived[e]; ok {
								src = e
							}
						}
					}
					if src != nil {
						if g, ok := derived[src]; ok {
							derived[v] = g
							changed = true
						}
					}
				}
			}
		}
		add := func(ins ssa.Instruction, g *ssa.Global, what string) {
			if exempt != nil && exempt(g, ins) {
				return
			}
			out = append(out, pkgWrite{fn, ins.Pos(), g.Pkg.Pkg.Name() + "." + g.Name(), what})
		}
		for _, b := range fn.Blocks {
			for _, ins := range b.Instrs {
				switch x := ins.(type) {
				case *ssa.Store:
					if g, ok := derived[x.Addr]; ok {
						add(ins, g, "assigns or stores into the package variable "+g.Name())
					} else if g, ok := derived[x.Val]; ok {
						if _, isPtr := x.Val.Type().Underlying().(*types.Pointer); isPtr {
							add(ins, g, "stores the address of the package variable "+g.Name()+" (whoever holds it can write it)")
						}
					}
				case *ssa.MapUpdate:
					if g, ok := derived[x.Map]; ok {
						add(ins, g, "updates the package-level map "+g.Name())
					}
				case *ssa.Call, *ssa.Defer, *ssa.Go:
					cc := ins.(ssa.CallInstruction).Common()
					if bi, ok := cc.Value.(*ssa.Builtin); ok {
						switch bi.Name() {
						case "append", "copy", "clear", "delete":
							if len(cc.Args) > 0 {
								if g, ok := derived[cc.Args[0]]; ok {
									if _, isStr := cc.Args[0].Type().Underlying().(*types.Basic); !isStr {
										add(ins, g, bi.Name()+" on storage of the package variable "+g.Name())
									}
								}
							}
						}
						continue
					}
					for i, a := range cc.Args {
						g, ok := derived[a]
						if !ok {
							continue
						}
						if _, isPtr := a.Type().Underlying().(*types.Pointer); !isPtr {
							continue // a slice or map value handed to a call: read access is the common case
						}
						callee := "a function"
						if sc := cc.StaticCallee(); sc != nil {
							callee = sc.Name()
						}
						if i == 0 && cc.StaticCallee() != nil && cc.StaticCallee().Signature.Recv() != nil {
							add(ins, g, "calls the pointer method "+callee+" on the package variable "+g.Name()+" (the method can write it)")
						} else {
							add(ins, g, "hands the address of the package variable "+g.Name()+" to "+callee)
						}
					}
				case *ssa.MakeInterface:
					if g, ok := derived[x.X]; ok {
						if _, isPtr := x.X.Type().Underlying().(*types.Pointer); isPtr {
							add(ins, g, "wraps the address of the package variable "+g.Name()+" in an interface (whoever receives it can write it)")
						}
					}
				}
			}
		}
	}
	sort.Slice(out, func(i, j int) bool {
		if out[i].fn.String() != out[j].fn.String() {
			return out[i].fn.String() < out[j].fn.String()
		}
		return out[i].pos < out[j].pos
	})
	return out
}

func controlPkgState() []*ssa.Function {
	const src = `package p
type T struct{ n int; xs []int }
func (t *T) Reset() { t.n = 0 }
var pool T
var cache = map[string]int{}
var table = [...]string{"a", "b"}
var last int
func run(k string) string {
	pool.Reset()            // write 1: pointer method on a package variable
	cache[k] = len(k)       // write 2: map update
	last = 1                // write 3: assignment
	pool.xs = append(pool.xs, 1) // writes 4 and 5: append onto its storage, store into its field
	_ = cache[k]            // reads are fine
	return table[last%2]
}
`
	fset := token.NewFileSet()
	f, err := parser.ParseFile(fset, "control.go", src, 0)
	if err != nil {
		return nil
	}
	pkg := types.NewPackage("p", "p")
	sp, _, err := ssautil.BuildPackage(&types.Config{}, fset, pkg, []*ast.File{f}, 0)
	if err != nil {
		return nil
	}
	var out []*ssa.Function
	for fn := range ssautil.AllFunctions(sp.Prog) {
		if fn.Blocks != nil && fn.Name() == "run" {
			out = append(out, fn)
		}
	}
	return out
}
