package pipeline

import (
	"fmt"
	"strings"

	"calcsa/load"
	"calcsa/oblig"

	"golang.org/x/tools/go/ssa"
)

// reportTextRule (P11): a parse error carries offsets into the text that was
// parsed; the caret line is cut out of the text handed to reportError with
// those offsets. The two texts must be the same value, otherwise the offsets
// point into another string (a slice bounds panic at worst, a caret under the
// wrong characters at best).
func reportTextRule(p *load.Program, s *oblig.Set) {
	n := 0
	for _, fn := range allFuncs(p) {
		for _, b := range fn.Blocks {
			for _, ins := range b.Instrs {
				c, ok := ins.(*ssa.Call)
				if !ok || !strings.HasSuffix(calleeName(&c.Call), "node.reportError") || len(c.Call.Args) != 2 {
					continue
				}
				n++
				key := fmt.Sprintf("%s / the error is shown against the text that was parsed", p.FuncKey(fn))
				errV, text := c.Call.Args[0], c.Call.Args[1]
				src, why := parsedText(errV, 0)
				switch {
				case src == nil:
					s.Bad("P11", key, p.Pos(c.Pos()), "the error handed to reportError is not recognisably the error of a Parse call ("+why+"), so its offsets cannot be tied to the text it is rendered against")
				case src != text:
					s.Bad("P11", key, p.Pos(c.Pos()), fmt.Sprintf("the error comes from parsing %s but is rendered against %s: its offsets index another string", src.Name(), text.Name()))
				default:
					s.OK("P11", key, p.Pos(c.Pos()), "same value parsed and shown")
				}
			}
		}
	}
	if n == 0 {
		s.Unk("P11", "reportError call sites", "-", "no call of reportError found")
	}
}

// parsedText: the value whose parsing produced error value e, as seen from the
// function e lives in: e is the error result of Parse(text), or the result of a
// call g(..., text, ...) where g returns the error of Parse(its parameter).
func parsedText(e ssa.Value, depth int) (ssa.Value, string) {
	if depth > 2 {
		return nil, "call chain too deep"
	}
	var call *ssa.Call
	switch x := e.(type) {
	case *ssa.Extract:
		c, ok := x.Tuple.(*ssa.Call)
		if !ok {
			return nil, "not the result of a call"
		}
		call = c
	case *ssa.Call:
		call = x
	case *ssa.Phi:
		// an error variable assigned on several paths: all non-nil edges must agree
		var src ssa.Value
		for _, ed := range x.Edges {
			if isNilConst(ed) {
				continue
			}
			v, why := parsedText(ed, depth+1)
			if v == nil {
				return nil, why
			}
			if src != nil && src != v {
				return nil, "different texts on different paths"
			}
			src = v
		}
		if src == nil {
			return nil, "always nil"
		}
		return src, ""
	default:
		return nil, fmt.Sprintf("%T", e)
	}
	name := calleeName(&call.Call)
	if name == "iface.Parse" || strings.HasSuffix(name, "/parser.Parse") {
		return call.Call.Args[len(call.Call.Args)-1], ""
	}
	g := call.Call.StaticCallee()
	if g == nil || g.Blocks == nil {
		return nil, "result of " + name
	}
	// g returns the error of Parse(parameter k)
	for _, b := range g.Blocks {
		for _, ins := range b.Instrs {
			ret, ok := ins.(*ssa.Return)
			if !ok {
				continue
			}
			for _, rv := range ret.Results {
				if isNilConst(rv) {
					continue
				}
				inner, _ := parsedText(rv, depth+1)
				if inner == nil {
					continue
				}
				for k, prm := range g.Params {
					if ssa.Value(prm) == inner && k < len(call.Call.Args) {
						return call.Call.Args[k], ""
					}
				}
			}
		}
	}
	return nil, "result of " + name + ", which does not return the error of parsing one of its parameters"
}
