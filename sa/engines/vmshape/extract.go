// Package vmshape extracts, for every opcode, the effect of one trip through
// the VM dispatch loop by abstract interpretation of the SSA of vm.Run over a
// symbolic machine state, and checks the V-rules on those effect summaries.
package vmshape

import (
	"fmt"
	"go/token"
	"go/types"
	"sort"
	"strings"

	"calcsa/absint"
	"calcsa/load"
	"calcsa/oblig"

	"golang.org/x/tools/go/ssa"
)

// Event is something observable a path did.
type Event struct {
	Kind string       // "fetch", "call", "store"
	Fn   string       // callee (short)
	Args []string     // argument keys
	Vals []absint.Val // argument values
	Res  string       // result key
	Pos  token.Pos
}

func (e Event) String() string {
	s := e.Kind + " " + e.Fn + "(" + strings.Join(e.Args, ", ") + ")"
	if e.Res != "" {
		s += " -> " + e.Res
	}
	return s
}

// Path is the summary of one path of one opcode through the loop body.
type Path struct {
	Op      string
	OpVal   int64
	Conds   []string
	Events  []Event
	End     string // "next" (loop continues), "return", "panic", "exit", "undecided: ..."
	Ret     []absint.Val
	Final   map[string]absint.Val // loop carried variables at the end: ctxp, m, ip, tmp
	Cells   map[string]*absint.Cell
	EndPos  token.Pos
	Default bool            // took the default clause
	Idx     []absint.IdxRec // index / slice expressions on symbolic containers, with whether the path proves their bounds
}

func (p *Path) Describe() []string {
	var out []string
	out = append(out, "opcode "+p.Op)
	for _, c := range p.Conds {
		out = append(out, "assume "+c)
	}
	for _, e := range p.Events {
		out = append(out, e.String())
	}
	out = append(out, "end: "+p.End)
	return out
}

// Model is everything extracted from the VM.
type Model struct {
	P        *load.Program
	Run      *ssa.Function
	Fetch    *ssa.Function
	Dump     *ssa.Function
	HashFn   *ssa.Function // the context key function (hashContext)
	DelFn    *ssa.Function // the recursive context release (deleteContext)
	CtxRoles []string      // the fields of the context struct by role: ip, m, parent, children
	tabs     map[*ssa.Global]*absint.Cell
	Header   *ssa.BasicBlock
	Body     *ssa.BasicBlock
	OpConsts map[string]int64
	OpName   map[int64]string
	Handled  map[int64]bool // opcode constants that appear in a case list
	Paths    map[string][]*Path
	AddrK    map[string]int64 // Addr* kind constants
	AddrName map[int64]string
	VarOf    map[string]*ssa.Phi
	// FetchKinds: accepted operand kinds of fetch and the memory operation each maps to
	FetchKinds map[int64]string
	CtxT       *types.Struct
}

func shortFn(fn *ssa.Function) string {
	s := fn.String()
	// a method expression or method value is the method it wraps
	s = strings.TrimSuffix(strings.TrimSuffix(s, "$thunk"), "$bound")
	if i := strings.Index(s, "["); i > 0 && strings.HasSuffix(s, "]") && !strings.HasPrefix(s, "(") {
		s = s[:i]
	}
	if strings.HasPrefix(s, "(") {
		// method of a generic instance: drop the instantiation of the method name
		if j := strings.LastIndex(s, ")."); j > 0 {
			name := s[j+2:]
			if i := strings.Index(name, "["); i > 0 {
				name = name[:i]
			}
			recv := s[:j+1]
			if i := strings.Index(recv, "["); i > 0 {
				recv = recv[:i] + ")"
			}
			s = recv + "." + name
		}
	}
	s = strings.ReplaceAll(s, "github.com/kamstrup/", "")
	s = strings.ReplaceAll(s, load.ModPath+"/types/", "")
	s = strings.ReplaceAll(s, load.ModPath+"/", "")
	return s
}

// Extract builds the model; anchors that cannot be resolved are reported in s.
func Extract(p *load.Program, s *oblig.Set) *Model {
	m := &Model{P: p, Paths: map[string][]*Path{}, Handled: map[int64]bool{}, VarOf: map[string]*ssa.Phi{}}
	sp := p.SPkg("vm")
	if sp == nil {
		s.Unk("ANCHOR", "package vm", "-", "not found")
		return nil
	}
	m.OpConsts = p.ConstsOfType("types/bytecode", "OpCode")
	m.OpName = map[int64]string{}
	for k, v := range m.OpConsts {
		m.OpName[v] = k
	}
	if len(m.OpConsts) < 40 {
		s.Unk("ANCHOR", "bytecode.OpCode constants", "-", fmt.Sprintf("only %d found", len(m.OpConsts)))
		return nil
	}
	m.AddrK = map[string]int64{}
	m.AddrName = map[int64]string{}
	for _, n := range []string{"AddrInv", "AddrImm", "AddrGbl", "AddrLcl", "AddrCls", "AddrStck", "AddrTmp", "AddrDS"} {
		v, ok := p.ConstInt("types/bytecode", n)
		if !ok {
			s.Unk("ANCHOR", "bytecode."+n, "-", "constant not found")
			return nil
		}
		m.AddrK[n] = v
		m.AddrName[v] = n
	}
	// the dispatch function: the function of package vm that compares a
	// bytecode.OpCode value against >= 20 distinct constants
	var best *ssa.Function
	bestN := 0
	for _, mem := range sp.Members {
		if t, ok := mem.(*ssa.Type); ok {
			for _, T := range []types.Type{t.Type(), types.NewPointer(t.Type())} {
				ms := p.SSA.MethodSets.MethodSet(T)
				for i := 0; i < ms.Len(); i++ {
					fn := p.SSA.MethodValue(ms.At(i))
					if fn == nil || fn.Blocks == nil || fn.Synthetic != "" {
						continue
					}
					if n := countOpCmps(fn); n > bestN {
						best, bestN = fn, n
					}
				}
			}
		}
		if fn, ok := mem.(*ssa.Function); ok && fn.Blocks != nil {
			if n := countOpCmps(fn); n > bestN {
				best, bestN = fn, n
			}
		}
	}
	if best == nil || bestN < 20 {
		s.Unk("ANCHOR", "vm dispatch function", "-", fmt.Sprintf("no function of package vm switches on >= 20 opcode constants (best %d)", bestN))
		return nil
	}
	m.Run = best
	for _, b := range best.Blocks {
		for _, ins := range b.Instrs {
			if bo, ok := ins.(*ssa.BinOp); ok && bo.Op == token.EQL && isOpCodeT(bo.X.Type()) {
				if c, ok := bo.Y.(*ssa.Const); ok {
					m.Handled[c.Int64()] = true
				}
			}
		}
	}
	// loop header: the block with phis that dominates the opcode tests
	for _, b := range best.Blocks {
		nphi := 0
		for _, ins := range b.Instrs {
			if _, ok := ins.(*ssa.Phi); ok {
				nphi++
			}
		}
		if nphi >= 3 && len(b.Succs) == 2 && m.Header == nil {
			m.Header = b
			m.Body = b.Succs[0]
		}
	}
	if m.Header == nil {
		s.Unk("ANCHOR", "vm dispatch loop header", p.Pos(best.Pos()), "no loop header with >= 3 loop carried variables found")
		return nil
	}
	for _, ins := range m.Header.Instrs {
		if ph, ok := ins.(*ssa.Phi); ok {
			m.VarOf[ph.Comment] = ph
		}
	}
	// the loop variables by what they are, when they are not called what the
	// reference tree calls them: the context pointer, the memory, the temp
	// register (a value), the instruction pointer (the int that indexes the code)
	m.resolveLoopVars()
	for _, n := range []string{"ctxp", "m", "ip", "tmp"} {
		if m.VarOf[n] == nil {
			s.Unk("ANCHOR", "vm loop variable "+n, p.Pos(best.Pos()), "loop carried variable not found")
			return nil
		}
	}
	m.Fetch = p.Method("vm", "Type", "fetch")
	m.Dump = p.Method("vm", "Type", "dumpStack")
	if m.Fetch == nil || m.Dump == nil {
		s.Unk("ANCHOR", "vm.fetch / vm.dumpStack", "-", "methods not found")
		return nil
	}
	// the context type is what the context pointer points to
	if pt, ok := m.VarOf["ctxp"].Type().Underlying().(*types.Pointer); ok {
		if st, ok := pt.Elem().Underlying().(*types.Struct); ok {
			m.CtxT = st
		}
	}
	if m.CtxT == nil {
		s.Unk("ANCHOR", "vm.context", "-", "the type of the context pointer is not a struct")
		return nil
	}
	if msg := m.resolveCtxRoles(); msg != "" {
		s.Unk("ANCHOR", "vm.context fields", "-", msg)
		return nil
	}
	m.resolveHelpers(sp)

	names := load.SortedKeys(m.OpConsts)
	total := 0
	for _, n := range names {
		ps := m.runOpcode(n, m.OpConsts[n])
		m.Paths[n] = ps
		total += len(ps)
	}
	// one opcode value that is not a declared constant: must reach the default clause
	m.Paths["<undeclared>"] = m.runOpcode("<undeclared>", 127)
	s.Count("opcodes", len(names))
	s.Count("vm_paths", total)
	s.Note("dispatch function %s: %d opcode constants compared; %d declared opcodes evaluated symbolically through one loop iteration, %d paths", p.FuncKey(best), len(m.Handled), len(names), total)
	m.fetchModel(s)
	return m
}

func isOpCodeT(t types.Type) bool {
	n, ok := t.(*types.Named)
	return ok && n.Obj().Name() == "OpCode" && n.Obj().Pkg() != nil && strings.HasSuffix(n.Obj().Pkg().Path(), "types/bytecode")
}

func countOpCmps(fn *ssa.Function) int {
	seen := map[int64]bool{}
	for _, b := range fn.Blocks {
		for _, ins := range b.Instrs {
			if bo, ok := ins.(*ssa.BinOp); ok && bo.Op == token.EQL && isOpCodeT(bo.X.Type()) {
				if c, ok := bo.Y.(*ssa.Const); ok {
					seen[c.Int64()] = true
				}
			}
		}
	}
	return len(seen)
}

// resolveLoopVars fills VarOf by type for loop variables that carry other names.
func (m *Model) resolveLoopVars() {
	var ints []*ssa.Phi
	for _, ins := range m.Header.Instrs {
		ph, ok := ins.(*ssa.Phi)
		if !ok {
			continue
		}
		t := ph.Type()
		switch {
		case isPtrToStructIn(t, "/vm"):
			if m.VarOf["ctxp"] == nil {
				m.VarOf["ctxp"] = ph
			}
		case strings.HasSuffix(t.String(), "memory.Type") && strings.HasPrefix(t.String(), "*"):
			if m.VarOf["m"] == nil {
				m.VarOf["m"] = ph
			}
		case strings.HasSuffix(t.String(), "types/value.Type"):
			if m.VarOf["tmp"] == nil {
				m.VarOf["tmp"] = ph
			}
		default:
			if b, ok := t.Underlying().(*types.Basic); ok && b.Kind() == types.Int {
				ints = append(ints, ph)
			}
		}
	}
	if m.VarOf["ip"] == nil {
		for _, ph := range ints {
			for _, ref := range *ph.Referrers() {
				if ia, ok := ref.(*ssa.IndexAddr); ok && ia.Index == ssa.Value(ph) {
					m.VarOf["ip"] = ph
				}
			}
		}
		if m.VarOf["ip"] == nil && len(ints) == 1 {
			m.VarOf["ip"] = ints[0]
		}
	}
}

func isPtrToStructIn(t types.Type, pkgSuffix string) bool {
	pt, ok := t.Underlying().(*types.Pointer)
	if !ok {
		return false
	}
	n, ok := pt.Elem().(*types.Named)
	if !ok || n.Obj().Pkg() == nil || !strings.HasSuffix(n.Obj().Pkg().Path(), pkgSuffix) {
		return false
	}
	_, isStruct := n.Underlying().(*types.Struct)
	return isStruct
}

// resolveCtxRoles names the fields of the context by what they hold: the saved
// instruction pointer (int), the memory (*memory.Type), the parent (a pointer
// to the same struct), the child table (the remaining field).
func (m *Model) resolveCtxRoles() string {
	ctxPtrT := m.VarOf["ctxp"].Type()
	m.CtxRoles = make([]string, m.CtxT.NumFields())
	seen := map[string]int{}
	for i := 0; i < m.CtxT.NumFields(); i++ {
		t := m.CtxT.Field(i).Type()
		role := ""
		switch {
		case types.Identical(t, ctxPtrT):
			role = "parent"
		case strings.HasSuffix(t.String(), "memory.Type") && strings.HasPrefix(t.String(), "*"):
			role = "m"
		default:
			if b, ok := t.Underlying().(*types.Basic); ok && b.Kind() == types.Int {
				role = "ip"
			} else {
				role = "children"
			}
		}
		seen[role]++
		m.CtxRoles[i] = role
	}
	for _, r := range []string{"ip", "m", "parent", "children"} {
		if seen[r] != 1 {
			return fmt.Sprintf("expected one field each for the saved ip (int), the memory, the parent and the child table; found %v", seen)
		}
	}
	return ""
}

// resolveHelpers finds the two helpers of the run loop by their signatures:
// the context key (memory and id in, an unsigned key out) and the recursive
// release of a context (a context and the free list in).
func (m *Model) resolveHelpers(sp *ssa.Package) {
	ctxPtrT := m.VarOf["ctxp"].Type()
	for _, mem := range sp.Members {
		fn, ok := mem.(*ssa.Function)
		if !ok || fn.Blocks == nil || fn.Signature.Recv() != nil {
			continue
		}
		sig := fn.Signature
		if sig.Results().Len() == 1 && sig.Params().Len() == 2 {
			if b, ok := sig.Results().At(0).Type().Underlying().(*types.Basic); ok && b.Kind() == types.Uint64 {
				hasMem, hasInt := false, false
				for i := 0; i < 2; i++ {
					pt := sig.Params().At(i).Type()
					if strings.HasSuffix(pt.String(), "memory.Type") {
						hasMem = true
					}
					if pb, ok := pt.Underlying().(*types.Basic); ok && pb.Kind() == types.Int {
						hasInt = true
					}
				}
				if hasMem && hasInt && (m.HashFn == nil || fn.Name() == "hashContext") {
					m.HashFn = fn
				}
			}
		}
		if sig.Params().Len() == 2 && types.Identical(sig.Params().At(0).Type(), ctxPtrT) && callsItself(fn) {
			if m.DelFn == nil || fn.Name() == "deleteContext" {
				m.DelFn = fn
			}
		}
	}
}

func callsItself(fn *ssa.Function) bool {
	var scan func(f *ssa.Function) bool
	scan = func(f *ssa.Function) bool {
		for _, b := range f.Blocks {
			for _, ins := range b.Instrs {
				if ci, ok := ins.(ssa.CallInstruction); ok {
					if c := ci.Common().StaticCallee(); c == fn {
						return true
					}
				}
				if mc, ok := ins.(*ssa.MakeClosure); ok {
					if cf, ok := mc.Fn.(*ssa.Function); ok && scan(cf) {
						return true
					}
				}
			}
		}
		return false
	}
	return scan(fn)
}

func fieldIx(st *types.Struct, name string) int {
	for i := 0; i < st.NumFields(); i++ {
		if st.Field(i).Name() == name {
			return i
		}
	}
	return -1
}

// runOpcode enumerates the paths of one loop iteration for one opcode.
func (m *Model) runOpcode(name string, op int64) []*Path {
	var out []*Path
	o := &absint.Oracle{}
	for n := 0; n < 400; n++ {
		out = append(out, m.onePath(name, op, o))
		if !o.Next() {
			break
		}
	}
	return out
}

// tables: the package variables of package vm that the initialiser fills with
// a map, array, slice or struct of constants and functions.
func (m *Model) tables() map[*ssa.Global]*absint.Cell {
	if m.tabs != nil {
		return m.tabs
	}
	m.tabs = map[*ssa.Global]*absint.Cell{}
	gl, end := absint.InitGlobals(m.P.SSA, m.Run.Pkg)
	if end != nil {
		return m.tabs
	}
	for g, c := range gl {
		if g.Pkg != m.Run.Pkg {
			continue
		}
		switch c.V.(type) {
		case *absint.Map, *absint.Array, *absint.Slice, *absint.Struct:
			m.tabs[g] = c
		}
	}
	return m.tabs
}

func (m *Model) onePath(name string, op int64, o *absint.Oracle) *Path {
	p := m.P
	path := &Path{Op: name, OpVal: op, Final: map[string]absint.Val{}, Cells: map[string]*absint.Cell{}}
	in := absint.NewInterp(p.SSA, o)
	in.MaxStep = 20000
	// lookup tables of package vm (a handler driven by a table of methods) have
	// their contents; everything else keeps its identity as a package variable
	for g, c := range m.tables() {
		in.Globals[g] = c
	}
	fn := m.Run
	intT := types.Typ[types.Int]
	ctxPtrT := m.VarOf["ctxp"].Type()
	ctxNamed := ctxPtrT.Underlying().(*types.Pointer).Elem()
	memT := m.VarOf["m"].Type()

	mkCtx := func(tag string, mval absint.Val, parent absint.Val) *absint.Cell {
		st := absint.Zero(ctxNamed).(*absint.Struct)
		f := append([]absint.Val(nil), st.F...)
		for i := 0; i < m.CtxT.NumFields(); i++ {
			fl := m.CtxT.Field(i)
			switch m.CtxRoles[i] {
			case "m":
				f[i] = mval
			case "parent":
				f[i] = parent
			default:
				f[i] = absint.NewVar(tag+"."+m.CtxRoles[i], fl.Type())
			}
		}
		c := in.NewCell(&absint.Struct{T: ctxNamed, F: f}, tag)
		c.Name = tag
		path.Cells[tag] = c
		return c
	}
	M := absint.NewVar("M", memT)
	// the current context may or may not have a parent
	var parent absint.Val = absint.Const{T: ctxPtrT}
	hasParent := o.Choose(2, "ctxp.parent != nil") == 1
	if hasParent {
		pc := mkCtx("PARENT", absint.NewVar("PARENT.m", memT), absint.NewVar("PARENT.parent", ctxPtrT))
		parent = &absint.Ptr{Cell: pc}
	}
	ctx := mkCtx("CTX", M, parent)
	mainc := mkCtx("MAIN", absint.NewVar("MAIN.m", memT), absint.Const{T: ctxPtrT})

	// vm receiver
	vmT := fn.Params[0].Type().Underlying().(*types.Pointer).Elem()
	vst := vmT.Underlying().(*types.Struct)
	vz := absint.Zero(vmT).(*absint.Struct)
	vf := append([]absint.Val(nil), vz.F...)
	for i := 0; i < vst.NumFields(); i++ {
		fl := vst.Field(i)
		if types.Identical(fl.Type(), ctxPtrT) {
			vf[i] = &absint.Ptr{Cell: mainc}
		} else if cs, ok := fl.Type().Underlying().(*types.Struct); ok {
			cz := absint.Zero(fl.Type()).(*absint.Struct)
			cf := append([]absint.Val(nil), cz.F...)
			for j := 0; j < cs.NumFields(); j++ {
				cf[j] = absint.NewVar(fl.Name()+"."+cs.Field(j).Name(), cs.Field(j).Type())
			}
			vf[i] = &absint.Struct{T: fl.Type(), F: cf}
		} else {
			vf[i] = absint.NewVar("vm."+fl.Name(), fl.Type())
		}
	}
	vmCell := in.NewCell(&absint.Struct{T: vmT, F: vf}, "VM")
	vmCell.Name = "VM"

	nchild := 0
	nres := 0
	fresh := func(tag string, t types.Type) absint.Val {
		nres++
		return absint.NewVar(fmt.Sprintf("%s#%d", tag, nres), t)
	}
	resultOf := func(tag string, sig *types.Signature) absint.Val {
		if i := strings.Index(tag, "["); i > 0 {
			tag = tag[:i]
		}
		switch sig.Results().Len() {
		case 0:
			return nil
		case 1:
			return fresh(tag, sig.Results().At(0).Type())
		}
		t := &absint.Tuple{}
		for i := 0; i < sig.Results().Len(); i++ {
			t.E = append(t.E, fresh(fmt.Sprintf("%s.%d", tag, i), sig.Results().At(i).Type()))
		}
		return t
	}
	instrSym := absint.NewVar("INSTR", nil)
	addEvent := func(kind, fnName string, args []absint.Val, res absint.Val, site ssa.Instruction) {
		e := Event{Kind: kind, Fn: fnName, Vals: args}
		for _, a := range args {
			e.Args = append(e.Args, absint.Key(a))
		}
		if res != nil {
			e.Res = absint.Key(res)
		}
		if site != nil {
			e.Pos = site.Pos()
		}
		path.Events = append(path.Events, e)
	}
	// small concrete ranges for the context-id loops
	addrVal := func(k int) absint.Val {
		switch name {
		case "DCONT", "RCONT":
			if k == 0 {
				return absint.MkInt(3)
			}
			if k == 1 {
				return absint.MkInt(4)
			}
		}
		return absint.NewVar(fmt.Sprintf("A%d", k), intT)
	}
	in.Hooks.Call = func(in *absint.Interp, callee *ssa.Function, args []absint.Val, site ssa.Instruction) (absint.Val, bool) {
		sf := shortFn(callee)
		pkg := ""
		if callee.Pkg != nil {
			pkg = callee.Pkg.Pkg.Path()
		}
		switch {
		case strings.HasPrefix(sf, "(bytecode.Type)."):
			if len(args) > 0 && absint.Key(args[0]) == "INSTR" {
				switch callee.Name() {
				case "OpCode":
					return absint.MkIntT(op, callee.Signature.Results().At(0).Type()), true
				case "Src0", "Src1", "Src2":
					k := int(callee.Name()[3] - '0')
					return absint.NewVar(fmt.Sprintf("K%d", k), callee.Signature.Results().At(0).Type()), true
				case "Src0Addr", "Src1Addr", "Src2Addr":
					k := int(callee.Name()[3] - '0')
					return addrVal(k), true
				}
			}
			r := resultOf(callee.Name(), callee.Signature)
			addEvent("call", sf, args, r, site)
			return r, true
		case callee == m.Fetch:
			r := fresh("V", callee.Signature.Results().At(0).Type())
			// name the value after the slot when recognisable
			if len(args) >= 3 {
				k := absint.Key(args[1])
				if len(k) == 2 && k[0] == 'K' {
					r = absint.NewVar("V"+k[1:], callee.Signature.Results().At(0).Type())
				}
			}
			addEvent("fetch", "fetch", args[1:], r, site)
			return r, true
		case callee == m.Dump:
			var vals []absint.Val
			vals = append(vals, args[1:4]...)
			if sl, ok := args[4].(*absint.Slice); ok {
				vals = append(vals, sl.Elems()...)
			} else if !absint.IsNil(args[4]) {
				vals = append(vals, args[4])
			}
			addEvent("call", "dumpStack", vals, nil, site)
			return &absint.Tuple{E: []absint.Val{absint.NewVar("NIL", callee.Signature.Results().At(0).Type()), args[3]}}, true
		case callee == m.HashFn:
			return &absint.Sym{Op: "hash", Args: args, T: callee.Signature.Results().At(0).Type()}, true
		case pkg == "log":
			addEvent("call", sf, args[:min(1, len(args))], nil, site)
			path.End = "panic"
			path.EndPos = site.Pos()
			in.Undecided("log panic", site)
		case sf == "os.Exit":
			addEvent("call", sf, args, nil, site)
			path.End = "exit"
			in.Undecided("os.Exit", site)
		case pkg == "fmt" || pkg == "errors":
			if callee.Name() == "Errorf" || callee.Name() == "New" {
				r := &absint.Iface{T: types.Universe.Lookup("error").Type(), V: &absint.Sym{Op: sf, Args: args}}
				addEvent("call", sf, args, nil, site)
				return r, true
			}
			r := resultOf(callee.Name(), callee.Signature)
			addEvent("call", sf, args, r, site)
			return r, true
		case strings.Contains(sf, "intmap.Map") && strings.HasPrefix(callee.Name(), "Get"):
			nchild++
			tag := fmt.Sprintf("CHILD%d", nchild)
			c := mkCtx(tag, absint.NewVar(tag+".m", memT), absint.NewVar(tag+".parent", ctxPtrT))
			r := &absint.Tuple{E: []absint.Val{&absint.Ptr{Cell: c}, fresh("found", types.Typ[types.Bool])}}
			addEvent("call", "children.Get", args, r, site)
			return r, true
		case pkg != load.ModPath+"/vm" || callee.Blocks == nil:
			r := resultOf(callee.Name(), callee.Signature)
			// pointer receiver methods on a local (SetFrame): model the mutation
			if len(args) > 0 {
				if pr, ok := args[0].(*absint.Ptr); ok && callee.Signature.Recv() != nil && strings.HasPrefix(sf, "(*value.Type).") {
					old := in.Load(pr, nil, site)
					nv := &absint.Sym{Op: callee.Name(), Args: append([]absint.Val{old}, args[1:]...), T: callee.Signature.Recv().Type().Underlying().(*types.Pointer).Elem()}
					addEvent("call", sf, append([]absint.Val{old}, args[1:]...), nv, site)
					in.Store(pr, nv, site)
					return r, true
				}
			}
			addEvent("call", sf, args, r, site)
			return r, true
		}
		if callee == m.DelFn {
			addEvent("call", strings.Replace(sf, callee.Name(), "deleteContext", 1), args, nil, site)
			if callee.Signature.Results().Len() == 1 {
				// the free list handed back with the released contexts on it
				return &absint.Sym{Op: "released", Args: args, T: callee.Signature.Results().At(0).Type()}, true
			}
			return nil, true
		}
		return nil, false
	}
	in.Hooks.Invoke = func(in *absint.Interp, recv absint.Val, mth *types.Func, args []absint.Val, site ssa.Instruction) (absint.Val, bool) {
		r := resultOf(mth.Name(), mth.Type().(*types.Signature))
		addEvent("call", "iface."+mth.Name(), append([]absint.Val{recv}, args...), r, site)
		return r, true
	}
	in.Hooks.TypeAssert = func(in *absint.Interp, x absint.Val, asserted types.Type, commaOk bool, site ssa.Instruction) (absint.Val, bool) {
		// front.Value.(*context): a recycled context
		if types.Identical(asserted, ctxPtrT) {
			c := mkCtx("FREECTX", absint.NewVar("FREECTX.m", memT), absint.NewVar("FREECTX.parent", ctxPtrT))
			var r absint.Val = &absint.Ptr{Cell: c}
			addEvent("call", "typeassert *context", []absint.Val{x}, r, site)
			if commaOk {
				return &absint.Tuple{E: []absint.Val{r, absint.MkBool(true)}}, true
			}
			return r, true
		}
		return nil, false
	}
	in.Hooks.Load = func(in *absint.Interp, pv absint.Val, t types.Type, site ssa.Instruction) (absint.Val, bool) {
		// (*cs)[ip]: the current instruction
		if s, ok := pv.(*absint.Sym); ok && s.Op == "elemaddr" {
			k := absint.Key(s)
			if strings.Contains(k, "CR.CS") && strings.HasSuffix(k, ",IP)") {
				return instrSym, true
			}
			// a context taken out of a loop-carried slice of contexts: a recycled one
			if types.Identical(t, ctxPtrT) && strings.Contains(k, "LOOPVAR.") {
				c := mkCtx("FREECTX", absint.NewVar("FREECTX.m", memT), absint.NewVar("FREECTX.parent", ctxPtrT))
				var r absint.Val = &absint.Ptr{Cell: c}
				addEvent("call", "typeassert *context", []absint.Val{s}, r, site)
				return r, true
			}
			return &absint.Sym{Op: "deref", Args: []absint.Val{s}, T: t}, true
		}
		return nil, false
	}
	in.Hooks.Store = func(in *absint.Interp, pv absint.Val, v absint.Val, site ssa.Instruction) bool {
		addEvent("store", "*", []absint.Val{pv, v}, nil, site)
		return true
	}
	in.Hooks.Append = func(in *absint.Interp, sl absint.Val, elems absint.Val, site ssa.Instruction) (absint.Val, bool) {
		if _, ok := sl.(*absint.Sym); ok {
			var add []absint.Val
			if es, ok := elems.(*absint.Slice); ok {
				add = es.Elems()
			} else {
				add = []absint.Val{elems}
			}
			r := &absint.Sym{Op: "append", Args: append([]absint.Val{sl}, add...), T: nil}
			addEvent("call", "append", append([]absint.Val{sl}, add...), r, site)
			return r, true
		}
		return nil, false
	}
	in.Edge = func(in *absint.Interp, fr *absint.Frame, from, to *ssa.BasicBlock) bool {
		if fr.Fn != fn {
			return false
		}
		if to == m.Header {
			for i, pr := range m.Header.Preds {
				if pr == from {
					for nm, ph := range m.VarOf {
						path.Final[nm] = in.Get(fr, ph.Edges[i])
					}
				}
			}
			path.End = "next"
			return true
		}
		return false
	}

	// phase A: the entry block
	regs := map[ssa.Value]absint.Val{}
	regs[fn.Params[0]] = &absint.Ptr{Cell: vmCell}
	regs[fn.Params[1]] = absint.NewVar("retResult", types.Typ[types.Bool])
	inA := in
	savedEdge := in.Edge
	in.Edge = func(in *absint.Interp, fr *absint.Frame, from, to *ssa.BasicBlock) bool { return true }
	if _, end := inA.RunFrom(fn, fn.Blocks[0], nil, regs); end == nil || end.Kind != "stop" {
		path.End = fmt.Sprintf("undecided: entry block: %v", end)
		return path
	}
	in.Edge = savedEdge
	path.Events = nil
	// a free list kept in a local slice whose address is taken (handed to the
	// release helper by pointer) lives in a cell, not in a loop variable: at
	// the start of a trip its contents are unknown like any other loop state
	for _, ins := range fn.Blocks[0].Instrs {
		al, ok := ins.(*ssa.Alloc)
		if !ok {
			continue
		}
		et := al.Type().Underlying().(*types.Pointer).Elem()
		if st, isSl := et.Underlying().(*types.Slice); isSl && types.Identical(st.Elem(), ctxPtrT) {
			if pv, ok := regs[al].(*absint.Ptr); ok && pv.Cell != nil {
				pv.Cell.V = absint.NewVar("LOOPVAR."+al.Comment, et)
			}
		}
	}
	// phase B: one trip through the loop body
	regs[m.VarOf["ctxp"]] = &absint.Ptr{Cell: ctx}
	regs[m.VarOf["m"]] = M
	regs[m.VarOf["ip"]] = absint.NewVar("IP", intT)
	regs[m.VarOf["tmp"]] = absint.NewVar("TMP", m.VarOf["tmp"].Type())
	for _, ins := range m.Header.Instrs {
		// any further loop variable (a free list kept in a slice, a counter) is
		// unknown at the start of a trip
		if ph, isPhi := ins.(*ssa.Phi); isPhi {
			if _, set := regs[ph]; !set {
				regs[ph] = absint.NewVar("LOOPVAR."+ph.Comment, ph.Type())
			}
		}
		// other header values (len(*cs) test) are not needed in the body
		if v, ok := ins.(ssa.Value); ok {
			if _, isPhi := ins.(*ssa.Phi); !isPhi {
				if _, set := regs[v]; !set {
					regs[v] = absint.NewVar("hdr."+v.Name(), v.Type())
				}
			}
		}
	}
	res, end := in.RunFrom(fn, m.Body, m.Header, regs)
	path.Conds = append([]string(nil), in.CondLog...)
	path.Idx = append([]absint.IdxRec(nil), in.IdxLog...)
	if hasParent {
		path.Conds = append([]string{"ctxp.parent != nil"}, path.Conds...)
	} else {
		path.Conds = append([]string{"ctxp.parent == nil"}, path.Conds...)
	}
	switch {
	case end == nil:
		path.End = "return"
		if t, ok := res.(*absint.Tuple); ok {
			path.Ret = t.E
		}
	case end.Kind == "stop":
	case path.End == "panic" || path.End == "exit":
	case end.Kind == "panic":
		path.End = "panic"
		path.EndPos = end.Pos
		path.Events = append(path.Events, Event{Kind: "call", Fn: "panic", Args: []string{end.Msg}, Pos: end.Pos})
	default:
		path.End = "undecided: " + end.Error()
		path.EndPos = end.Pos
	}
	return path
}

// fetchModel evaluates vm.fetch for every operand kind.
func (m *Model) fetchModel(s *oblig.Set) {
	m.FetchKinds = map[int64]string{}
	p := m.P
	for kind := int64(0); kind < 8; kind++ {
		o := &absint.Oracle{}
		in := absint.NewInterp(p.SSA, o)
		var ev []string
		aborted := false
		in.Hooks.Call = func(in *absint.Interp, callee *ssa.Function, args []absint.Val, site ssa.Instruction) (absint.Val, bool) {
			pkg := ""
			if callee.Pkg != nil {
				pkg = callee.Pkg.Pkg.Path()
			}
			if pkg == "log" {
				aborted = true
				in.Undecided("log panic", site)
			}
			if strings.HasSuffix(pkg, "/memory") {
				ev = append(ev, "memory."+callee.Name())
				if callee.Signature.Results().Len() == 1 {
					return absint.NewVar("r", callee.Signature.Results().At(0).Type()), true
				}
				return nil, true
			}
			if callee.Name() == "ToString" {
				ev = append(ev, "ds.ToString")
				return &absint.Tuple{E: []absint.Val{absint.NewVar("name", types.Typ[types.String]), absint.MkBool(true)}}, true
			}
			return nil, false
		}
		args := []absint.Val{
			absint.NewVar("VM", nil),
			absint.MkIntT(kind, types.Typ[types.Uint64]),
			absint.NewVar("ADDR", types.Typ[types.Int]),
			absint.NewVar("M", nil),
			absint.NewVar("DS", nil),
		}
		_, end := in.Run(m.Fetch, args)
		switch {
		case aborted || (end != nil && end.Kind == "panic"):
			// not accepted
		case end != nil:
			m.FetchKinds[kind] = "undecided: " + end.Error()
		default:
			d := strings.Join(ev, "+")
			if d == "" {
				d = "data segment"
			}
			m.FetchKinds[kind] = d
		}
	}
	var ks []string
	for k, v := range m.FetchKinds {
		ks = append(ks, m.AddrName[k]+"="+v)
	}
	sort.Strings(ks)
	s.Note("fetch accepts operand kinds: %s", strings.Join(ks, ", "))
}
