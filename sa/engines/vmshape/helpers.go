package vmshape

import (
	"fmt"
	"go/types"
	"os"
	"sort"
	"strings"

	"calcsa/absint"
	"calcsa/load"

	"golang.org/x/tools/go/ssa"
	"golang.org/x/tools/go/ssa/ssautil"
)

// helperRules: hashContext is injective on (call depth, context id) for every
// id the instruction encoding can carry (V15); deleteContext frees the whole
// subtree of a context, empties its child table and only then recycles it (V16).
func (r *ruler) helperRules() {
	p := r.m.P
	_ = p
	// ---- V15
	if fn := r.m.HashFn; fn == nil {
		r.s.Unk("ANCHOR", "vm.hashContext", "-", "not found")
	} else {
		in := absint.NewInterp(p.SSA, &absint.Oracle{})
		in.Hooks.Call = func(in *absint.Interp, callee *ssa.Function, args []absint.Val, site ssa.Instruction) (absint.Val, bool) {
			if callee.Name() == "CallDepth" {
				return absint.NewVar("DEPTH", types.Typ[types.Int]), true
			}
			return nil, false
		}
		res, end := in.Run(fn, []absint.Val{absint.NewVar("M", fn.Params[0].Type()), absint.NewVar("ID", types.Typ[types.Int])})
		key := "vm.hashContext / injective on (call depth, context id)"
		pos := p.Pos(fn.Pos())
		ok := false
		detail := absint.Key(res)
		if s, isS := res.(*absint.Sym); end == nil && isS && (s.Op == "^" || s.Op == "|" || s.Op == "+") && len(s.Args) == 2 {
			var sh, other absint.Val
			for i, a := range s.Args {
				if as, ok := a.(*absint.Sym); ok && as.Op == "<<" {
					sh, other = a, s.Args[1-i]
				}
			}
			if sh != nil {
				k, isK := absint.ConstInt(sh.(*absint.Sym).Args[1])
				w, _ := p.ConstInt("types/bytecode", "SrcChanWidth")
				if isK && k >= w-1 && k <= 40 && strings.Contains(absint.Key(sh.(*absint.Sym).Args[0]), "DEPTH") && strings.Contains(absint.Key(other), "ID") && !strings.Contains(absint.Key(other), "DEPTH") {
					ok = true
					detail = fmt.Sprintf("depth << %d combined with the id; ids are below 2^%d", k, w-1)
				}
			}
		}
		if ok {
			r.s.OK("V15", key, pos, detail)
		} else {
			r.s.Bad("V15", key, pos, "the registration key of an iterator context must keep call depth and context id apart: (depth << k) combined with id, with k at least the number of bits an id can have; otherwise loops at different recursion depths resume each other's iterators. Found "+detail)
		}
	}
	// ---- V16
	fn := r.m.DelFn
	if fn == nil {
		r.s.Unk("ANCHOR", "vm.deleteContext", "-", "not found")
		return
	}
	pos := p.Pos(fn.Pos())
	in := absint.NewInterp(p.SSA, &absint.Oracle{})
	ctxPtrT := r.m.VarOf["ctxp"].Type()
	ctxNamed := ctxPtrT.Underlying().(*types.Pointer).Elem()
	st := absint.Zero(ctxNamed).(*absint.Struct)
	f := append([]absint.Val(nil), st.F...)
	for i := 0; i < r.m.CtxT.NumFields(); i++ {
		f[i] = absint.NewVar("CTX."+r.m.CtxRoles[i], r.m.CtxT.Field(i).Type())
	}
	cell := in.NewCell(&absint.Struct{T: ctxNamed, F: f}, "CTX")
	cell.Name = "CTX"
	var evs []string
	recursive := false
	in.Hooks.Call = func(in *absint.Interp, callee *ssa.Function, args []absint.Val, site ssa.Instruction) (absint.Val, bool) {
		pkg := ""
		if callee.Pkg != nil {
			pkg = callee.Pkg.Pkg.Path()
		}
		if pkg == load.ModPath+"/vm" {
			return nil, false
		}
		sf := shortFn(callee)
		var ks []string
		for _, a := range args {
			ks = append(ks, absint.Key(a))
			// the callback handed to ForEach: does it free the child recursively?
			if cl, ok := a.(*absint.Closure); ok {
				for _, b := range cl.Fn.Blocks {
					for _, ins := range b.Instrs {
						if c, ok := ins.(*ssa.Call); ok {
							if sc := c.Call.StaticCallee(); sc == fn {
								recursive = true
							}
						}
					}
				}
			}
		}
		evs = append(evs, sf+"("+strings.Join(ks, ", ")+")")
		if callee.Signature.Results().Len() == 1 {
			return absint.NewVar(callee.Name()+"()", callee.Signature.Results().At(0).Type()), true
		}
		return nil, true
	}
	in.Hooks.Append = func(in *absint.Interp, sl absint.Val, elems absint.Val, site ssa.Instruction) (absint.Val, bool) {
		// the free list kept in a slice: appending the context is the push
		var ks []string
		if es, ok := elems.(*absint.Slice); ok {
			for _, e := range es.Elems() {
				ks = append(ks, absint.Key(e))
			}
		}
		evs = append(evs, "PushBack("+absint.Key(sl)+", "+strings.Join(ks, ", ")+")")
		return &absint.Sym{Op: "append", Args: []absint.Val{sl, elems}, T: fn.Params[1].Type()}, true
	}
	var freeArg absint.Val = absint.NewVar("FREELIST", fn.Params[1].Type())
	if pt, isPtr := fn.Params[1].Type().Underlying().(*types.Pointer); isPtr {
		if _, isSl := pt.Elem().Underlying().(*types.Slice); isSl {
			// the free list handed over by pointer to a slice
			freeArg = &absint.Ptr{Cell: in.NewCell(absint.NewVar("FREELIST", pt.Elem()), "FREELIST")}
		}
	}
	_, end := in.Run(fn, []absint.Val{&absint.Ptr{Cell: cell}, freeArg})
	key := "vm.deleteContext / frees the subtree, empties the child table, then recycles"
	iFor, iClear, iPush := -1, -1, -1
	for i, e := range evs {
		switch {
		case strings.Contains(e, ".ForEach(CTX.children"):
			iFor = i
		case strings.Contains(e, ".Clear(CTX.children"):
			iClear = i
		case (strings.Contains(e, "PushFront(FREELIST, ") || strings.Contains(e, "PushBack(FREELIST, ") || strings.Contains(e, "PushBack(deref(FREELIST), ")) && strings.Contains(e, "&CTX[]"):
			iPush = i
		}
	}
	if end == nil && recursive && iFor >= 0 && iClear > iFor && iPush > iClear {
		r.s.OK("V16", key, pos, strings.Join(evs, "; "))
	} else {
		r.s.Bad("V16", key, pos, fmt.Sprintf("a context that is destroyed must free each of its own child contexts (recursively: %v), clear its child table and only then go to the free list; a recycled context that still lists children has them freed a second time, and two live iterators end up sharing one context. Found: %s", recursive, strings.Join(evs, "; ")))
	}
}

// releaseSites (V23): who may release a context. A context goes to the free
// list through deleteContext only, and deleteContext is called by the handlers
// of the run loop (DCONT / RCONT, which look the context up in its parent's
// table and unregister it: V8) and by its own recursion over the children. A
// release anywhere else -- the error report walking the failing chain, a
// driver tidying up -- frees a context that is still registered with its
// parent or is freed again by the recursion, and the free list then hands one
// context to two live iterators (seeds C02-Q, C08-Q).
func (r *ruler) releaseSites() {
	p := r.m.P
	_ = p
	del := r.m.DelFn
	if del == nil {
		return // reported by V16
	}
	ctxPtrT := r.m.VarOf["ctxp"].Type()
	isCtx := func(v ssa.Value) bool {
		if mi, ok := v.(*ssa.MakeInterface); ok {
			v = mi.X
		}
		return types.Identical(v.Type(), ctxPtrT)
	}
	within := func(fn, outer *ssa.Function) bool {
		for f := fn; f != nil; f = f.Parent() {
			if f == outer {
				return true
			}
		}
		return false
	}
	var bad []string
	nCalls, nPush := 0, 0
	cg := r.vmCalls()
	for fn := range ssautil.AllFunctions(p.SSA) {
		if fn.Pkg == nil || !strings.HasPrefix(fn.Pkg.Pkg.Path(), load.ModPath) || fn.Blocks == nil {
			continue
		}
		for _, b := range fn.Blocks {
			for _, ins := range b.Instrs {
				var cc *ssa.CallCommon
				switch x := ins.(type) {
				case *ssa.Call:
					cc = &x.Call
				case *ssa.Defer:
					cc = &x.Call
				case *ssa.Go:
					cc = &x.Call
				default:
					// deleteContext taken as a value escapes the rule
					for _, op := range ins.Operands(nil) {
						if *op == ssa.Value(del) {
							bad = append(bad, p.Pos(ins.Pos())+": deleteContext is taken as a function value in "+p.FuncKey(fn))
						}
					}
					continue
				}
				callee := cc.StaticCallee()
				if callee == del {
					nCalls++
					switch {
					case within(fn, del) || within(fn, r.m.Run):
					case fn.Pkg != r.m.Run.Pkg:
						bad = append(bad, p.Pos(ins.Pos())+": "+p.FuncKey(fn)+" (outside package vm) releases a context")
					case cg.fromReport(fn):
						bad = append(bad, p.Pos(ins.Pos())+": "+p.FuncKey(fn)+" releases a context on the error path (the failing chain is still registered with its parents)")
					case cg.fromOutside(fn):
						bad = append(bad, p.Pos(ins.Pos())+": "+p.FuncKey(fn)+" releases a context and can be reached without going through the run loop")
					}
					continue
				}
				if bi, ok := cc.Value.(*ssa.Builtin); ok && bi.Name() == "append" && len(cc.Args) == 2 {
					if st, ok := cc.Args[0].Type().Underlying().(*types.Slice); ok && types.Identical(st.Elem(), ctxPtrT) {
						nPush++
						if !within(fn, del) {
							bad = append(bad, p.Pos(ins.Pos())+": "+p.FuncKey(fn)+" appends a context to a list itself")
						}
					}
				}
				if callee != nil && callee.Pkg != nil && callee.Pkg.Pkg.Path() == "container/list" && (callee.Name() == "PushFront" || callee.Name() == "PushBack" || callee.Name() == "InsertBefore" || callee.Name() == "InsertAfter") {
					for _, a := range cc.Args {
						if isCtx(a) {
							nPush++
							if !within(fn, del) {
								bad = append(bad, p.Pos(ins.Pos())+": "+p.FuncKey(fn)+" puts a context on a list itself")
							}
						}
					}
				}
			}
		}
	}
	key := "vm / contexts are released by the run loop's destruction protocol only"
	switch {
	case len(bad) > 0:
		sort.Strings(bad)
		r.s.Bad("V23", key, strings.SplitN(bad[0], ": ", 2)[0], "a context may only be released by DCONT / RCONT (which unregister it from its parent, V8) and by deleteContext's own recursion; a release anywhere else frees a context that is still registered or is freed again by the recursion, and the free list hands it to two live iterators: "+strings.Join(bad, "; "))
	case nCalls < 2 || nPush < 1:
		r.s.Unk("V23", key, r.pos, fmt.Sprintf("expected the run loop and the recursion to call deleteContext and deleteContext to push onto the free list; found %d call(s), %d push(es)", nCalls, nPush))
	default:
		r.s.OK("V23", key, r.pos, fmt.Sprintf("%d calls of deleteContext (run loop and recursion), %d push onto the free list (inside deleteContext)", nCalls, nPush))
	}
}

// memoryUsers (O7, module wide): the state of a program -- its variables, its
// stacks -- is changed by executing its code and by nothing else. The per
// handler part of O7 shows that inside the run loop only MOV and INC write
// variables; this part shows that nobody outside does: every call of a method
// of memory.Type lies in package memory or package vm, and the two variable
// writers (the methods MOV's destination switch calls) are called from the run
// loop only. A driver that plants a value between two statements (the REPL's
// "ans", seed C16-Q) makes the modes differ and a session depend on how it was
// entered.
func (r *ruler) memoryUsers() {
	p := r.m.P
	memPkg := p.SPkg("memory")
	if memPkg == nil {
		r.s.Unk("ANCHOR", "package memory", "-", "not found")
		return
	}
	// the variable writers: the methods the MOV handler stores through
	writers := map[string]bool{}
	for _, pa := range r.m.Paths["MOV"] {
		for _, ev := range pa.Events {
			if ev.Kind == "call" && strings.Contains(ev.Fn, "memory.Type).Set") {
				writers[ev.Fn[strings.LastIndex(ev.Fn, ".")+1:]] = true
			}
		}
	}
	var bad []string
	n, nw := 0, 0
	cgm := r.vmCalls()
	for fn := range ssautil.AllFunctions(p.SSA) {
		if fn.Pkg == nil || !strings.HasPrefix(fn.Pkg.Pkg.Path(), load.ModPath) || fn.Blocks == nil {
			continue
		}
		inMem := fn.Pkg == memPkg
		inVM := fn.Pkg == r.m.Run.Pkg
		inRun := false
		for f := fn; f != nil; f = f.Parent() {
			if f == r.m.Run {
				inRun = true
			}
		}
		for _, b := range fn.Blocks {
			for _, ins := range b.Instrs {
				var cc *ssa.CallCommon
				switch x := ins.(type) {
				case *ssa.Call:
					cc = &x.Call
				case *ssa.Defer:
					cc = &x.Call
				case *ssa.Go:
					cc = &x.Call
				}
				var callee *ssa.Function
				if cc != nil {
					callee = cc.StaticCallee()
				} else {
					// a method value (m.SetGlobal taken as a function) escapes the rule
					for _, op := range ins.Operands(nil) {
						if f, ok := (*op).(*ssa.Function); ok && f.Pkg == memPkg && f.Signature.Recv() != nil && !inMem {
							if mc, isMC := ins.(*ssa.MakeClosure); !isMC || mc.Fn != *op {
								bad = append(bad, p.Pos(ins.Pos())+": "+p.FuncKey(fn)+" takes the memory method "+f.Name()+" as a value")
							}
						}
					}
					continue
				}
				if callee == nil || callee.Pkg != memPkg || callee.Signature.Recv() == nil {
					continue
				}
				n++
				switch {
				case inMem:
				case !inVM:
					bad = append(bad, p.Pos(ins.Pos())+": "+p.FuncKey(fn)+" calls memory."+callee.Name()+" from outside the VM")
				case writers[callee.Name()]:
					nw++
					if !inRun && cgm.fromOutside(fn) {
						bad = append(bad, p.Pos(ins.Pos())+": "+p.FuncKey(fn)+" writes a variable ("+callee.Name()+") and can be reached without going through the run loop")
					}
				}
			}
		}
	}
	key := "module / program state is changed by the run loop only"
	switch {
	case len(bad) > 0:
		sort.Strings(bad)
		r.s.Bad("O7", key, strings.SplitN(bad[0], ": ", 2)[0], "variables and stacks of a program may be changed by executing its code only (inside vm.Run: MOV and INC write variables); a write from anywhere else makes what a statement sees depend on who ran the statements before it: "+strings.Join(bad, "; "))
	case len(writers) < 2 || nw < 2 || n < 20:
		r.s.Unk("O7", key, r.pos, fmt.Sprintf("expected MOV to store through two variable writers of memory.Type and at least 20 calls of memory methods in the module; found %d writer(s), %d writer call(s), %d call(s)", len(writers), nw, n))
	default:
		r.s.OK("O7", key, r.pos, fmt.Sprintf("%d calls of memory.Type methods, all in packages memory and vm; the %d calls of the variable writers are in the run loop", n, nw))
	}
}

// vmCalls: the static call relation among the functions of the module, for
// the who-may rules. A helper extracted from a handler of the run loop is
// part of the run loop as long as nothing else can reach it.
type vmCallGraph struct {
	r       *ruler
	callers map[*ssa.Function][]*ssa.Function
	callees map[*ssa.Function][]*ssa.Function
}

func (r *ruler) vmCalls() *vmCallGraph {
	g := &vmCallGraph{r: r, callers: map[*ssa.Function][]*ssa.Function{}, callees: map[*ssa.Function][]*ssa.Function{}}
	for fn := range ssautil.AllFunctions(r.m.P.SSA) {
		if fn.Pkg == nil || !strings.HasPrefix(fn.Pkg.Pkg.Path(), load.ModPath) || fn.Blocks == nil {
			continue
		}
		outer := fn
		for outer.Parent() != nil {
			outer = outer.Parent()
		}
		for _, b := range fn.Blocks {
			for _, ins := range b.Instrs {
				if ci, ok := ins.(ssa.CallInstruction); ok {
					if c := ci.Common().StaticCallee(); c != nil {
						g.callers[c] = append(g.callers[c], outer)
						g.callees[outer] = append(g.callees[outer], c)
					}
				}
				// a function used as a value may be called by anyone
				for _, op := range ins.Operands(nil) {
					if f, ok := (*op).(*ssa.Function); ok && f.Parent() == nil {
						if ci, isCall := ins.(ssa.CallInstruction); !isCall || ci.Common().Value != *op {
							g.callers[f] = append(g.callers[f], nil)
						}
					}
				}
			}
		}
	}
	return g
}

// fromOutside: can fn be reached by a chain of calls that does not start in
// the run loop -- from another package, from an exported function or method of
// package vm other than Run, or through a function value?
func (g *vmCallGraph) fromOutside(fn *ssa.Function) bool {
	run := g.r.m.Run
	seen := map[*ssa.Function]bool{}
	var up func(f *ssa.Function) bool
	up = func(f *ssa.Function) bool {
		for f.Parent() != nil {
			f = f.Parent()
		}
		if f == run {
			return false
		}
		if seen[f] {
			return false
		}
		seen[f] = true
		if f.Pkg != run.Pkg {
			return true
		}
		if f.Object() != nil && f.Object().Exported() {
			return true
		}
		cs := g.callers[f]
		if len(cs) == 0 {
			return true // nobody calls it statically: not provably part of the run loop
		}
		for _, c := range cs {
			if c == nil || up(c) {
				return true
			}
		}
		return false
	}
	return up(fn)
}

// fromReport: is fn the error report or reached from it?
func (g *vmCallGraph) fromReport(fn *ssa.Function) bool {
	dump := g.r.m.Dump
	if dump == nil {
		return false
	}
	for fn.Parent() != nil {
		fn = fn.Parent()
	}
	seen := map[*ssa.Function]bool{}
	var down func(f *ssa.Function) bool
	down = func(f *ssa.Function) bool {
		if f == fn {
			return true
		}
		if seen[f] {
			return false
		}
		seen[f] = true
		for _, c := range g.callees[f] {
			if c.Pkg != nil && strings.HasPrefix(c.Pkg.Pkg.Path(), load.ModPath) && down(c) {
				return true
			}
		}
		return false
	}
	return down(dump)
}

// loopState (V0): the handlers of the run loop work on the machine state the
// rules know -- the current context, its memory, the instruction pointer, the
// temp register -- and on the free list of contexts. Any further variable that
// the run loop carries from one instruction to the next is unknown to every
// rule: a handler that consults or changes one behaves in a way that depends
// on which instructions ran before (a frame header remembered by FUNC, seed
// C04-J), and is reported as such rather than judged on the paths that happen
// not to use it. The free list may be a loop variable of its own (a slice of
// contexts): it is used by the context handlers only.
func (r *ruler) loopState() {
	ctxPtrT := r.m.VarOf["ctxp"].Type()
	known := map[ssa.Value]bool{}
	for _, n := range []string{"ctxp", "m", "ip", "tmp"} {
		known[r.m.VarOf[n]] = true
	}
	typeOf := map[string]types.Type{}
	for _, ins := range r.m.Header.Instrs {
		if ph, ok := ins.(*ssa.Phi); ok && !known[ph] {
			typeOf["LOOPVAR."+ph.Comment] = ph.Type()
		}
	}
	if len(typeOf) == 0 {
		r.s.OK("V0", "vm.Run / no loop-carried state beyond the machine state", r.pos, "the run loop carries the context, the memory, the instruction pointer and the temp register only")
		return
	}
	isFreeList := func(name string) bool {
		t, ok := typeOf[name]
		if !ok {
			return false
		}
		st, ok := t.Underlying().(*types.Slice)
		return ok && types.Identical(st.Elem(), ctxPtrT)
	}
	ctxOps := map[string]bool{"CCONT": true, "DCONT": true, "RCONT": true}
	bad := 0
	for _, op := range r.ops() {
		for _, pa := range r.m.Paths[op] {
			var texts []string
			texts = append(texts, pa.Conds...)
			for _, ev := range pa.Events {
				texts = append(texts, ev.Args...)
				texts = append(texts, ev.Res)
			}
			for nm, v := range pa.Final {
				if k := absint.Key(v); k != "LOOPVAR."+nm { // carried round unchanged
					texts = append(texts, k)
				}
			}
			hit := ""
			for _, t := range texts {
				for name := range typeOf {
					if strings.Contains(t, name) && !(isFreeList(name) && ctxOps[op]) {
						hit = name
						if os.Getenv("CALCSA_DEBUG_V0") != "" {
							println("V0 hit", op, t)
						}
					}
				}
			}
			if hit != "" {
				bad++
				if bad <= 3 {
					r.s.Unk("V0", r.key(op, "uses loop-carried state the rules do not know ("+strings.TrimPrefix(hit, "LOOPVAR.")+")"), r.ppos(pa), "the handler consults or changes a variable the run loop carries from one instruction to the next besides the context, the memory, the instruction pointer, the temp register and the free list: what the instruction does then depends on which instructions ran before it, and no rule here models that", pa.Describe()...)
				}
				break
			}
		}
	}
	if bad == 0 {
		var names []string
		for n := range typeOf {
			names = append(names, strings.TrimPrefix(n, "LOOPVAR."))
		}
		sort.Strings(names)
		r.s.OK("V0", "vm.Run / no loop-carried state beyond the machine state", r.pos, "further loop variables ("+strings.Join(names, ", ")+") are used as the free list of contexts by the context handlers only")
	}
}

func (r *ruler) okIf(rule, key string, pa *Path, ok bool, good, bad string) {
	if ok {
		r.s.OK(rule, key, r.ppos(pa), good)
	} else {
		r.s.Bad(rule, key, r.ppos(pa), bad, pa.Describe()...)
	}
}

// readerUses (V12): the process-wide input reader holds read-ahead that
// belongs to later read() calls. Nothing but READ's ReadString may touch it:
// a Reset/Discard drops buffered lines, a second consumer steals them, a
// store replaces the reader together with its buffer.
func (r *ruler) readerUses(name string) {
	key := "vm." + name + " / only READ consumes the shared input reader"
	sp := r.m.P.SPkg("vm")
	if sp == nil {
		return
	}
	g, _ := sp.Members[name].(*ssa.Global)
	if g == nil {
		r.s.Unk("V12", key, r.pos, "the reader READ uses is not a package level variable of package vm")
		return
	}
	var bad []string
	uses := 0
	for fn := range ssautil.AllFunctions(r.m.P.SSA) {
		if fn.Pkg != sp || fn.Blocks == nil {
			continue
		}
		for _, b := range fn.Blocks {
			for _, ins := range b.Instrs {
				switch x := ins.(type) {
				case *ssa.Store:
					if x.Addr == ssa.Value(g) && fn.Name() != "init" {
						bad = append(bad, fmt.Sprintf("%s replaces the reader (%s)", fn.Name(), r.m.P.Pos(x.Pos())))
					}
				case *ssa.UnOp:
					if x.X != ssa.Value(g) {
						continue
					}
					for _, ref := range *x.Referrers() {
						uses++
						c, ok := ref.(*ssa.Call)
						callee := ""
						if ok {
							if sc := c.Call.StaticCallee(); sc != nil {
								callee = sc.String()
							}
						}
						if callee != "(*bufio.Reader).ReadString" || len(c.Call.Args) == 0 || c.Call.Args[0] != ssa.Value(x) {
							what := callee
							if what == "" {
								what = fmt.Sprintf("%T", ref)
							}
							bad = append(bad, fmt.Sprintf("%s uses it in %s (%s)", fn.Name(), what, r.m.P.Pos(ref.Pos())))
						}
					}
				}
			}
		}
	}
	sort.Strings(bad)
	if len(bad) == 0 && uses >= 1 {
		r.s.OK("V12", key, r.pos, fmt.Sprintf("%d use(s), all ReadString", uses))
	} else {
		r.s.Bad("V12", key, r.pos, "the shared reader buffers input beyond the line it returns; any other use loses or steals lines that later read() calls must see: "+strings.Join(bad, "; "))
	}
}

// jumpRules (V18): the control transfer the compiler rules assume. JMP
// continues at ip + src0 (one signed operand, nothing else), JMPF / JMPT at
// ip + src1 when the condition is false / true and at ip + 1 otherwise; an
// instruction that is not a control instruction continues at ip + 1.
func (r *ruler) jumpRules() {
	ipOf := func(pa *Path) string { return absint.Key(pa.Final["ip"]) }
	for _, pa := range r.normal("JMP") {
		key := r.key("JMP", "continues at ip + src0")
		r.okIf("V18", key, pa, ipOf(pa) == "(A0+IP)" && len(events(pa, "fetch", "")) == 0, "ip + src0", "an unconditional jump must continue at ip + src0 exactly (the compiler patches the distance between two code positions into that one operand); it continues at "+ipOf(pa))
	}
	for _, op := range []string{"JMPF", "JMPT"} {
		taken, fall := 0, 0
		for _, pa := range r.normal(op) {
			c := condsWith(pa, "ToBool.0")
			if len(c) != 1 {
				r.s.Bad("V18", r.key(op, "decides on the condition value"), r.ppos(pa), "the path does not decide on the boolean value of the condition", pa.Describe()...)
				continue
			}
			isTrue := strings.HasSuffix(c[0], ":= true")
			jumps := isTrue == (op == "JMPT")
			if jumps {
				taken++
				r.okIf("V18", r.key(op, "taken: continues at ip + src1"), pa, ipOf(pa) == "(A1+IP)", "ip + src1", fmt.Sprintf("%s with a %v condition must continue at ip + src1; it continues at %s", op, isTrue, ipOf(pa)))
			} else {
				fall++
				r.okIf("V18", r.key(op, "not taken: continues at the next instruction"), pa, ipOf(pa) == "(IP+1)", "ip + 1", fmt.Sprintf("%s with a %v condition must fall through; it continues at %s", op, isTrue, ipOf(pa)))
			}
		}
		if taken == 0 || fall == 0 {
			r.s.Bad("V18", r.key(op, "both outcomes"), r.pos, fmt.Sprintf("%s must have a taken and a fall-through outcome (found %d / %d)", op, taken, fall))
		}
	}
	// everything that is not a control instruction falls through
	control := map[string]bool{"JMP": true, "JMPF": true, "JMPT": true, "CALL": true, "RET": true, "YIELD": true, "CCONT": true, "SCONT": true, "DCONT": true, "RCONT": true, "EXIT": true}
	n := 0
	var bad []string
	for _, op := range r.ops() {
		if control[op] {
			continue
		}
		for _, pa := range r.m.Paths[op] {
			if pa.End != "next" {
				continue
			}
			n++
			if ipOf(pa) != "(IP+1)" {
				bad = append(bad, op+" continues at "+ipOf(pa))
			}
		}
	}
	sort.Strings(bad)
	if len(bad) == 0 && n > 100 {
		r.s.OK("V18", "vm.Run / every other instruction continues at ip + 1", r.pos, fmt.Sprintf("%d successful handler paths", n))
	} else {
		r.s.Bad("V18", "vm.Run / every other instruction continues at ip + 1", r.pos, fmt.Sprintf("%d paths; offenders: %s", n, strings.Join(bad, "; ")))
	}
}

// atonRule (V19): aton reads its argument as a decimal integer, else as a
// float, else it is a conversion error; the text converted is the argument
// itself (no trimming, no other base), and the result is pushed as Int / Float.
func (r *ruler) atonRule() {
	n := 0
	for _, pa := range r.normal("ATON") {
		if pa.Conds[0] != "ctxp.parent == nil" {
			continue
		}
		n++
		ts := events(pa, "call", ".ToString")
		if len(ts) != 1 || ts[0].Args[0] != "V0" {
			r.s.Bad("V19", r.key("ATON", "converts its operand"), r.ppos(pa), "aton must convert the string payload of its operand", pa.Describe()...)
			continue
		}
		text := strings.TrimPrefix(strings.Split(ts[0].Res, ", ")[0], "(")
		var convs []string
		for _, ev := range pa.Events {
			if ev.Kind == "call" && strings.HasPrefix(ev.Fn, "strconv.") {
				convs = append(convs, strings.TrimPrefix(ev.Fn, "strconv.")+"("+strings.Join(ev.Args, ",")+")")
			}
		}
		intForms := map[string]bool{"Atoi(" + text + ")": true, "ParseInt(" + text + ",10,64)": true, "ParseInt(" + text + ",10,0)": true}
		floatForm := "ParseFloat(" + text + ",64)"
		ok := false
		what := ""
		switch {
		case len(convs) == 1 && intForms[convs[0]] && len(events(pa, "call", "value.NewInt")) == 1:
			ok, what = true, "decimal integer"
		case len(convs) == 2 && intForms[convs[0]] && convs[1] == floatForm && len(events(pa, "call", "value.NewFloat")) == 1:
			ok, what = true, "float after the integer conversion failed"
		}
		key := r.key("ATON", fmt.Sprintf("decimal integer, else float (success path %d)", n))
		r.okIf("V19", key, pa, ok, what, "aton converts exactly its argument text with the decimal integer conversion (strconv.Atoi / ParseInt base 10) and, if that fails, with ParseFloat(text, 64): another base accepts 0x10 and reads 010 as 8, a trimmed or otherwise edited text accepts strings the documentation calls conversion errors; found "+strings.Join(convs, " then "))
	}
	if n < 2 {
		r.s.Bad("V19", r.key("ATON", "success paths"), r.pos, fmt.Sprintf("aton must have an integer and a float success path, found %d", n))
	}
	// the conversion error is what is left when both conversions have refused
	// the text: a text rejected before they were asked (a format filter, a
	// length limit) makes aton(toa(n)) fail for numbers toa can print -- three
	// digit exponents, for one (seed C17-R)
	nConv := 0
	var early *Path
	for _, pa := range r.m.Paths["ATON"] {
		if pa.End != "return" || len(pa.Ret) != 2 || absint.Key(pa.Ret[1]) != "global vm.ErrConversion" {
			continue
		}
		nConv++
		ints, floats := 0, 0
		for _, ev := range pa.Events {
			if ev.Kind == "call" && strings.HasPrefix(ev.Fn, "strconv.") {
				if strings.Contains(ev.Fn, "ParseFloat") {
					floats++
				} else {
					ints++
				}
			}
		}
		if (ints == 0 || floats == 0) && early == nil {
			early = pa
		}
	}
	key := r.key("ATON", "a conversion error only after both conversions refused the text")
	switch {
	case early != nil:
		r.s.Bad("V19", key, r.ppos(early), "aton reports a conversion error for a text it has not handed to both the integer and the float conversion: whatever filter decides that, it refuses texts the conversions accept, and toa prints some of them", early.Describe()...)
	case nConv == 0:
		r.s.Bad("V19", key, r.pos, "aton has no conversion-error exit")
	default:
		r.s.OK("V19", key, r.pos, fmt.Sprintf("%d conversion-error exit(s), each after the integer and the float conversion failed", nConv))
	}
}

// boundsRule (V20): every index or slice expression a handler evaluates on a
// value it does not own is within bounds on that path. The code and data
// segments are addressed by what the compiler emitted (B3/V18 keep ip inside
// the code, B10/E2 make data operands address entries that exist); anything
// else — the text of a string operand, a payload — must be guarded by a
// comparison on the same path, otherwise the expression aborts the interpreter
// for some operand ("index out of range").
func (r *ruler) boundsRule() {
	type site struct {
		pos  string
		what string
	}
	unproved := map[string]site{}
	n, seg := 0, 0
	for _, op := range r.ops() {
		for _, pa := range r.m.Paths[op] {
			for _, ix := range pa.Idx {
				n++
				if strings.Contains(ix.X, "CR.CS") || strings.Contains(ix.X, "CR.DS") {
					seg++
					continue
				}
				if !ix.Proved {
					k := op + " / " + ix.Kind + " of " + ix.X
					if _, dup := unproved[k]; !dup {
						unproved[k] = site{r.m.P.Pos(ix.Site.Pos()), ix.String()}
					}
				}
			}
		}
	}
	key := "vm.Run / index and slice expressions in handlers are within bounds"
	if len(unproved) == 0 {
		r.s.OK("V20", key, r.pos, fmt.Sprintf("%d expressions on symbolic containers, %d into the code / data segment (compiler rules), the others guarded on their path", n, seg))
		return
	}
	for _, k := range load.SortedKeys(unproved) {
		r.s.Bad("V20", r.key(strings.SplitN(k, " / ", 2)[0], "unguarded "+strings.SplitN(k, " / ", 2)[1]), unproved[k].pos, "no comparison on this path establishes the bound of "+unproved[k].what+": for some operand value the expression indexes out of range and the Go runtime aborts the interpreter")
	}
}

// errorExits (V21): which runtime errors an instruction may end the run with.
// The table is the documented error behaviour (Readme "errors", the property
// text of C05/C17): anything else an instruction reports is a new way for a
// program to fail (a yield with no enclosing loop "only evaluates to its
// operand"), and an error that disappears is covered by V10.
var errorExits = map[string][]string{
	"CALL": {"global value.ErrType", "global vm.ErrArity"}, "ATON": {"global value.ErrType", "global vm.ErrConversion"},
	"MOV": {"global value.ErrNil"}, "JMPF": {"global value.ErrType", "global value.ErrNil"}, "JMPT": {"global value.ErrType", "global value.ErrNil"},
	"READ": {"fmt.Errorf(\"read error"},
}

func (r *ruler) errorExits() {
	isOperator := func(op string) bool {
		_, ok := r.m.Effects()[op]
		return ok
	}
	_ = isOperator
	bad := 0
	n := 0
	for _, op := range r.ops() {
		allowed, listed := errorExits[op]
		for _, pa := range r.m.Paths[op] {
			if pa.End != "return" || len(pa.Ret) != 2 || absint.IsNil(pa.Ret[1]) {
				continue
			}
			ek := absint.Key(pa.Ret[1])
			n++
			// operator instructions hand on the error of the value method they call
			fromMethod := false
			for _, ev := range pa.Events {
				if ev.Kind == "call" && strings.Contains(ev.Fn, "value.Type).") && strings.Contains(ev.Res, ek) {
					fromMethod = true
				}
			}
			if fromMethod {
				continue
			}
			if os.Getenv("CALCSA_DUMP_V21") != "" {
				fmt.Printf("v21 %s -> %s\n", op, ek)
			}
			ok := false
			for _, a := range allowed {
				if a == "*" || a == ek || strings.HasPrefix(ek, a) || strings.Contains(ek, a) {
					ok = true
				}
			}
			if !ok || !listed {
				bad++
				r.s.Bad("V21", r.key(op, "may end the run with "+short60(ek)), r.ppos(pa), "this instruction has no documented way of failing with that error (the errors an instruction can raise are part of the language: an operator's own error, a type error for a non-function / non-boolean / non-string, arity, conversion, nil assignment, read error); here it reports "+ek+" on its own", pa.Describe()...)
			}
		}
	}
	if bad == 0 {
		r.s.OK("V21", "vm.Run / instructions fail only with their documented errors", r.pos, fmt.Sprintf("%d error exits examined: each is the error of the operator method called, or one of the instruction's documented errors", n))
	}
}

func short60(s string) string {
	if len(s) > 60 {
		return s[:57] + "..."
	}
	return s
}
