package vmshape

import (
	"fmt"
	"go/types"
	"strings"

	"calcsa/absint"
	"calcsa/load"

	"golang.org/x/tools/go/ssa"
)

// helperRules: hashContext is injective on (call depth, context id) for every
// id the instruction encoding can carry (V15); deleteContext frees the whole
// subtree of a context, empties its child table and only then recycles it (V16).
func (r *ruler) helperRules() {
	p := r.m.P
	sp := p.SPkg("vm")
	// ---- V15
	if fn := sp.Func("hashContext"); fn == nil {
		r.s.Unk("ANCHOR", "vm.hashContext", "-", "not found")
	} else {
		in := absint.NewInterp(p.SSA, &absint.Oracle{})
		in.Hooks.Call = func(in *absint.Interp, callee *ssa.Function, args []absint.Val, site ssa.Instruction) (absint.Val, bool) {
			if callee.Name() == "CallDepth" {
				return absint.NewVar("DEPTH", types.Typ[types.Int]), true
			}
			return nil, false
		}
		res, end := in.Run(fn, []absint.Val{absint.NewVar("M", fn.Params[0].Type()), absint.NewVar("ID", types.Typ[types.Int])})
		key := "vm.hashContext / injective on (call depth, context id)"
		pos := p.Pos(fn.Pos())
		ok := false
		detail := absint.Key(res)
		if s, isS := res.(*absint.Sym); end == nil && isS && (s.Op == "^" || s.Op == "|" || s.Op == "+") && len(s.Args) == 2 {
			var sh, other absint.Val
			for i, a := range s.Args {
				if as, ok := a.(*absint.Sym); ok && as.Op == "<<" {
					sh, other = a, s.Args[1-i]
				}
			}
			if sh != nil {
				k, isK := absint.ConstInt(sh.(*absint.Sym).Args[1])
				w, _ := p.ConstInt("types/bytecode", "SrcChanWidth")
				if isK && k >= w-1 && k <= 40 && strings.Contains(absint.Key(sh.(*absint.Sym).Args[0]), "DEPTH") && strings.Contains(absint.Key(other), "ID") && !strings.Contains(absint.Key(other), "DEPTH") {
					ok = true
					detail = fmt.Sprintf("depth << %d combined with the id; ids are below 2^%d", k, w-1)
				}
			}
		}
		if ok {
			r.s.OK("V15", key, pos, detail)
		} else {
			r.s.Bad("V15", key, pos, "the registration key of an iterator context must keep call depth and context id apart: (depth << k) combined with id, with k at least the number of bits an id can have; otherwise loops at different recursion depths resume each other's iterators. Found "+detail)
		}
	}
	// ---- V16
	fn := sp.Func("deleteContext")
	if fn == nil {
		r.s.Unk("ANCHOR", "vm.deleteContext", "-", "not found")
		return
	}
	pos := p.Pos(fn.Pos())
	in := absint.NewInterp(p.SSA, &absint.Oracle{})
	ctxPtrT := r.m.VarOf["ctxp"].Type()
	ctxNamed := ctxPtrT.Underlying().(*types.Pointer).Elem()
	st := absint.Zero(ctxNamed).(*absint.Struct)
	f := append([]absint.Val(nil), st.F...)
	for i := 0; i < r.m.CtxT.NumFields(); i++ {
		f[i] = absint.NewVar("CTX."+r.m.CtxT.Field(i).Name(), r.m.CtxT.Field(i).Type())
	}
	cell := in.NewCell(&absint.Struct{T: ctxNamed, F: f}, "CTX")
	cell.Name = "CTX"
	var evs []string
	recursive := false
	in.Hooks.Call = func(in *absint.Interp, callee *ssa.Function, args []absint.Val, site ssa.Instruction) (absint.Val, bool) {
		pkg := ""
		if callee.Pkg != nil {
			pkg = callee.Pkg.Pkg.Path()
		}
		if pkg == load.ModPath+"/vm" {
			return nil, false
		}
		sf := shortFn(callee)
		var ks []string
		for _, a := range args {
			ks = append(ks, absint.Key(a))
			// the callback handed to ForEach: does it free the child recursively?
			if cl, ok := a.(*absint.Closure); ok {
				for _, b := range cl.Fn.Blocks {
					for _, ins := range b.Instrs {
						if c, ok := ins.(*ssa.Call); ok {
							if sc := c.Call.StaticCallee(); sc == fn {
								recursive = true
							}
						}
					}
				}
			}
		}
		evs = append(evs, sf+"("+strings.Join(ks, ", ")+")")
		if callee.Signature.Results().Len() == 1 {
			return absint.NewVar(callee.Name()+"()", callee.Signature.Results().At(0).Type()), true
		}
		return nil, true
	}
	_, end := in.Run(fn, []absint.Val{&absint.Ptr{Cell: cell}, absint.NewVar("FREELIST", fn.Params[1].Type())})
	key := "vm.deleteContext / frees the subtree, empties the child table, then recycles"
	iFor, iClear, iPush := -1, -1, -1
	for i, e := range evs {
		switch {
		case strings.Contains(e, ".ForEach(CTX.children"):
			iFor = i
		case strings.Contains(e, ".Clear(CTX.children"):
			iClear = i
		case (strings.Contains(e, "PushFront(FREELIST, ") || strings.Contains(e, "PushBack(FREELIST, ")) && strings.Contains(e, "&CTX[]"):
			iPush = i
		}
	}
	if end == nil && recursive && iFor >= 0 && iClear > iFor && iPush > iClear {
		r.s.OK("V16", key, pos, strings.Join(evs, "; "))
	} else {
		r.s.Bad("V16", key, pos, fmt.Sprintf("a context that is destroyed must free each of its own child contexts (recursively: %v), clear its child table and only then go to the free list; a recycled context that still lists children has them freed a second time, and two live iterators end up sharing one context. Found: %s", recursive, strings.Join(evs, "; ")))
	}
}

func (r *ruler) okIf(rule, key string, pa *Path, ok bool, good, bad string) {
	if ok {
		r.s.OK(rule, key, r.ppos(pa), good)
	} else {
		r.s.Bad(rule, key, r.ppos(pa), bad, pa.Describe()...)
	}
}
