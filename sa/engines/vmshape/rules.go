package vmshape

import (
	"fmt"
	"sort"
	"strconv"
	"strings"
	"sync"

	"calcsa/absint"
	"calcsa/load"
	"calcsa/oblig"
)

// Effect is the per-opcode effect table handed to other engines (V8).
type Effect struct {
	Op        string
	Fetch     []int // slots fetched on the normal path, in order
	Pushes    int   // pushes on the current memory on the normal path
	ReadsTmp  bool
	WritesTmp bool
	Method    string          // value operator method, if any
	MethodOp  int64           // opcode constant handed to the method (-1: none)
	Control   string          // "", "jump", "cjump", "call", "ret", "ccont", "dcont", "rcont", "scont", "yield", "exit"
	DstKinds  map[int][]int64 // slot -> accepted destination kinds (MOV/INC), read off the clause
	Unique    bool
}

var (
	modelOnce sync.Once
	model     *Model
	modelSet  *oblig.Set
)

// Shared returns the model extracted once per process.
func Shared(p *load.Program) (*Model, *oblig.Set) {
	modelOnce.Do(func() {
		modelSet = oblig.NewSet()
		model = Extract(p, modelSet)
	})
	return model, modelSet
}

// Run applies the V-rules.
func Run(p *load.Program, tier string) *oblig.Set {
	m, es := Shared(p)
	s := oblig.NewSet()
	s.Merge(es)
	if m == nil {
		return s
	}
	r := &ruler{m: m, s: s, pos: p.Pos(m.Run.Pos())}
	r.undecided()
	r.v1()
	r.v3()
	r.v4()
	r.v5()
	r.v6()
	r.v7()
	r.v10()
	r.v11()
	r.ctxIDs()
	r.dumpRule()
	r.windowRule()
	r.arrRule()
	r.loopExit()
	r.captures()
	r.helperRules()
	r.jumpRules()
	r.atonRule()
	r.boundsRule()
	r.errorExits()
	r.releaseSites()
	r.loopState()
	r.memoryUsers()
	r.dflt()
	r.effects()
	return s
}

type ruler struct {
	m       *Model
	s       *oblig.Set
	pos     string
	seen13d bool
	seen13e bool
	seen13eY bool
}

func (r *ruler) key(op, what string) string { return "vm.Run / " + op + " / " + what }

func (r *ruler) ppos(pa *Path) string {
	for _, e := range pa.Events {
		if e.Pos.IsValid() {
			return r.m.P.Pos(e.Pos)
		}
	}
	return r.pos
}

func (r *ruler) ops() []string {
	var out []string
	for _, n := range load.SortedKeys(r.m.Paths) {
		if n != "<undeclared>" {
			out = append(out, n)
		}
	}
	return out
}

func (r *ruler) undecided() {
	for _, op := range r.ops() {
		for _, pa := range r.m.Paths[op] {
			if strings.HasPrefix(pa.End, "undecided") {
				r.s.Unk("V0", r.key(op, "path"), r.ppos(pa), "the clause could not be evaluated: "+pa.End, pa.Describe()...)
			}
		}
	}
}

func events(pa *Path, kind, fnSuffix string) []Event {
	var out []Event
	for _, e := range pa.Events {
		if e.Kind == kind && (fnSuffix == "" || strings.HasSuffix(e.Fn, fnSuffix)) {
			out = append(out, e)
		}
	}
	return out
}

func slotOf(k string) int {
	if len(k) == 2 && (k[0] == 'K' || k[0] == 'A' || k[0] == 'V') && k[1] >= '0' && k[1] <= '2' {
		return int(k[1] - '0')
	}
	return -1
}

// V1: fetch(instr.SrcK(), instr.SrcKAddr(), m, ds): same K, current memory.
func (r *ruler) v1() {
	seen := map[string]bool{}
	for _, op := range r.ops() {
		for _, pa := range r.m.Paths[op] {
			for i, e := range events(pa, "fetch", "") {
				key := r.key(op, fmt.Sprintf("fetch #%d", i))
				if seen[key] {
					continue
				}
				seen[key] = true
				ks, as := slotOf(e.Args[0]), slotOf(e.Args[1])
				addrOK := as == ks || (strings.HasPrefix(e.Args[1], "3") || strings.HasPrefix(e.Args[1], "4")) // concrete ranges used for DCONT/RCONT
				if ks >= 0 && e.Args[0][0] == 'K' && as == ks && e.Args[1][0] == 'A' && e.Args[2] == "M" && strings.HasSuffix(e.Args[3], "DS") {
					r.s.OK("V1", key, r.m.P.Pos(e.Pos), fmt.Sprintf("fetch(Src%d, Src%dAddr, m, ds)", ks, ks))
				} else {
					_ = addrOK
					r.s.Bad("V1", key, r.m.P.Pos(e.Pos), "operand fetch pairs the kind of one slot with the address of another, or reads another memory: fetch("+strings.Join(e.Args, ", ")+")")
				}
			}
		}
	}
}

// opFamily is the reference binding of opcodes to value operator methods
// (value.go: "Arith is value arithmetics, +, -, * /", "Relational is value
// relational <, >, <= ...", ...; bytecode.go: "ADD pushes src1+src0", ...).
var opFamily = map[string]struct {
	method string
	withOp bool
	arity  int
}{
	"ADD": {"Arith", true, 2}, "SUB": {"Arith", true, 2}, "MUL": {"Arith", true, 2}, "DIV": {"Arith", true, 2},
	"MOD": {"Mod", false, 2},
	"AND": {"Logic", true, 2}, "OR": {"Logic", true, 2},
	"LSH": {"Shift", true, 2}, "RSH": {"Shift", true, 2},
	"LT": {"Relational", true, 2}, "GT": {"Relational", true, 2}, "LE": {"Relational", true, 2}, "GE": {"Relational", true, 2},
	"EQ": {"Eq", true, 2}, "NE": {"Eq", true, 2},
	"NOT": {"Not", false, 1}, "FLIP": {"Flip", false, 1}, "LEN": {"Len", false, 1},
	"IX1": {"Index", false, 2}, "IX2": {"Index", false, 3},
}

func (r *ruler) normal(op string) []*Path {
	var out []*Path
	for _, pa := range r.m.Paths[op] {
		if pa.End == "next" {
			out = append(out, pa)
		}
	}
	return out
}

// V3 (+V2, V5 for TMP): operator binding and operand order.
func (r *ruler) v3() {
	for _, op := range r.ops() {
		base := strings.TrimSuffix(op, "TMP")
		isTmp := base != op && op != "PUSHTMP"
		fam, ok := opFamily[base]
		if !ok {
			continue
		}
		for _, pa := range r.normal(op) {
			if pa.Conds[0] != "ctxp.parent == nil" {
				continue
			}
			key := r.key(op, "operator call")
			var want string
			baseVal := r.m.OpConsts[base]
			opArg := ""
			if fam.withOp {
				opArg = fmt.Sprintf("%d, ", baseVal)
			}
			var wantFetch []string
			switch {
			case !isTmp && fam.arity == 2:
				wantFetch = []string{"V0", "V1"}
				want = fmt.Sprintf("(value.Type).%s(V1, %sV0)", fam.method, opArg)
			case !isTmp && fam.arity == 3:
				wantFetch = []string{"V0", "V1", "V2"}
				want = fmt.Sprintf("(value.Type).%s(V2, slice[V1,V0])", fam.method)
			case !isTmp && fam.arity == 1:
				wantFetch = []string{"V0"}
				want = fmt.Sprintf("(value.Type).%s(V0)", fam.method)
			case isTmp && fam.arity == 2:
				wantFetch = []string{"V0"}
				want = fmt.Sprintf("(value.Type).%s(TMP, %sV0)", fam.method, opArg)
			case isTmp && fam.arity == 1:
				want = fmt.Sprintf("(value.Type).%s(TMP)", fam.method)
			}
			if base == "IX1" {
				want = "(value.Type).Index(V1, slice[V0])"
			}
			var gotFetch []string
			for _, e := range events(pa, "fetch", "") {
				gotFetch = append(gotFetch, e.Res)
			}
			var call *Event
			for i, e := range pa.Events {
				if e.Kind == "call" && strings.HasPrefix(e.Fn, "(value.Type).") {
					call = &pa.Events[i]
					break
				}
			}
			got := "<no operator call>"
			if call != nil {
				got = call.Fn + "(" + strings.Join(call.Args, ", ") + ")"
			}
			if got == want && strings.Join(gotFetch, ",") == strings.Join(wantFetch, ",") {
				r.s.OK("V3", key, r.ppos(pa), "fetches "+strings.Join(gotFetch, ",")+" then "+got)
			} else {
				r.s.Bad("V3", key, r.ppos(pa), fmt.Sprintf("expected fetch order [%s] and call %s (left operand = receiver, right operand = argument, base opcode of the TMP variant); found fetch [%s] and %s", strings.Join(wantFetch, ","), want, strings.Join(gotFetch, ","), got), pa.Describe()...)
			}
			// result placement
			key2 := r.key(op, "result")
			if call == nil {
				continue
			}
			res0 := strings.TrimSuffix(strings.TrimPrefix(strings.Split(call.Res, ", ")[0], "("), ")")
			if isTmp {
				if absint.Key(pa.Final["tmp"]) == res0 && len(events(pa, "call", ".Push")) == 0 {
					r.s.OK("V3", key2, r.ppos(pa), "result goes to tmp, nothing pushed")
				} else {
					r.s.Bad("V3", key2, r.ppos(pa), "the TMP variant must leave the operator result in tmp and push nothing; tmp="+absint.Key(pa.Final["tmp"]), pa.Describe()...)
				}
			} else {
				ps := events(pa, "call", ".Push")
				if len(ps) == 1 && ps[0].Args[0] == "M" && ps[0].Args[1] == res0 && absint.Key(pa.Final["tmp"]) == "TMP" {
					r.s.OK("V3", key2, r.ppos(pa), "result pushed once, tmp untouched")
				} else {
					r.s.Bad("V3", key2, r.ppos(pa), "the operator result must be pushed exactly once on the current memory and tmp left alone", pa.Describe()...)
				}
			}
			break
		}
	}
}

// V4: error discipline of every returning path.
func (r *ruler) v4() {
	for _, op := range r.ops() {
		n := 0
		for _, pa := range r.m.Paths[op] {
			if pa.End != "return" {
				continue
			}
			n++
			key := r.key(op, fmt.Sprintf("error return #%d", n))
			if len(pa.Ret) != 2 {
				r.s.Bad("V4", key, r.ppos(pa), "returning path without (value, error) result", pa.Describe()...)
				continue
			}
			if absint.IsNil(pa.Ret[1]) {
				r.s.Bad("V4", key, r.ppos(pa), "an instruction handler returns from the run loop with a nil error", pa.Describe()...)
				continue
			}
			last := pa.Events[len(pa.Events)-1]
			if last.Fn != "dumpStack" {
				r.s.Bad("V4", key, r.ppos(pa), "a failure leaves the run loop without going through dumpStack: the report and the state reset are skipped", pa.Describe()...)
				continue
			}
			var fetched []string
			for _, e := range events(pa, "fetch", "") {
				fetched = append([]string{e.Res}, fetched...)
			}
			// an instruction that takes its left operand from the temp register
			// saw that value too: it leads the operands of the report (D34)
			for _, e := range pa.Events {
				if e.Kind == "call" && strings.Contains(e.Fn, "value.Type).") && len(e.Args) > 0 && e.Args[0] == "TMP" {
					fetched = append([]string{"TMP"}, fetched...)
					break
				}
			}
			shown := last.Args[3:]
			errKey := absint.Key(pa.Ret[1])
			ok := last.Args[0] == "&CTX[]" && last.Args[1] == "IP" && last.Args[2] == errKey && strings.Join(shown, ",") == strings.Join(fetched, ",")
			if ok {
				r.s.OK("V4", key, r.m.P.Pos(last.Pos), "dumpStack(current context, current ip, the error returned, operands "+strings.Join(last.Args[3:], ",")+")")
			} else {
				r.s.Bad("V4", key, r.m.P.Pos(last.Pos), fmt.Sprintf("dumpStack(%s) but context must be the current one (&CTX[]), ip the failing one (IP), the error the returned one (%s) and the values the operands the instruction saw - the temp register first when it is the left operand, then the fetched operands in descending slot order (%s)", strings.Join(last.Args, ", "), errKey, strings.Join(fetched, ",")), pa.Describe()...)
			}
		}
	}
}

func condHas(pa *Path, s string) bool {
	for _, c := range pa.Conds {
		if c == s {
			return true
		}
	}
	return false
}

func condsWith(pa *Path, sub string) []string {
	var out []string
	for _, c := range pa.Conds {
		if strings.Contains(c, sub) {
			out = append(out, c)
		}
	}
	return out
}

// dstTable reads the destination switch of MOV / INC: kind -> store event.
func (r *ruler) dstTable(op string, slot int) map[int64]string {
	out := map[int64]string{}
	for _, pa := range r.normal(op) {
		if pa.Conds[0] != "ctxp.parent == nil" {
			continue
		}
		if op == "MOV" && !condHas(pa, fmt.Sprintf("==(K0,%d) := false", r.m.AddrK["AddrTmp"])) {
			continue
		}
		for _, c := range pa.Conds {
			pre := fmt.Sprintf("==(K%d,", slot)
			if strings.HasPrefix(c, pre) && strings.HasSuffix(c, ") := true") {
				var k int64
				fmt.Sscanf(c[len(pre):], "%d", &k)
				what := "tmp"
				if e := events(pa, "call", ".Set"); len(e) == 1 {
					what = "Set(" + strings.Join(e[0].Args, ",") + ")"
				}
				if e := events(pa, "call", ".SetGlobal"); len(e) == 1 {
					ts := events(pa, "call", ".ToString")
					src := ""
					if len(ts) > 0 {
						src = ts[len(ts)-1].Args[0]
					}
					what = "SetGlobal(name of " + src + ", " + e[0].Args[2] + ")"
				}
				out[k] = what
			}
		}
	}
	return out
}

// V5: INC = Arith(ADD, 1) on the operand, stored through the same
// destination switch as MOV.
func (r *ruler) v5() {
	add := r.m.OpConsts["ADD"]
	var good *Path
	for _, pa := range r.normal("INC") {
		good = pa
		break
	}
	key := r.key("INC", "computes operand + 1")
	if good == nil {
		r.s.Bad("V5", key, r.pos, "INC has no successful path")
		return
	}
	ok := false
	var ni, ar []Event
	ni = events(good, "call", "value.NewInt")
	ar = events(good, "call", ".Arith")
	if len(ni) == 1 && len(ar) == 1 && ni[0].Args[0] == "1" && len(ar[0].Args) == 3 {
		a := ar[0].Args
		if (a[0] == "V0" && a[2] == ni[0].Res || a[2] == "V0" && a[0] == ni[0].Res) && a[1] == fmt.Sprint(add) {
			ok = true
		}
	}
	if ok {
		r.s.OK("V5", key, r.ppos(good), "Arith(ADD) of the fetched operand and NewInt(1): the same method and opcode as x + 1")
	} else {
		r.s.Bad("V5", key, r.ppos(good), "INC must compute Arith(ADD) of the fetched operand and the integer 1, like x + 1 / 1 + x", good.Describe()...)
	}
	mov := r.dstTable("MOV", 1)
	inc := r.dstTable("INC", 0)
	for _, kn := range []string{"AddrLcl", "AddrGbl"} {
		k := r.m.AddrK[kn]
		key := r.key("INC", "destination "+kn)
		mi := strings.NewReplacer("A1", "A", "V0", "VAL").Replace(mov[k])
		ii := strings.NewReplacer("A0", "A").Replace(inc[k])
		// normalise the stored value
		if i := strings.LastIndex(ii, ","); i > 0 && strings.HasPrefix(ii, "Set(") {
			ii = ii[:i] + ",VAL)"
		}
		if i := strings.LastIndex(ii, ", "); i > 0 && strings.HasPrefix(ii, "SetGlobal(") {
			ii = ii[:i] + ", VAL)"
		}
		if mi != "" && mi == ii {
			r.s.OK("V5", key, r.pos, "INC stores like MOV: "+ii)
		} else {
			r.s.Bad("V5", key, r.pos, fmt.Sprintf("INC and MOV disagree on how a %s destination is written: MOV %q, INC %q", kn, mov[k], inc[k]))
		}
	}
	// who may write variables (O7): Set / SetGlobal only in MOV and INC
	for _, op := range r.ops() {
		for _, pa := range r.m.Paths[op] {
			w := len(events(pa, "call", "memory.Type).Set")) + len(events(pa, "call", ".SetGlobal"))
			if w > 0 && op != "MOV" && op != "INC" {
				r.s.Bad("O7", r.key(op, "writes a variable"), r.ppos(pa), "only MOV and INC may write variables", pa.Describe()...)
			}
		}
	}
	for _, op := range []string{"MOV", "INC"} {
		slot := 1
		if op == "INC" {
			slot = 0
		}
		t := r.dstTable(op, slot)
		lk, gk := r.m.AddrK["AddrLcl"], r.m.AddrK["AddrGbl"]
		if strings.HasPrefix(t[lk], "Set(M,A") && strings.HasPrefix(t[gk], "SetGlobal(") {
			r.s.OK("O7", r.key(op, "variable writes"), r.pos, "local destination -> Set, global destination -> SetGlobal")
		} else {
			r.s.Bad("O7", r.key(op, "variable writes"), r.pos, fmt.Sprintf("a local destination must be written with Set and a global one with SetGlobal: Lcl -> %q, Gbl -> %q", t[lk], t[gk]))
		}
	}
}

func cellField(m *Model, c *absint.Cell, name string) string {
	st, ok := c.V.(*absint.Struct)
	if !ok {
		return "?"
	}
	i := -1
	for k, r := range m.CtxRoles {
		if r == name {
			i = k
		}
	}
	if i < 0 {
		return "?"
	}
	return absint.Key(st.F[i])
}

// V6: context invariant m == ctxp.m, and the transfer table of the context opcodes.
func (r *ruler) v6() {
	for _, op := range r.ops() {
		bad := 0
		n := 0
		for _, pa := range r.normal(op) {
			n++
			cp, ok := pa.Final["ctxp"].(*absint.Ptr)
			if !ok {
				r.s.Unk("V6", r.key(op, "m == ctxp.m"), r.ppos(pa), "final context is "+absint.Key(pa.Final["ctxp"]), pa.Describe()...)
				bad++
				continue
			}
			cm := cellField(r.m, cp.Cell, "m")
			if cm != absint.Key(pa.Final["m"]) {
				bad++
				r.s.Bad("V6", r.key(op, "m == ctxp.m"), r.ppos(pa), fmt.Sprintf("after the instruction the VM works on memory %s but the current context %s records %s: the next context switch or error report uses a stale memory", absint.Key(pa.Final["m"]), cp.Cell.Name, cm), pa.Describe()...)
			}
		}
		if bad == 0 && n > 0 {
			r.s.OK("V6", r.key(op, "m == ctxp.m"), r.pos, fmt.Sprintf("holds at the end of all %d normal paths", n))
		}
	}
	// transfer table of the context switching opcodes
	type exp struct{ ctxp, m, ip, savedIP, savedM string }
	check := func(op, variant string, sel func(*Path) bool, e exp) {
		for _, pa := range r.normal(op) {
			if !sel(pa) {
				continue
			}
			key := r.key(op, "transfer "+variant)
			got := exp{absint.Key(pa.Final["ctxp"]), absint.Key(pa.Final["m"]), absint.Key(pa.Final["ip"]), cellField(r.m, pa.Cells["CTX"], "ip"), cellField(r.m, pa.Cells["CTX"], "m")}
			if strings.HasPrefix(e.ctxp, "~") { // prefix match (fresh cells are numbered)
				if strings.HasPrefix(got.ctxp, e.ctxp[1:]) {
					got.ctxp = e.ctxp
				}
			}
			if strings.HasPrefix(e.m, "~") && strings.HasPrefix(got.m, e.m[1:]) {
				got.m = e.m
			}
			if got == e {
				r.s.OK("V8", key, r.ppos(pa), fmt.Sprintf("continues in %s on %s at %s; suspended context saved ip=%s m=%s", got.ctxp, got.m, got.ip, got.savedIP, got.savedM))
			} else {
				r.s.Bad("V8", key, r.ppos(pa), fmt.Sprintf("context transfer differs from the coroutine protocol: expected %+v, found %+v", e, got), pa.Describe()...)
			}
			return
		}
		r.s.Bad("V8", r.key(op, "transfer "+variant), r.pos, "no such path")
	}
	par := func(pa *Path) bool { return pa.Conds[0] == "ctxp.parent != nil" }
	nopar := func(pa *Path) bool { return pa.Conds[0] == "ctxp.parent == nil" }
	check("YIELD", "to parent", par, exp{"&PARENT[]", "PARENT.m", "(PARENT.ip+1)", "IP", "M"})
	check("YIELD", "no enclosing loop", nopar, exp{"&CTX[]", "M", "(IP+1)", "CTX.ip", "M"})
	check("SCONT", "to child", nopar, exp{"~&CHILD", "~CHILD", "(CHILD1.ip+1)", "IP", "M"})
	check("DCONT", "back to parent", par, exp{"&PARENT[]", "PARENT.m", "(IP+1)", "CTX.ip", "M"})
	check("DCONT", "in the main context", nopar, exp{"&CTX[]", "M", "(IP+1)", "CTX.ip", "M"})
	check("RCONT", "stays", nopar, exp{"&CTX[]", "M", "(IP+1)", "CTX.ip", "M"})
	check("CCONT", "fresh child", func(pa *Path) bool { return nopar(pa) && len(events(pa, "call", "typeassert *context")) == 0 }, exp{"~&complit", "~Clone#", "(IP+1)", "(A0+IP-1)", "M"})
	check("CCONT", "recycled child", func(pa *Path) bool { return nopar(pa) && len(events(pa, "call", "typeassert *context")) == 1 }, exp{"&FREECTX[]", "~Clone#", "(IP+1)", "(A0+IP-1)", "M"})
	// CCONT: the child is a clone of the current memory, its parent is the current context, it is registered under the id
	for _, pa := range r.normal("CCONT") {
		if !nopar(pa) {
			continue
		}
		key := r.key("CCONT", "child set-up")
		if len(events(pa, "call", "typeassert *context")) == 1 {
			key += " (recycled)"
		}
		cp, _ := pa.Final["ctxp"].(*absint.Ptr)
		cl := events(pa, "call", ".Clone")
		put := events(pa, "call", ".Put")
		ok := cp != nil && len(cl) == 1 && cl[0].Args[0] == "M" && len(put) == 1 &&
			cellField(r.m, cp.Cell, "parent") == "&CTX[]" && cellField(r.m, cp.Cell, "m") == cl[0].Res &&
			put[0].Args[0] == "CTX.children" && put[0].Args[1] == "hash(M,A1)" && put[0].Args[2] == absint.Key(pa.Final["ctxp"])
		if ok {
			r.s.OK("V8", key, r.ppos(pa), "child = Clone(m), child.parent = current context, registered in the current context's children under hash(m, src1)")
		} else {
			r.s.Bad("V8", key, r.ppos(pa), "the forked context must run on Clone(m), have the current context as parent and be registered in its children under the id", pa.Describe()...)
		}
	}
	// YIELD: value handed to the parent; kept on the yielding stack iff src1 != 0
	for _, pa := range r.normal("YIELD") {
		key := r.key("YIELD", "value hand-over: "+strings.Join(pa.Conds[:min(2, len(pa.Conds))], ", "))
		if len(condsWith(pa, "(A1,0)")) == 0 {
			r.s.Bad("V8", r.key("YIELD", "value kept iff src1 != 0: "+pa.Conds[0]), r.ppos(pa), "whether a yield keeps its value on the yielding context's own stack must depend on src1 alone, on every path (with or without an enclosing loop): the compiler counts on one value being left exactly when it set src1", pa.Describe()...)
		}
		ps := events(pa, "call", ".Push")
		var want []string
		if condHas(pa, "!=(A1,0) := true") || condHas(pa, "==(A1,0) := false") {
			want = append(want, "M<-V0")
		}
		if par(pa) {
			want = append(want, "PARENT.m<-V0")
		}
		var got []string
		for _, e := range ps {
			v := e.Args[1]
			if strings.HasPrefix(v, "SetFrame(V0,") {
				v = "V0" // the same value, detached from the yielding stack (V13c)
			}
			got = append(got, e.Args[0]+"<-"+v)
		}
		// V13c: a function value that leaves its generator is detached from the
		// generator's stack, which is recycled once the loop is over
		if par(pa) {
			k13 := r.key("YIELD", "a yielded function is detached from the generator's stack: "+strings.Join(pa.Conds[1:min(2, len(pa.Conds))], ", "))
			isFn := len(condsWith(pa, "ToFunction.1")) == 1 && strings.HasSuffix(condsWith(pa, "ToFunction.1")[0], ":= true")
			hasFrame := len(condsWith(pa, "==(.Frame(")) == 1 && strings.HasSuffix(condsWith(pa, "==(.Frame(")[0], ":= false")
			cl := events(pa, "call", "slices.Clone")
			sf := events(pa, "call", "SetFrame")
			switch {
			case len(condsWith(pa, "ToFunction.1")) == 0:
				r.s.Bad("V13c", k13, r.ppos(pa), "the value handed to the consuming loop is not examined: a function value created inside a generator captures a slice of the generator context's stack; when the loop is over that stack is recycled by the next loop and the captured variables of the function change under it (RET detaches returned functions, YIELD must do the same)", pa.Describe()...)
			case isFn && hasFrame:
				good := len(cl) == 1 && strings.HasPrefix(cl[0].Args[0], "deref(.Frame(ToFunction.0") && len(sf) == 1 && len(ps) > 0 && strings.HasPrefix(ps[len(ps)-1].Args[1], "SetFrame(")
				if good {
					if p, ok := sf[0].Vals[1].(*absint.Ptr); !ok || absint.Key(p.Cell.V) != cl[0].Res {
						good = false
					}
				}
				r.okIf("V13c", k13, pa, good, "the parent receives the function with a private copy of its captured frame", "a yielded function with a captured frame must be handed on with a private copy of that frame (slices.Clone(*f.Frame) + SetFrame)")
				if !r.seen13eY {
					// V13e for YIELD: only a frame of the generator's own stack is
					// left behind; a function the generator was *given* (gen = (f) ->
					// yield f) captured a frame of its consumer, which stays alive
					r.seen13eY = true
					k13e := "vm.Run / YIELD / detaches a function only from the generator's own stack"
					asks := false
					for _, e := range pa.Events {
						if e.Kind == "call" && (strings.Contains(e.Fn, "Owns") || strings.Contains(e.Fn, "owns") || strings.Contains(e.Fn, "InTop") || strings.Contains(e.Fn, "IsTop")) {
							asks = true
						}
					}
					if asks {
						r.s.OK("V13e", k13e, r.ppos(pa), "the copy is made under a test that relates the captured frame to the generator's stack")
					} else {
						r.s.Bad("V13e", k13e, r.ppos(pa), "YIELD copies the captured frame of every function value it hands out, also of one the generator was given by its consumer, whose frame is still alive: the copy freezes the captured variables for that value", pa.Describe()...)
					}
				}
			default:
				r.okIf("V13c", k13, pa, len(cl) == 0 && len(sf) == 0, "nothing to detach", "only function values with a frame are re-pointed")
			}
		}
		if strings.Join(got, ";") == strings.Join(want, ";") {
			r.s.OK("V8", key, r.ppos(pa), "pushes: "+strings.Join(got, "; "))
		} else {
			r.s.Bad("V8", key, r.ppos(pa), fmt.Sprintf("a yield must push its value on the yielding context's own stack iff src1 != 0 (before switching) and on the parent's stack iff there is a parent; expected [%s], found [%s]", strings.Join(want, "; "), strings.Join(got, "; ")), pa.Describe()...)
		}
	}
}

// V7 / V13: call protocol and frame detachment.
func (r *ruler) v7() {
	// CALL
	for _, pa := range r.normal("CALL") {
		if pa.Conds[0] != "ctxp.parent == nil" {
			continue
		}
		key := r.key("CALL", "protocol")
		var seq []string
		for _, e := range pa.Events {
			if e.Kind == "call" && strings.Contains(e.Fn, "memory.Type") {
				seq = append(seq, e.Fn[strings.LastIndex(e.Fn, ".")+1:]+"("+strings.Join(e.Args[1:], ",")+")")
			}
		}
		tf := events(pa, "call", ".ToFunction")
		ni := events(pa, "call", "value.NewInt")
		ok := len(tf) == 1 && tf[0].Args[0] == "V0" && len(ni) == 1 && ni[0].Args[0] == "IP"
		var fnv string
		if ok {
			fnv = strings.TrimPrefix(strings.Split(tf[0].Res, ", ")[0], "(")
			want := []string{
				"PushFrame(A1,.LocalCnt(" + fnv + "))",
				"PushClosure(deref(.Frame(" + fnv + ")))",
				"Push(" + ni[0].Res + ")",
			}
			ok = strings.Join(seq, ";") == strings.Join(want, ";") &&
				absint.Key(pa.Final["ip"]) == "(.Node("+fnv+"))" &&
				condHas(pa, strings.Split(tf[0].Res, ", ")[1][:len(strings.Split(tf[0].Res, ", ")[1])-1]+" := true") &&
				(condHas(pa, "!=(.ParamCnt("+fnv+"),A1) := false") || condHas(pa, "==(.ParamCnt("+fnv+"),A1) := true") ||
					condHas(pa, "!=(A1,.ParamCnt("+fnv+")) := false") || condHas(pa, "==(A1,.ParamCnt("+fnv+")) := true"))
		}
		if ok {
			r.s.OK("V7", key, r.ppos(pa), "callee checked (function, arity), then PushFrame(args, LocalCnt), PushClosure(*Frame), Push(return address), ip = entry")
		} else {
			r.s.Bad("V7", key, r.ppos(pa), "CALL must test that the callee is a function and that ParamCnt equals the argument count before PushFrame(args, LocalCnt); PushClosure(*Frame); Push(NewInt(ip)); ip = Node", pa.Describe()...)
		}
		break
	}
	// RET
	nRet := 0
	for _, pa := range r.normal("RET") {
		if pa.Conds[0] != "ctxp.parent == nil" {
			continue
		}
		nRet++
		var seq []string
		for _, e := range pa.Events {
			if e.Kind == "call" && strings.Contains(e.Fn, "memory.Type") {
				seq = append(seq, e.Fn[strings.LastIndex(e.Fn, ".")+1:])
			}
		}
		top := len(condsWith(pa, "==(IP#")) == 1 && strings.HasSuffix(condsWith(pa, "==(IP#")[0], ":= true") ||
			len(condsWith(pa, "!=(IP#")) == 1 && strings.HasSuffix(condsWith(pa, "!=(IP#")[0], ":= false")
		detach := len(events(pa, "call", "SetFrame")) == 1
		// the other way of detaching: rebuilding the value around the copied frame.
		// That is the same value only when node, parameter count and local count
		// are handed to NewFunction in its parameter order (enc:E5 ties parameter
		// i of NewFunction to the field of that position in ToFunction's result).
		rebuilt := events(pa, "call", "value.NewFunction")
		rebuiltOK := false
		if len(rebuilt) == 1 && len(rebuilt[0].Args) == 4 {
			a := rebuilt[0].Args
			rebuiltOK = strings.HasPrefix(a[0], ".Node(ToFunction.0") && strings.HasPrefix(a[2], ".ParamCnt(ToFunction.0") && strings.HasPrefix(a[3], ".LocalCnt(ToFunction.0")
		}
		variant := "in a function"
		if top {
			variant = "at top level"
		}
		if detach || rebuiltOK {
			variant += ", returning a closure"
		}
		isFn := len(condsWith(pa, "ToFunction.1")) == 1 && strings.HasSuffix(condsWith(pa, "ToFunction.1")[0], ":= true")
		if isFn && !detach && !rebuiltOK {
			variant += ", returning a function without frame"
		}
		key := r.key("RET", "protocol "+variant)
		val := "V0"
		if detach {
			val = events(pa, "call", "SetFrame")[0].Res
		} else if rebuiltOK {
			val = rebuilt[0].Res
		}
		ps := events(pa, "call", ".Push")
		okPush := len(ps) == 1 && ps[0].Args[0] == "M" && ps[0].Args[1] == val
		var ok bool
		if top {
			// V17: at top level nothing but the end of Run takes the value off the
			// stack, and it does so iff Run was asked for the result
			rr := condsWith(pa, "retResult")
			asked, decided := false, len(rr) == 1
			if decided {
				asked = strings.HasSuffix(rr[0], ":= true") != strings.HasPrefix(rr[0], "!")
				variant += fmt.Sprintf(", result asked for: %v", asked)
				key = r.key("RET", "protocol "+variant)
			}
			k17 := r.key("RET", "top-level return leaves what the end of Run takes "+variant)
			switch {
			case !decided:
				r.s.Bad("V17", k17, r.ppos(pa), "a return outside any function pushes its value whether or not Run was asked for a result; Run(false) (script mode, where statements are compiled to leave nothing) never pops it: the operand stack is one slot higher after the statement than before", pa.Describe()...)
				ok = strings.Join(seq, ";") == "IP;ResetSP;Push" && okPush
			case asked:
				ok = strings.Join(seq, ";") == "IP;ResetSP;Push" && okPush
				r.okIf("V17", k17, pa, ok, "stack reset, the value pushed once for Run to pop", "when Run is asked for the result a top-level return must leave exactly the value")
			default:
				ok = strings.Join(seq, ";") == "IP;ResetSP" && len(ps) == 0
				r.okIf("V17", k17, pa, ok, "stack reset, nothing pushed", "when Run is not asked for the result a top-level return must leave the stack empty")
			}
			ok = ok && strings.HasPrefix(absint.Key(pa.Final["ip"]), "(len(deref(CR.CS))")
		} else {
			ti := events(pa, "call", ".ToInt")
			ok = strings.Join(seq, ";") == "IP;PopFrame;PopClosure;Push" && okPush && len(ti) == 1 &&
				absint.Key(pa.Final["ip"]) == "("+strings.TrimPrefix(strings.Split(ti[0].Res, ", ")[0], "(")+"+1)"
		}
		if ok {
			r.s.OK("V7", key, r.ppos(pa), strings.Join(seq, "; ")+"; value pushed once; ip restored")
		} else {
			r.s.Bad("V7", key, r.ppos(pa), "RET must read the return address, pop the frame and the closure frame exactly once each (or reset sp at top level), push the value once and continue after the call", pa.Describe()...)
		}
		// V13: frame detachment
		if isFn {
			k13 := r.key("RET", "frame detachment "+variant)
			hasFrame := len(condsWith(pa, "!=(.Frame(")) == 1 && strings.HasSuffix(condsWith(pa, "!=(.Frame(")[0], ":= true") ||
				len(condsWith(pa, "==(.Frame(")) == 1 && strings.HasSuffix(condsWith(pa, "==(.Frame(")[0], ":= false")
			if !hasFrame {
				continue
			}
			cl := events(pa, "call", "slices.Clone")
			sf := events(pa, "call", "SetFrame")
			good := len(cl) == 1 && strings.HasPrefix(cl[0].Args[0], "deref(.Frame(ToFunction.0") && (len(sf) == 1 && sf[0].Args[0] == "V0" && len(rebuilt) == 0 || len(sf) == 0 && rebuiltOK)
			if good {
				// the frame installed must be the clone
				inst := rebuilt
				if len(sf) == 1 {
					inst = sf
				}
				if p, ok := inst[0].Vals[1].(*absint.Ptr); !ok || absint.Key(p.Cell.V) != cl[0].Res {
					good = false
				}
				// and the copy must happen before the frame is popped
				ci, pi := -1, -1
				for i, e := range pa.Events {
					if strings.HasSuffix(e.Fn, "slices.Clone") {
						ci = i
					}
					if strings.HasSuffix(e.Fn, ".PopFrame") || strings.HasSuffix(e.Fn, ".ResetSP") {
						pi = i
					}
				}
				if ci < 0 || pi < 0 || ci > pi {
					good = false
				}
			}
			if good && !top {
				// V13d: the copy is shallow: a function value stored in the captured
				// frame (a closure that calls a sibling closure) still points at the
				// frame that is popped
				k13d := "vm.Run / RET / detaches closures nested in the captured frame"
				walks := false
				for _, e := range pa.Events {
					if e.Kind == "call" && (strings.Contains(e.Fn, "detach") || strings.Contains(e.Fn, "Detach")) {
						walks = true
					}
				}
				if len(events(pa, "call", ".ToFunction")) > 1 || walks {
					r.s.OK("V13d", k13d, r.ppos(pa), "the elements of the copied frame are examined for function values")
				} else if !r.seen13d {
					r.seen13d = true
					r.s.Bad("V13d", k13d, r.ppos(pa), "the private copy of the captured frame is shallow (slices.Clone): a function value held in one of its slots - a closure that calls a sibling closure defined in the same function - keeps its own pointer to the frame that is being popped, and reads whatever later calls leave there", pa.Describe()...)
				}
			}
			if cloned13(pa) && !r.seen13e {
				// V13e: only the frame that dies is detached. A function that is
				// merely handed through a call (id = (x) -> x; h = id(g) inside the
				// function that defines g) captured the frame of a call that is
				// still running: copying it there freezes the variables for h while
				// g and the defining function go on changing them (D32).
				r.seen13e = true
				k13e := "vm.Run / RET / detaches a function only from the frame that is popped"
				asks := false
				for _, e := range pa.Events {
					if e.Kind == "call" && (strings.Contains(e.Fn, "memory.Type).Top") || strings.Contains(e.Fn, "IsTop") || strings.Contains(e.Fn, "InTop") || strings.Contains(e.Fn, "Owns") || strings.Contains(e.Fn, "owns")) {
						for _, c := range pa.Conds {
							if e.Res != "" && strings.Contains(c, strings.Trim(strings.Split(e.Res, ", ")[0], "()")) {
								asks = true
							}
						}
					}
				}
				if asks {
					r.s.OK("V13e", k13e, r.ppos(pa), "the copy is made under a test that relates the captured frame to the frame of the returning call")
				} else {
					r.s.Bad("V13e", k13e, r.ppos(pa), "RET copies the captured frame of every function value it returns, also of one that captured the frame of a call that is still running (a function handed through another function): the copy freezes the captured variables for that value while the defining function goes on writing them", pa.Describe()...)
				}
			}
			if good {
				r.s.OK("V13", k13, r.ppos(pa), "the captured frame of a returned function is copied (slices.Clone of its own frame) before the frame is popped")
			} else {
				r.s.Bad("V13", k13, r.ppos(pa), "a returned function value must get a private copy of the frame it captured (slices.Clone(*f.Frame), installed with SetFrame or by rebuilding the value with the same node, parameter count and local count) before the frame is popped, and be otherwise unchanged", pa.Describe()...)
			}
		}
	}
	if nRet < 4 {
		r.s.Unk("V7", r.key("RET", "paths"), r.pos, fmt.Sprintf("expected at least 4 normal RET paths, found %d", nRet))
	}
	// FUNC: every path, in the main context and in a generator
	{
		key := r.key("FUNC", "captures the current frame")
		var bad *Path
		n := 0
		for _, pa := range r.normal("FUNC") {
			n++
			tp := events(pa, "call", ".Top")
			sf := events(pa, "call", "SetFrame")
			ps := events(pa, "call", ".Push")
			ok := len(tp) == 1 && tp[0].Args[0] == "M" && len(sf) == 1 && sf[0].Args[0] == "V0" && len(ps) == 1 && ps[0].Args[1] == sf[0].Res
			if ok {
				if p, isP := sf[0].Vals[1].(*absint.Ptr); !isP || absint.Key(p.Cell.V) != tp[0].Res {
					ok = false
				}
			}
			if !ok && bad == nil {
				bad = pa
			}
		}
		switch {
		case bad != nil:
			r.s.Bad("V7", key, r.ppos(bad), "FUNC must push the fetched function value with its frame set to the current top frame, on every path (a frame remembered from an earlier instruction is the frame of whatever call was running then)", bad.Describe()...)
		case n == 0:
			r.s.Bad("V7", key, r.pos, "FUNC has no path that continues")
		default:
			r.s.OK("V7", key, r.pos, fmt.Sprintf("FUNC pushes the function constant with frame = m.Top() on all %d paths", n))
		}
	}
}

// cloned13: the path gives a returned function a copy of its frame.
func cloned13(pa *Path) bool {
	return len(events(pa, "call", "slices.Clone")) > 0
}

// V10: error classes decided in the VM itself.
func (r *ruler) v10() {
	type want struct {
		op, cond, errKey, what string
	}
	ws := []want{
		{"CALL", "ToFunction.1", "global value.ErrType", "calling a non-function is a type error"},
		{"CALL", ".ParamCnt(", "global vm.ErrArity", "a wrong argument count is an arity error"},
		{"ATON", "ToString.1", "global value.ErrType", "aton of a non-string is a type error"},
	}
	// MOV: a missing value cannot be assigned to a variable (nil error), but
	// parking one in the temp register is no assignment: the compiler moves the
	// left operand of an operator chain there before the right operand runs, and
	// an error raised at the MOV would come before the right operand's own error
	// (strict left to right; '(u + (1/0)) * 2' against 'u + (1/0)', defect D36).
	// The operator that reads the temp register reports the missing operand (A1).
	{
		key := r.key("MOV", "error class: assigning a missing value to a variable is a nil error, parking it in the temp register is not")
		tmpK := fmt.Sprint(r.m.AddrK["AddrTmp"])
		nErr, nPark := 0, 0
		var bad *Path
		why := ""
		for _, pa := range r.m.Paths["MOV"] {
			ns := condsWith(pa, "IsNil#")
			nilKnown := len(ns) > 0 && strings.HasSuffix(ns[len(ns)-1], ":= true")
			toTmp, decided := false, false
			for _, c := range pa.Conds {
				if strings.HasPrefix(c, "==(K1,"+tmpK+") := ") {
					decided, toTmp = true, strings.HasSuffix(c, ":= true")
				}
				if strings.HasPrefix(c, "!=(K1,"+tmpK+") := ") {
					decided, toTmp = true, strings.HasSuffix(c, ":= false")
				}
			}
			isErr := pa.End == "return"
			if !nilKnown {
				// the value is not known to be missing: only a move into the temp
				// register that goes on counts (the destination may be tested first)
				if !isErr && decided && toTmp && pa.End == "next" && len(ns) == 0 {
					nPark++
				}
				continue
			}
			switch {
			case isErr && !decided:
				if bad == nil {
					bad, why = pa, "a missing value ends the run at the MOV whatever the destination is: parked in the temp register it must wait for the operator that reads it, or the error comes before the one the right operand raises"
				}
			case isErr && toTmp:
				if bad == nil {
					bad, why = pa, "moving a missing value into the temp register ends the run"
				}
			case isErr:
				nErr++
				if len(pa.Ret) != 2 || absint.Key(pa.Ret[1]) != "global value.ErrNil" {
					if bad == nil {
						bad, why = pa, "assigning a missing value to a variable must end the run with the nil error"
					}
				}
			case decided && toTmp:
				nPark++
			case decided && !toTmp && pa.End == "next":
				if bad == nil {
					bad, why = pa, "a missing value is assigned to a variable without an error"
				}
			}
		}
		switch {
		case bad != nil:
			r.s.Bad("V10", key, r.ppos(bad), why, bad.Describe()...)
		case nErr == 0 || nPark == 0:
			r.s.Bad("V10", key, r.pos, fmt.Sprintf("expected error exits for variable destinations and a continuing path for the temp register; found %d / %d", nErr, nPark))
		default:
			r.s.OK("V10", key, r.pos, fmt.Sprintf("%d nil-error exits for variable destinations, %d continuing paths into the temp register", nErr, nPark))
		}
	}
	// JMPF / JMPT: a condition that is not a boolean ends the run with the class
	// the ! operator reports for that operand (value.Not: a missing value is a
	// nil error, anything else a type error, pinned by A1). The compiler folds a
	// leading ! of a condition into the jump (B6), so a jump with classes of its
	// own makes 'if !x ..' fail differently from 't = !x' and 'if t ..' (D35).
	for _, op := range []string{"JMPF", "JMPT"} {
		key := r.key(op, "error class: a non-boolean condition fails like the ! operator (nil error for a missing value, type error otherwise)")
		nNil, nType := 0, 0
		var bad *Path
		why := ""
		for _, pa := range r.m.Paths[op] {
			cs := condsWith(pa, "ToBool.1")
			if len(cs) == 0 || !strings.HasSuffix(cs[len(cs)-1], ":= false") {
				continue
			}
			got := pa.End
			if pa.End == "return" && len(pa.Ret) == 2 {
				got = absint.Key(pa.Ret[1])
			}
			ns := condsWith(pa, "IsNil#")
			switch {
			case len(ns) == 0:
				if bad == nil {
					bad, why = pa, "the handler reports every non-boolean condition as "+got+" without asking whether the value is missing: the ! operator reports a missing value as a nil error, so a negation folded into the jump changes the error class"
				}
			case strings.HasSuffix(ns[len(ns)-1], ":= true"):
				nNil++
				if got != "global value.ErrNil" && bad == nil {
					bad, why = pa, "a missing value as condition must end the run with the nil error; it ends with "+got
				}
			default:
				nType++
				if got != "global value.ErrType" && bad == nil {
					bad, why = pa, "a condition that is neither boolean nor missing must end the run with the type error; it ends with "+got
				}
			}
		}
		switch {
		case bad != nil:
			r.s.Bad("V10", key, r.ppos(bad), why, bad.Describe()...)
		case nNil == 0 || nType == 0:
			r.s.Bad("V10", key, r.pos, "a non-boolean condition: the handler does not test for this failure at all (no path on which the boolean test fails for a missing and for another value)")
		default:
			r.s.OK("V10", key, r.pos, fmt.Sprintf("%d nil-error and %d type-error exits", nNil, nType))
		}
	}
	for _, w := range ws {
		key := r.key(w.op, "error class: "+w.what)
		found := false
		for _, pa := range r.m.Paths[w.op] {
			cs := condsWith(pa, w.cond)
			if len(cs) == 0 {
				continue
			}
			c := cs[len(cs)-1]
			failing := strings.HasSuffix(c, ":= false")
			if w.cond == "IsNil#" {
				failing = strings.HasSuffix(c, ":= true")
			}
			if w.cond == ".ParamCnt(" {
				// the counts differ
				failing = strings.HasPrefix(c, "!=(") && strings.HasSuffix(c, ":= true") || strings.HasPrefix(c, "==(") && strings.HasSuffix(c, ":= false")
			}
			if !failing {
				continue
			}
			found = true
			if pa.End == "return" && len(pa.Ret) == 2 && absint.Key(pa.Ret[1]) == w.errKey {
				r.s.OK("V10", key, r.ppos(pa), "reported as "+w.errKey)
			} else {
				r.s.Bad("V10", key, r.ppos(pa), fmt.Sprintf("%s: the failing case must end the run with %s; it ends with %s", w.what, w.errKey, pa.End), pa.Describe()...)
			}
			break
		}
		if !found {
			r.s.Bad("V10", key, r.pos, w.what+": the handler does not test for this failure at all (no path on which the test fails)")
		}
	}
	// ATON: conversion error after both conversions failed; READ wraps the io error
	for _, pa := range r.m.Paths["ATON"] {
		if pa.End == "return" && len(events(pa, "call", "strconv.ParseFloat")) == 1 {
			key := r.key("ATON", "error class: unconvertible string")
			if absint.Key(pa.Ret[1]) == "global vm.ErrConversion" {
				r.s.OK("V10", key, r.ppos(pa), "conversion error")
			} else {
				r.s.Bad("V10", key, r.ppos(pa), "a string that is neither an int nor a float must be a conversion error", pa.Describe()...)
			}
			break
		}
	}
	for _, pa := range r.m.Paths["READ"] {
		if pa.End == "return" {
			key := r.key("READ", "error class: read failure")
			k := absint.Key(pa.Ret[1])
			if strings.Contains(k, "fmt.Errorf") && strings.Contains(k, "%w") {
				r.s.OK("V10", key, r.ppos(pa), "wraps the io error")
			} else {
				r.s.Bad("V10", key, r.ppos(pa), "a read failure must be reported as a read error wrapping the io error; got "+k, pa.Describe()...)
			}
			break
		}
	}
	// operator errors pass through unchanged
	for _, op := range r.ops() {
		base := strings.TrimSuffix(op, "TMP")
		if _, ok := opFamily[base]; !ok && op != "INC" {
			continue
		}
		for _, pa := range r.m.Paths[op] {
			if pa.End != "return" || len(pa.Ret) != 2 {
				continue
			}
			key := r.key(op, "operator error passed through")
			k := absint.Key(pa.Ret[1])
			good := false
			for _, e := range pa.Events {
				if strings.HasPrefix(e.Fn, "(value.Type).") && strings.Contains(e.Res, k+")") {
					good = true
				}
			}
			if good {
				r.s.OK("V10", key, r.ppos(pa), "the error of the value operator is the error of the run")
			} else {
				r.s.Bad("V10", key, r.ppos(pa), "the run must fail with the error the value operator returned, got "+k, pa.Describe()...)
			}
			break
		}
	}
}

// V11 / V12: builtins.
func (r *ruler) v11() {
	for _, pa := range r.normal("TOA") {
		key := r.key("TOA", "renders with value.Type.String")
		st := events(pa, "call", "(value.Type).String")
		ns := events(pa, "call", "value.NewString")
		ps := events(pa, "call", ".Push")
		if len(st) == 1 && st[0].Args[0] == "V0" && len(ns) == 1 && ns[0].Args[0] == st[0].Res && len(ps) == 1 && ps[0].Args[1] == ns[0].Res {
			r.s.OK("V11", key, r.ppos(pa), "NewString(V0.String()) pushed")
		} else {
			r.s.Bad("V11", key, r.ppos(pa), "toa must push NewString(val.String())", pa.Describe()...)
		}
		break
	}
	for _, pa := range r.normal("WRITE") {
		key := r.key("WRITE", "prints with the same renderer as toa")
		pr := events(pa, "call", "fmt.Print")
		ok := len(pr) == 1 && pr[0].Args[0] == "slice[iface(value.Type:V0)]"
		if fp := events(pa, "call", "fmt.Fprint"); len(pr) == 0 && len(fp) == 1 && len(fp[0].Args) == 2 {
			// writing to os.Stdout itself is the same thing; any other writer may
			// hold the text back (a buffer that exit() or a failure never flushes)
			if strings.Contains(fp[0].Args[0], "global os.Stdout") {
				pr = fp
				ok = fp[0].Args[1] == "slice[iface(value.Type:V0)]"
			}
		}
		if !ok && len(pr) == 1 {
			// fmt.Print(val.String()) is the same renderer
			st := events(pa, "call", "(value.Type).String")
			ok = len(st) == 1 && st[0].Args[0] == "V0" && strings.Contains(pr[0].Args[0], st[0].Res)
		}
		ps := events(pa, "call", ".Push")
		if ok && len(ps) == 1 {
			r.s.OK("V11", key, r.ppos(pa), "fmt.Print of the value itself (fmt uses its String method), then pushes a result")
		} else {
			r.s.Bad("V11", key, r.ppos(pa), "write must print the value through value.Type.String, straight to standard output (fmt.Print(val), fmt.Print(val.String()) or fmt.Fprint(os.Stdout, val)), and push one result; output parked in a buffer is lost when exit() or a failure ends the statement", pa.Describe()...)
		}
		break
	}
	r.readRule()
}

// readRule: V12 on the READ handler, over all of its paths.
func (r *ruler) readRule() {
	var first *Path
	okReader, okPush := true, true
	var badReader, badPush *Path
	reader := ""
	for _, pa := range r.m.Paths["READ"] {
		rs := events(pa, "call", ".ReadString")
		if pa.End == "return" || strings.HasPrefix(pa.End, "return") {
			// V12c: the run ends with a read error only when nothing was read. A
			// last line without a line break arrives together with io.EOF
			// (ReadString's contract): it is a line of the input like any other
			// ("without losing any", defect D31).
			key := r.key("READ", "a line that arrives together with the read error is delivered")
			if pa.Conds[0] != "ctxp.parent == nil" {
				key += " (in a generator)"
			}
			line := ""
			if len(rs) == 1 {
				line = strings.TrimPrefix(strings.Split(rs[0].Res, ", ")[0], "(")
			}
			switch {
			case line == "":
				r.s.Unk("V12", key, r.ppos(pa), "an error exit of READ without exactly one ReadString before it", pa.Describe()...)
			case decidedEmpty(pa.Conds, line):
				r.s.OK("V12", key, r.ppos(pa), "the error exit is taken only when the text read is empty")
			default:
				r.s.Bad("V12", key, r.ppos(pa), "READ ends the run with the read error although ReadString may have returned text with it: the last line of an input that does not end in a line break is lost", pa.Describe()...)
			}
			continue
		}
		if pa.End != "next" {
			continue
		}
		if first == nil {
			first = pa
		}
		nr := len(events(pa, "call", "bufio.NewReader")) + len(events(pa, "call", "bufio.NewScanner")) + len(events(pa, "call", "bufio.NewReaderSize"))
		if !(nr == 0 && len(rs) == 1 && strings.Contains(rs[0].Args[0], "global vm.") && rs[0].Args[1] == "10") {
			okReader = false
			if badReader == nil {
				badReader = pa
			}
		} else if reader == "" {
			reader = rs[0].Args[0]
		}
		ps := events(pa, "call", ".Push")
		ns := events(pa, "call", "value.NewString")
		if !(len(rs) == 1 && len(ns) == 1 && ns[0].Args[0] == strings.TrimPrefix(strings.Split(rs[0].Res, ", ")[0], "(") && len(ps) == 1 && ps[0].Args[1] == ns[0].Res) {
			okPush = false
			if badPush == nil {
				badPush = pa
			}
		}
	}
	if first == nil {
		return
	}
	key := r.key("READ", "one buffered reader for the process")
	if okReader {
		r.s.OK("V12", key, r.ppos(first), "reads a line from the package level reader "+reader)
	} else {
		r.s.Bad("V12", key, r.ppos(badReader), "read must take one whole line (ReadString('\\n')) from a buffered reader that outlives the instruction; a reader built per READ loses what it buffered", badReader.Describe()...)
	}
	if reader != "" {
		r.readerUses(strings.TrimPrefix(reader, "global vm."))
	}
	key2 := r.key("READ", "pushes the line read")
	if okPush {
		r.s.OK("V12", key2, r.ppos(first), "NewString(line) on every path that continues")
	} else {
		r.s.Bad("V12", key2, r.ppos(badPush), "read must push exactly the line returned by the reader", badPush.Describe()...)
	}
}

// decidedEmpty: do the decisions of the path say that the string named line is
// empty, however that is spelt (== "", len == 0, len < 1, !(len > 0), ...)?
func decidedEmpty(conds []string, line string) bool {
	for _, c := range conds {
		i := strings.LastIndex(c, " := ")
		if i < 0 || !strings.Contains(c, line) {
			continue
		}
		want := c[i+4:] == "true"
		e := c[:i]
		e = strings.ReplaceAll(e, "=="+"("+line+",\"\")", "==(len("+line+"),0)")
		e = strings.ReplaceAll(e, "==(\"\","+line+")", "==(len("+line+"),0)")
		holds := func(n int) (bool, bool) {
			x := strings.ReplaceAll(e, "len("+line+")", strconv.Itoa(n))
			op := x
			if j := strings.Index(x, "("); j > 0 && strings.HasSuffix(x, ")") {
				op = x[:j]
				ab := strings.Split(x[j+1:len(x)-1], ",")
				if len(ab) != 2 {
					return false, false
				}
				a, ea := strconv.Atoi(ab[0])
				b, eb := strconv.Atoi(ab[1])
				if ea != nil || eb != nil {
					return false, false
				}
				switch op {
				case "==":
					return a == b, true
				case "!=":
					return a != b, true
				case "<":
					return a < b, true
				case "<=":
					return a <= b, true
				case ">":
					return a > b, true
				case ">=":
					return a >= b, true
				}
			}
			return false, false
		}
		h0, ok0 := holds(0)
		h1, ok1 := holds(1)
		h9, ok9 := holds(9)
		if ok0 && ok1 && ok9 && h0 == want && h1 != want && h9 != want {
			return true
		}
	}
	return false
}

// ctxIDs: which operand names the context id in each context opcode, and
// deletion removes the registration.
func (r *ruler) ctxIDs() {
	for _, op := range []string{"DCONT", "RCONT"} {
		for _, pa := range r.normal(op) {
			if !condHasPrefixAllTrue(pa, "found#") {
				continue
			}
			par := pa.Conds[0] == "ctxp.parent != nil"
			key := r.key(op, "destroys contexts src0..src1")
			if par {
				key += " (from a child context)"
			}
			owner, mem := "CTX.children", "M"
			if op == "DCONT" && par {
				owner, mem = "PARENT.children", "PARENT.m"
			}
			var got []string
			for _, e := range pa.Events {
				switch {
				case e.Fn == "children.Get":
					got = append(got, "get "+e.Args[0]+" "+e.Args[1])
				case strings.HasSuffix(e.Fn, "deleteContext"):
					got = append(got, "delete "+e.Args[0])
				case strings.HasSuffix(e.Fn, ".Del"):
					got = append(got, "del "+e.Args[0]+" "+e.Args[1])
				}
			}
			var want []string
			for i, id := range []int{3, 4} {
				h := fmt.Sprintf("hash(%s,%d)", mem, id)
				want = append(want, "get "+owner+" "+h, fmt.Sprintf("delete &CHILD%d[]", i+1), "del "+owner+" "+h)
			}
			if strings.Join(got, ";") == strings.Join(want, ";") {
				r.s.OK("V8", key, r.ppos(pa), "for every id in [src0, src1]: look up in the owning context, free the child, remove the registration")
			} else {
				r.s.Bad("V8", key, r.ppos(pa), fmt.Sprintf("for every id in [src0, src1] the child registered under hash(m, id) in the owning context must be freed and its registration removed; expected [%s], found [%s]", strings.Join(want, "; "), strings.Join(got, "; ")), pa.Describe()...)
			}
		}
	}
	for _, pa := range r.normal("SCONT") {
		key := r.key("SCONT", "resumes the child registered under src0")
		g := events(pa, "call", "children.Get")
		if len(g) == 1 && g[0].Args[0] == "CTX.children" && g[0].Args[1] == "hash(M,A0)" {
			r.s.OK("V8", key, r.ppos(pa), "children.Get(hash(m, src0))")
		} else {
			r.s.Bad("V8", key, r.ppos(pa), "SCONT must look the child up in the current context under hash(m, src0)", pa.Describe()...)
		}
		break
	}
}

func condHasPrefixAllTrue(pa *Path, pre string) bool {
	n := 0
	for _, c := range pa.Conds {
		if strings.HasPrefix(c, pre) {
			n++
			if !strings.HasSuffix(c, ":= true") {
				return false
			}
		}
	}
	return n > 0
}

// dflt: an opcode without handler aborts the VM (feeds T1).
func (r *ruler) dflt() {
	for _, pa := range r.m.Paths["<undeclared>"] {
		key := "vm.Run / default clause"
		if pa.End == "panic" {
			r.s.OK("T1", key, r.ppos(pa), "an opcode without case clause aborts the VM (so every emitted opcode needs a clause)")
		} else {
			r.s.Bad("T1", key, r.ppos(pa), "an unknown opcode is silently ignored: "+pa.End)
		}
		break
	}
	for _, op := range r.ops() {
		key := r.key(op, "has a handler")
		if r.m.Handled[r.m.OpConsts[op]] {
			r.s.OK("T1", key, r.pos, "case clause present")
		} else if op == "NOP" {
			r.s.OK("T1", key, r.pos, "no clause; NOP is never emitted by the compiler (checked by the compiler rules)")
		} else {
			r.s.Bad("T1", key, r.pos, "declared opcode without case clause in the dispatch loop: executing it aborts the VM with 'unknown opcode'")
		}
	}
}

// Effects returns the effect table (V8) for other engines.
func (m *Model) Effects() map[string]*Effect {
	out := map[string]*Effect{}
	for op, paths := range m.Paths {
		if op == "<undeclared>" {
			continue
		}
		e := &Effect{Op: op, MethodOp: -1, Unique: true, DstKinds: map[int][]int64{}}
		sig := ""
		for _, pa := range paths {
			if pa.End != "next" || pa.Conds[0] != "ctxp.parent == nil" {
				continue
			}
			if c := condsWith(pa, "==(IP#"); op == "RET" && len(c) == 1 && strings.HasSuffix(c[0], ":= true") {
				// a return outside any function resets the stack and ends the run:
				// nothing compiled after it relies on its effect (V17 rules what it leaves)
				continue
			}
			var f []int
			for _, ev := range events(pa, "fetch", "") {
				f = append(f, slotOf(ev.Args[0]))
			}
			pushes := 0
			for _, ev := range events(pa, "call", ".Push") {
				if ev.Args[0] == "M" {
					pushes++
				}
			}
			rt := false
			for _, ev := range pa.Events {
				for _, a := range ev.Args {
					if a == "TMP" {
						rt = true
					}
				}
			}
			wt := absint.Key(pa.Final["tmp"]) != "TMP"
			s := fmt.Sprint(f, pushes)
			if sig == "" {
				sig = s
				e.Fetch, e.Pushes = f, pushes
			} else if s != sig && op != "MOV" && op != "YIELD" {
				e.Unique = false
			}
			e.ReadsTmp = e.ReadsTmp || rt
			e.WritesTmp = e.WritesTmp || wt
			for _, ev := range pa.Events {
				if strings.HasPrefix(ev.Fn, "(value.Type).") {
					name := strings.TrimPrefix(ev.Fn, "(value.Type).")
					if _, ok := map[string]bool{"Arith": true, "Mod": true, "Logic": true, "Shift": true, "Relational": true, "Eq": true, "Not": true, "Flip": true, "Len": true, "Index": true}[name]; ok {
						e.Method = name
						if len(ev.Vals) == 3 {
							if c, ok := absint.ConstInt(ev.Vals[1]); ok {
								e.MethodOp = c
							}
						}
					}
				}
			}
		}
		out[op] = e
	}
	return out
}

func (r *ruler) effects() {
	eff := r.m.Effects()
	var lines []string
	for _, op := range load.SortedKeys(eff) {
		e := eff[op]
		key := r.key(op, "effect is unique")
		if e.Unique {
			r.s.OK("V8", key, r.pos, fmt.Sprintf("fetch %v, pushes %d, reads tmp %v, writes tmp %v", e.Fetch, e.Pushes, e.ReadsTmp, e.WritesTmp))
		} else {
			r.s.Bad("V8", key, r.pos, "the number of operands fetched / values pushed differs between the successful paths of this opcode: the compiler cannot rely on a fixed stack effect")
		}
		lines = append(lines, fmt.Sprintf("%s:f%v/p%d", op, e.Fetch, e.Pushes))
	}
	sort.Strings(lines)
	r.s.Note("effect table: %s", strings.Join(lines, " "))
}

// arrRule (O1): ARR builds a new array, it never appends into the payload of its operand.
func (r *ruler) arrRule() {
	for _, pa := range r.normal("ARR") {
		key := r.key("ARR", "appends to a private copy")
		ta := events(pa, "call", ".ToArray")
		cl := events(pa, "call", "slices.Clone")
		ap := events(pa, "call", "append")
		na := events(pa, "call", "value.NewArray")
		ps := events(pa, "call", ".Push")
		ok := len(ta) == 1 && ta[0].Args[0] == "V1" && len(cl) == 1 && len(ap) == 1 && len(na) == 1 && len(ps) == 1
		if ok {
			payload := strings.TrimPrefix(strings.Split(ta[0].Res, ", ")[0], "(")
			ok = cl[0].Args[0] == payload && ap[0].Args[0] == cl[0].Res && ap[0].Args[1] == "V0" && len(ap[0].Args) == 2 && na[0].Args[0] == ap[0].Res && ps[0].Args[1] == na[0].Res
		}
		if ok {
			r.s.OK("O1", key, r.ppos(pa), "NewArray(append(slices.Clone(payload of src1), src0)) pushed")
		} else {
			r.s.Bad("O1", key, r.ppos(pa), "ARR must append the element to a copy of the array operand's payload (slices.Clone) and push a new array: appending in place writes into a value that already exists (a constant of the data segment or an earlier result)", pa.Describe()...)
		}
		break
	}
	// no handler stores into the data segment or appends to a payload in place
	for _, op := range r.ops() {
		for _, pa := range r.m.Paths[op] {
			for _, e := range pa.Events {
				if e.Kind == "store" && (strings.Contains(e.Args[0], "CR.DS") || strings.Contains(e.Args[0], "ToArray")) {
					r.s.Bad("O1", r.key(op, "writes into an existing value"), r.m.P.Pos(e.Pos), "an instruction handler stores into the data segment or into an array payload: "+e.String(), pa.Describe()...)
				}
			}
		}
	}
}

// loopExit: when the code is exhausted the current ip is saved and, if asked, the result popped.
func (r *ruler) loopExit() {
	m := r.m
	done := m.Header.Succs[1]
	key := "vm.Run / end of code"
	var saved, popped bool
	seen := map[*ssaBlock]bool{}
	var walk func(b *ssaBlock)
	walk = func(b *ssaBlock) {
		if seen[b] {
			return
		}
		seen[b] = true
		for _, ins := range b.Instrs {
			s := ins.String()
			if strings.Contains(s, "= t") || true {
				_ = s
			}
			if st, ok := ins.(*ssaStore); ok {
				if fa, ok := st.Addr.(*ssaFieldAddr); ok && fa.X == ssaValue(m.VarOf["ctxp"]) && st.Val == ssaValue(m.VarOf["ip"]) {
					saved = true
				}
			}
			if c, ok := ins.(*ssaCall); ok {
				if cal := c.Call.StaticCallee(); cal != nil && cal.Name() == "Pop" && len(c.Call.Args) == 1 && c.Call.Args[0] == ssaValue(m.VarOf["m"]) {
					popped = true
				}
			}
		}
		for _, s := range b.Succs {
			walk(s)
		}
	}
	walk(done)
	if saved && popped {
		r.s.OK("V7", key, r.pos, "ctxp.ip = ip saved; the result is popped from the current memory when requested")
	} else {
		r.s.Bad("V7", key, r.pos, fmt.Sprintf("when the code is exhausted Run must save ip in the current context (%v) and pop the result from the current memory (%v)", saved, popped))
	}
}

// captures (O3, V13b): where live slices of the reallocating value stack are
// captured into values, and whether a returned array has its closures detached.
func (r *ruler) captures() {
	for _, op := range r.ops() {
		for _, pa := range r.normal(op) {
			tops := events(pa, "call", "memory.Type).Top")
			if len(tops) == 0 {
				continue
			}
			stored := false
			for _, e := range pa.Events {
				if e.Kind != "call" || len(e.Vals) < 2 {
					continue
				}
				for _, v := range e.Vals[1:] {
					if p, ok := v.(*absint.Ptr); ok && strings.Contains(absint.Key(p.Cell.V), "Top#") {
						stored = true
					}
					if strings.Contains(absint.Key(v), "Top#") && !strings.HasSuffix(e.Fn, ".Top") {
						stored = true
					}
				}
			}
			if stored {
				r.s.Bad("O3", r.key(op, "captures a live slice of the value stack"), r.ppos(pa), "the frame returned by memory.Top is a sub-slice of the value stack, which growStack reallocates by append; storing it in a value keeps an alias that goes stale (or stays shared) when the stack grows", pa.Describe()...)
			}
			break
		}
	}
	// RET: function values nested in a returned array keep pointing into the dying frame
	for _, pa := range r.normal("RET") {
		if pa.Conds[0] != "ctxp.parent == nil" {
			continue
		}
		cs := condsWith(pa, "ToFunction.1")
		if len(cs) != 1 || !strings.HasSuffix(cs[0], ":= false") {
			continue
		}
		key := r.key("RET", "detaches closures nested in a returned array")
		if len(events(pa, "call", ".ToArray")) > 0 {
			r.s.OK("V13b", key, r.ppos(pa), "a returned non-function value is inspected for nested function values")
		} else {
			r.s.Bad("V13b", key, r.ppos(pa), "a returned value that is not itself a function is pushed as it is: a function value inside a returned array still captures the frame that is being popped", pa.Describe()...)
		}
		break
	}
}
