package vmshape

import (
	"fmt"
	"go/types"
	"strings"

	"calcsa/absint"
	"calcsa/load"

	"golang.org/x/tools/go/ssa"
)

// dumpWorld builds the symbolic machine dumpStack is evaluated on: a VM whose
// main context is MAIN, and a failing context CTX whose parent PARENT is a
// child of MAIN; every other field is a named unknown.
func (r *ruler) dumpWorld(in *absint.Interp) (vmCell, ctx, mainc *absint.Cell) {
	m := r.m
	fn := m.Dump
	ctxPtrT := m.VarOf["ctxp"].Type()
	ctxNamed := ctxPtrT.Underlying().(*types.Pointer).Elem()
	memT := m.VarOf["m"].Type()
	cells := map[string]*absint.Cell{}
	mk := func(tag string, parent absint.Val) *absint.Cell {
		st := absint.Zero(ctxNamed).(*absint.Struct)
		f := append([]absint.Val(nil), st.F...)
		for i := 0; i < m.CtxT.NumFields(); i++ {
			fl := m.CtxT.Field(i)
			switch m.CtxRoles[i] {
			case "parent":
				f[i] = parent
			case "m":
				f[i] = absint.NewVar(tag+".m", memT)
			default:
				f[i] = absint.NewVar(tag+"."+m.CtxRoles[i], fl.Type())
			}
		}
		c := in.NewCell(&absint.Struct{T: ctxNamed, F: f}, tag)
		c.Name = tag
		cells[tag] = c
		return c
	}
	mainc = mk("MAIN", absint.Const{T: ctxPtrT})
	parent := mk("PARENT", &absint.Ptr{Cell: mainc})
	ctx = mk("CTX", &absint.Ptr{Cell: parent})
	vmT := fn.Params[0].Type().Underlying().(*types.Pointer).Elem()
	vst := vmT.Underlying().(*types.Struct)
	vz := absint.Zero(vmT).(*absint.Struct)
	vf := append([]absint.Val(nil), vz.F...)
	for i := 0; i < vst.NumFields(); i++ {
		fl := vst.Field(i)
		if types.Identical(fl.Type(), ctxPtrT) {
			vf[i] = &absint.Ptr{Cell: mainc}
		} else if cs, ok := fl.Type().Underlying().(*types.Struct); ok {
			cz := absint.Zero(fl.Type()).(*absint.Struct)
			cf := append([]absint.Val(nil), cz.F...)
			for j := 0; j < cs.NumFields(); j++ {
				cf[j] = absint.NewVar(fl.Name()+"."+cs.Field(j).Name(), cs.Field(j).Type())
			}
			vf[i] = &absint.Struct{T: fl.Type(), F: cf}
		}
	}
	vmCell = in.NewCell(&absint.Struct{T: vmT, F: vf}, "VM")
	return vmCell, ctx, mainc
}

// dumpRule (O6 / V4b): the error path reports every context from the failing
// one up to the root and resets the *main* context: memory, ip at the end of
// the code, children cleared.
func (r *ruler) dumpRule() {
	m := r.m
	p := m.P
	fn := m.Dump
	pos := p.Pos(fn.Pos())
	o := &absint.Oracle{}
	in := absint.NewInterp(p.SSA, o)
	in.MaxStep = 50000
	vmCell, ctx, mainc := r.dumpWorld(in)
	var evs []string
	// loops over symbolic data (the instruction window) are evaluated at one
	// symbolic position; loops in callees over unknown slices run once
	lsym := &absint.LoopSym{Fn: fn}
	in.Hooks.Instr = lsym.OnInstr
	loops := map[string]int{}
	in.Hooks.Branch = func(in *absint.Interp, cond absint.Val, site ssa.Instruction) (bool, bool) {
		if site != nil && site.Parent() == fn {
			return lsym.OnBranch(in, cond, site)
		}
		if site != nil && site.Block() != nil && strings.HasPrefix(site.Block().Comment, "rangeindex") {
			k := fmt.Sprint(site.Block().Index)
			loops[k]++
			return loops[k] <= 1, true
		}
		return false, false
	}
	in.Hooks.Call = func(in *absint.Interp, callee *ssa.Function, args []absint.Val, site ssa.Instruction) (absint.Val, bool) {
		pkg := ""
		if callee.Pkg != nil {
			pkg = callee.Pkg.Pkg.Path()
		}
		if pkg == load.ModPath+"/vm" && callee.Blocks != nil {
			return nil, false
		}
		sf := shortFn(callee)
		var ks []string
		for _, a := range args {
			ks = append(ks, absint.Key(a))
		}
		if pkg != "fmt" {
			evs = append(evs, sf+"("+strings.Join(ks, ", ")+")")
		}
		switch callee.Signature.Results().Len() {
		case 0:
			return nil, true
		case 1:
			return absint.NewVar(callee.Name()+"()", callee.Signature.Results().At(0).Type()), true
		}
		t := &absint.Tuple{}
		for i := 0; i < callee.Signature.Results().Len(); i++ {
			t.E = append(t.E, absint.NewVar(fmt.Sprintf("%s.%d", callee.Name(), i), callee.Signature.Results().At(i).Type()))
		}
		return t, true
	}
	errV := absint.NewVar("ERR", fn.Params[3].Type())
	vals := absint.NewSliceIn(in, fn.Params[4].Type().Underlying().(*types.Slice).Elem(), []absint.Val{absint.NewVar("OPERAND", nil)})
	res, end := in.Run(fn, []absint.Val{&absint.Ptr{Cell: vmCell}, &absint.Ptr{Cell: ctx}, absint.NewVar("IP", types.Typ[types.Int]), errV, vals})
	key := func(w string) string { return "vm.dumpStack / " + w }
	if end != nil {
		r.s.Unk("O6", key("evaluation"), pos, "could not be evaluated: "+end.Error(), evs...)
		return
	}
	has := func(s string) bool {
		for _, e := range evs {
			if e == s {
				return true
			}
		}
		return false
	}
	hasPrefix := func(s string) bool {
		for _, e := range evs {
			if strings.HasPrefix(e, s) {
				return true
			}
		}
		return false
	}
	// every context from the failing one to the root is reported
	if hasPrefix("(*memory.Type).DumpStack(CTX.m") && hasPrefix("(*memory.Type).DumpStack(PARENT.m") && hasPrefix("(*memory.Type).DumpStack(MAIN.m") {
		r.s.OK("V4", key("reports every context up to the root"), pos, "DumpStack of the failing context, its parent and the main context")
	} else {
		r.s.Bad("V4", key("reports every context up to the root"), pos, "the report must walk ctx.parent from the failing context to the root", evs...)
	}
	// the main context is reset
	ipf := cellField(m, mainc, "ip")
	okReset := has("(*memory.Type).Reset(MAIN.m)")
	okIP := ipf == "len(deref(CR.CS))"
	okClear := has("(*intmap.Map).Clear(MAIN.children)")
	if okReset && okIP && okClear {
		r.s.OK("O6", key("resets the main context"), pos, "main memory Reset, main ip = len(code), main children cleared")
	} else {
		r.s.Bad("O6", key("resets the main context"), pos, fmt.Sprintf("after a failure the *main* context must be reset (memory Reset: %v, ip = len(code): %v [ip=%s], children cleared: %v); otherwise the next statement resumes inside the failed one", okReset, okIP, ipf, okClear), evs...)
	}
	// nothing of the failing child context needs resetting, but it must not be the only thing reset
	tu, _ := res.(*absint.Tuple)
	if tu != nil && len(tu.E) == 2 && absint.Key(tu.E[1]) == "ERR" {
		r.s.OK("V4", key("returns the error it was given"), pos, "returns (nil value, err)")
	} else {
		r.s.Bad("V4", key("returns the error it was given"), pos, "dumpStack must return the error it reports, got "+absint.Key(res))
	}
}
