package vmshape

import "golang.org/x/tools/go/ssa"

type ssaBlock = ssa.BasicBlock
type ssaStore = ssa.Store
type ssaFieldAddr = ssa.FieldAddr
type ssaCall = ssa.Call

func ssaValue(v ssa.Value) ssa.Value { return v }
