package vmshape

import (
	"fmt"
	"go/token"
	"go/types"
	"sort"
	"strings"

	"calcsa/absint"
	"calcsa/load"

	"golang.org/x/tools/go/ssa"
)

// windowRule (V22): the runtime error report shows a few instructions around
// the failing one and puts the operand values on the failing instruction's
// line. With ip the index of the instruction the run loop fetched
// (0 <= ip < len(code), V4: dumpStack receives that very ip), on every path
// through dumpStack:
//
//	a. every slice of the code segment is within bounds (a slice expression out
//	   of range would abort the interpreter while it reports a calc error);
//	b. the window contains ip;
//	c. each line prints the address of the instruction it prints;
//	d. the line that carries the operand values is the line of ip, and the
//	   line of ip always carries them.
//
// The loop over the window is evaluated for one symbolic position I
// (0 <= I < len(window)); max/min are modelled by their two cases; the proofs
// are linear arithmetic over ip, I and len(code) (absint.LinFacts).
func (r *ruler) windowRule() {
	m := r.m
	p := m.P
	fn := m.Dump
	pos := p.Pos(fn.Pos())
	intT := types.Typ[types.Int]
	key := func(w string) string { return "vm.dumpStack / " + w }
	type acc struct {
		n   int
		bad []string
	}
	res := map[string]*acc{"a": {}, "b": {}, "c": {}, "d": {}}
	note := func(k string, ok bool, why string) {
		res[k].n++
		if !ok {
			res[k].bad = append(res[k].bad, why)
		}
	}
	o := &absint.Oracle{}
	paths := 0
	for n := 0; n < 400; n++ {
		paths++
		in := absint.NewInterp(p.SSA, o)
		in.MaxStep = 50000
		vmCell, ctx, _ := r.dumpWorld(in)
		ip := absint.NewVar("IP", intT)
		base := &absint.LinFacts{}
		var codeLen absint.Val
		lens := map[string]absint.Val{}
		lows := map[string]absint.Val{}
		nSym := 0
		printed := false
		concrete, concreteIP := 0, 0 // lines printed outside a symbolic loop; those of ip
		facts := func() *absint.LinFacts {
			f := base.Copy()
			for _, c := range in.CondV {
				f.AddCond(c)
			}
			return f
		}
		isCode := func(x absint.Val) bool { return strings.Contains(absint.Key(x), "CR.CS") }
		in.Hooks.Len = func(in *absint.Interp, x absint.Val) (absint.Val, bool) {
			if l, ok := lens[absint.Key(x)]; ok {
				return l, true
			}
			return nil, false
		}
		lenOfCode := func(x absint.Val) absint.Val {
			l := in.LenOf(x)
			if codeLen == nil && isCode(x) {
				if _, sliced := lens[absint.Key(x)]; !sliced {
					codeLen = l
					base.AddCmp(token.GEQ, ip, absint.MkInt(0), true)
					base.AddCmp(token.LSS, ip, l, true)
				}
			}
			return l
		}
		in.Hooks.Builtin = func(in *absint.Interp, name string, args []absint.Val, site ssa.Instruction) (absint.Val, bool) {
			if (name != "max" && name != "min") || len(args) != 2 {
				if name == "len" && len(args) == 1 {
					if _, isSym := args[0].(*absint.Sym); isSym && isCode(args[0]) {
						return lenOfCode(args[0]), true
					}
				}
				return nil, false
			}
			a, ok1 := absint.LinOf(args[0])
			b, ok2 := absint.LinOf(args[1])
			if !ok1 || !ok2 {
				return nil, false
			}
			nSym++
			mv := absint.NewVar(fmt.Sprintf("%s#%d", strings.ToUpper(name), nSym), intT)
			ml, _ := absint.LinOf(mv)
			base.AddMax(ml, a, b, name == "max")
			return mv, true
		}
		in.Hooks.Slice = func(in *absint.Interp, x, lo, hi, mx absint.Val, site ssa.Instruction) (absint.Val, bool) {
			xs, isSym := x.(*absint.Sym)
			if !isSym || !isCode(x) {
				return nil, false
			}
			lx := lenOfCode(x)
			l, h := lo, hi
			if l == nil {
				l = absint.MkInt(0)
			}
			if h == nil {
				h = lx
			}
			f := facts()
			ll, ok1 := absint.LinOf(l)
			lh, ok2 := absint.LinOf(h)
			llen, ok3 := absint.LinOf(lx)
			form := fmt.Sprintf("%s[%s:%s]", absint.Key(x), absint.Key(l), absint.Key(h))
			if !ok1 || !ok2 || !ok3 {
				note("a", false, form+": bounds are not linear in ip")
			} else {
				var miss []string
				if !f.Proves(ll) {
					miss = append(miss, "0 <= low")
				}
				if !f.Proves(lh.Sub(ll)) {
					miss = append(miss, "low <= high")
				}
				if !f.Proves(llen.Sub(lh)) {
					miss = append(miss, "high <= len")
				}
				note("a", len(miss) == 0, fmt.Sprintf("%s: not established: %s, under [%s]", form, strings.Join(miss, ", "), strings.Join(in.CondLog, "; ")))
			}
			res := &absint.Sym{Op: "slice", Args: []absint.Val{x, l, h}, T: xs.T}
			lens[absint.Key(res)] = in.BinOp(token.SUB, h, l, intT, intT)
			base0 := l
			if prev, ok := lows[absint.Key(x)]; ok {
				base0 = in.BinOp(token.ADD, prev, l, intT, intT)
			}
			lows[absint.Key(res)] = base0
			return res, true
		}
		in.Hooks.IndexAddr = func(in *absint.Interp, x, idx absint.Val, site ssa.Instruction) (absint.Val, bool) {
			if _, isSym := x.(*absint.Sym); !isSym || !isCode(x) {
				return nil, false
			}
			f := facts()
			li, ok1 := absint.LinOf(idx)
			llen, ok2 := absint.LinOf(lenOfCode(x))
			okB := ok1 && ok2 && f.Proves(li) && f.Proves(llen.Sub(li).Plus(-1))
			note("a", okB, fmt.Sprintf("%s[%s]: 0 <= index < len not established under [%s]", absint.Key(x), absint.Key(idx), strings.Join(in.CondLog, "; ")))
			abs := idx
			if lo, ok := lows[absint.Key(x)]; ok {
				abs = in.BinOp(token.ADD, lo, idx, intT, intT)
			}
			return &absint.Sym{Op: "codeaddr", Args: []absint.Val{abs}}, true
		}
		in.Hooks.Load = func(in *absint.Interp, ptr absint.Val, t types.Type, site ssa.Instruction) (absint.Val, bool) {
			if s, ok := ptr.(*absint.Sym); ok && s.Op == "codeaddr" {
				return &absint.Sym{Op: "code", Args: s.Args, T: t}, true
			}
			return nil, false
		}
		// the loop over the window is evaluated at one symbolic position
		inVM := func(f *ssa.Function) bool {
			return f != nil && f.Pkg != nil && f.Pkg.Pkg.Path() == load.ModPath+"/vm"
		}
		loops := &absint.LoopSym{Fn: fn, In: inVM, Facts: base}
		in.Hooks.Instr = loops.OnInstr
		in.Hooks.Branch = func(in *absint.Interp, cond absint.Val, site ssa.Instruction) (bool, bool) {
			if site != nil && site.Block() != nil && strings.HasPrefix(site.Block().Comment, "rangeindex") && !inVM(site.Parent()) {
				return false, true
			}
			return loops.OnBranch(in, cond, site)
		}
		in.Hooks.Call = func(in *absint.Interp, callee *ssa.Function, args []absint.Val, site ssa.Instruction) (absint.Val, bool) {
			pkg := ""
			if callee.Pkg != nil {
				pkg = callee.Pkg.Pkg.Path()
			}
			if pkg == load.ModPath+"/vm" && callee.Blocks != nil {
				return nil, false
			}
			if callee.Name() == "Abbrev" || callee.Name() == "Display" || callee.Name() == "String" && pkg == load.ModPath+"/types/value" {
				return absint.NewVar("OPERANDS", types.Typ[types.String]), true
			}
			// a rendering of an instruction (its String method, a formatter) still
			// stands for that instruction
			if pkg != "fmt" && callee.Signature.Results().Len() == 1 {
				for _, a := range args {
					if cs, ok := a.(*absint.Sym); ok && cs.Op == "code" {
						return &absint.Sym{Op: "code", Args: cs.Args, T: callee.Signature.Results().At(0).Type()}, true
					}
				}
			}
			// whatever is computed from the rendered operands (Join, Sprintf, a
			// builder) still is "the operand values"
			if pkg != "fmt" || !strings.HasPrefix(callee.Name(), "Print") {
				for _, a := range args {
					if mentionsOperands(a) && callee.Signature.Results().Len() == 1 {
						return absint.NewVar("OPERANDS."+callee.Name(), callee.Signature.Results().At(0).Type()), true
					}
				}
			}
			if pkg == "fmt" && len(args) >= 1 {
				var vals []absint.Val
				for _, a := range args {
					if sl, ok := a.(*absint.Slice); ok {
						for _, e := range sl.Elems() {
							if ifc, ok := e.(*absint.Iface); ok {
								vals = append(vals, ifc.V)
							} else {
								vals = append(vals, e)
							}
						}
					}
				}
				var instr absint.Val
				var nums []absint.Val
				operands := false
				for _, v := range vals {
					if c := findCode(v); c != nil {
						instr = c
						continue
					}
					if mentionsOperands(v) {
						operands = true
						continue
					}
					nums = append(nums, findInts(v)...)
				}
				if instr != nil {
					printed = true
					f := facts()
					y, _ := absint.LinOf(instr)
					ipl, _ := absint.LinOf(ip)
					where := fmt.Sprintf("%s under [%s]", p.Pos(site.Pos()), strings.Join(in.CondLog, "; "))
					okAddr := len(nums) >= 1
					for _, nv := range nums {
						x, _ := absint.LinOf(nv)
						if !(f.Proves(x.Sub(y)) && f.Proves(y.Sub(x))) {
							okAddr = false
						}
					}
					note("c", okAddr, fmt.Sprintf("the line of instruction %s prints the number(s) %v (%s)", absint.Key(instr), keys(nums), where))
					isIP := f.Proves(y.Sub(ipl)) && f.Proves(ipl.Sub(y))
					g := f.Copy()
					g.AddEQ(y.Sub(ipl))
					notIP := g.Proves(absint.LinConst(-1))
					inLoop := false
					for _, lv := range loops.Vars {
						if y.Mentions(lv.Atom) {
							inLoop = true
						}
					}
					if inLoop {
						note("b", shownIP(in, loops, base, y, ipl), fmt.Sprintf("the loop that prints instruction %s does not provably reach ip (%s)", absint.Key(instr), where))
					} else {
						concrete++
						if f.Proves(y.Sub(ipl)) && f.Proves(ipl.Sub(y)) {
							concreteIP++
						}
					}
					switch {
					case operands:
						note("d", isIP, fmt.Sprintf("the operand values are printed on the line of instruction %s, which is not known to be ip (%s)", absint.Key(instr), where))
					default:
						note("d", notIP, fmt.Sprintf("the line of instruction %s may be the failing one but is printed without the operand values (%s)", absint.Key(instr), where))
					}
				}
			}
			switch callee.Signature.Results().Len() {
			case 0:
				return nil, true
			case 1:
				// opaque, but what it was computed from stays visible
				return &absint.Sym{Op: callee.Name(), Args: args, T: callee.Signature.Results().At(0).Type()}, true
			}
			t := &absint.Tuple{}
			for i := 0; i < callee.Signature.Results().Len(); i++ {
				t.E = append(t.E, absint.NewVar(fmt.Sprintf("%s.%d", callee.Name(), i), callee.Signature.Results().At(i).Type()))
			}
			return t, true
		}
		errV := absint.NewVar("ERR", fn.Params[3].Type())
		vals := absint.NewSliceIn(in, fn.Params[4].Type().Underlying().(*types.Slice).Elem(), []absint.Val{absint.NewVar("OPERAND", nil)})
		_, end := in.Run(fn, []absint.Val{&absint.Ptr{Cell: vmCell}, &absint.Ptr{Cell: ctx}, ip, errV, vals})
		if end != nil {
			r.s.Unk("V22", key("evaluation"), pos, "could not be evaluated: "+end.Error())
			return
		}
		// lines printed at concrete positions: one of them is the line of ip; a
		// feasible path that prints no line at all does not show it either
		if concrete > 0 {
			note("b", concreteIP > 0, fmt.Sprintf("none of the %d lines printed is the line of ip, under [%s]", concrete, strings.Join(in.CondLog, "; ")))
		} else if !printed && len(loops.Vars) == 0 && !facts().Proves(absint.LinConst(-1)) {
			note("b", false, fmt.Sprintf("no instruction is printed under [%s]", strings.Join(in.CondLog, "; ")))
		}
		if !o.Next() {
			break
		}
	}
	texts := map[string][2]string{
		"a": {"every slice and index of the code segment is within bounds", "a slice expression or index out of range aborts the interpreter while it reports a calc runtime error"},
		"b": {"the instruction window contains the failing instruction", "the report must show the instruction that failed"},
		"c": {"each line shows the address of the instruction it shows", "the addresses in the report must be the addresses of the instructions listed next to them"},
		"d": {"the operand values are shown on the failing instruction's line and on no other", "the report marks the instruction that actually failed together with the operand values it saw"},
	}
	for _, k := range []string{"a", "b", "c", "d"} {
		a := res[k]
		switch {
		case a.n == 0:
			r.s.Unk("V22", key(texts[k][0]), pos, "nothing of the kind was found in dumpStack (no window over the code segment is printed)")
		case len(a.bad) == 0:
			r.s.OK("V22", key(texts[k][0]), pos, fmt.Sprintf("proved at %d point(s) over %d path(s), given 0 <= ip < len(code)", a.n, paths))
		default:
			sort.Strings(a.bad)
			bad := a.bad
			if len(bad) > 4 {
				bad = bad[:4]
			}
			r.s.Bad("V22", key(texts[k][0]), pos, texts[k][1], bad...)
		}
	}
}

func keys(vs []absint.Val) []string {
	var out []string
	for _, v := range vs {
		out = append(out, absint.Key(v))
	}
	return out
}

// shownIP: the loop that prints the line of instruction y (a form in the
// loop's counter J) also prints the line of ip: with J* the counter value at
// which y equals ip, everything the path knows about J at the loop header
// (J >= its initial value, the header's test) holds of J*, and J advances by 1.
func shownIP(in *absint.Interp, loops *absint.LoopSym, base *absint.LinFacts, y, ip absint.Lin) bool {
	for _, lv := range loops.Vars {
		if y.T[lv.Atom] != 1 || !lv.Step1 {
			continue
		}
		off := y.Sub(absint.LinAtom(lv.Atom))
		jstar := ip.Sub(off)
		// what is known without J
		free := &absint.LinFacts{Alt: base.Alt}
		var about []absint.Lin
		for _, g := range base.GE {
			if g.Mentions(lv.Atom) {
				about = append(about, g)
			} else {
				free.GE = append(free.GE, g)
			}
		}
		for i, c := range in.CondV {
			if i > lv.HeadAt {
				break
			}
			f := &absint.LinFacts{}
			if !f.AddCond(c) {
				continue
			}
			for _, g := range f.GE {
				if g.Mentions(lv.Atom) {
					if i == lv.HeadAt {
						about = append(about, g)
					}
				} else {
					free.GE = append(free.GE, g)
				}
			}
		}
		if len(about) < 2 {
			return false
		}
		ok := true
		for _, g := range about {
			if !free.Proves(g.Subst(lv.Atom, jstar)) {
				ok = false
			}
		}
		return ok
	}
	return false
}

func mentionsOperands(v absint.Val) bool {
	if v == nil {
		return false
	}
	if sl, ok := v.(*absint.Slice); ok {
		for _, e := range sl.Elems() {
			if mentionsOperands(e) {
				return true
			}
		}
		return false
	}
	if ifc, ok := v.(*absint.Iface); ok {
		return mentionsOperands(ifc.V)
	}
	return strings.Contains(absint.Key(v), "OPERANDS")
}

// findCode: the instruction (by its absolute index) that v renders, if any.
func findCode(v absint.Val) absint.Val {
	switch x := v.(type) {
	case *absint.Sym:
		if x.Op == "code" && len(x.Args) == 1 {
			return x.Args[0]
		}
		for _, a := range x.Args {
			if c := findCode(a); c != nil {
				return c
			}
		}
	case *absint.Iface:
		return findCode(x.V)
	case *absint.Slice:
		for _, e := range x.Elems() {
			if c := findCode(e); c != nil {
				return c
			}
		}
	}
	return nil
}

// findInts: the integer quantities that go into v (v itself, or the arguments
// of the conversions and concatenations it is built from).
func findInts(v absint.Val) []absint.Val {
	if _, ok := absint.LinOf(v); ok {
		if _, isConst := absint.ConstInt(v); !isConst {
			return []absint.Val{v}
		}
		return nil
	}
	var out []absint.Val
	switch x := v.(type) {
	case *absint.Sym:
		for _, a := range x.Args {
			out = append(out, findInts(a)...)
		}
	case *absint.Iface:
		return findInts(x.V)
	}
	return out
}
