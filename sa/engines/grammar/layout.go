package grammar

import (
	"fmt"
	"strings"

	"calcsa/absint"

	"golang.org/x/tools/go/ssa"
)

// returnsEmpty: the transformer ignores its input and returns no node.
var emptyMemo = map[*ssa.Function]bool{}

func (e *eng) returnsEmpty(fn *ssa.Function) (r bool) {
	if fn == nil || len(fn.Params) != 1 {
		return false
	}
	if v, ok := emptyMemo[fn]; ok {
		return v
	}
	defer func() { emptyMemo[fn] = r }()
	in := absint.NewInterp(e.p.SSA, &absint.Oracle{})
	res, end := in.Run(fn, []absint.Val{absint.NewVar("nodes", fn.Params[0].Type())})
	if end != nil {
		return false
	}
	sl, ok := res.(*absint.Slice)
	return ok && sl.Len == 0
}

// canon renders a definition with parser-valued variables inlined and
// node-dropping transformers shown as drop(...).
func (e *eng) canon(g *G, depth int) string {
	if depth > 40 {
		return "..."
	}
	switch g.Kind {
	case "ref":
		if g.Fn == nil { // cannot happen: refs always carry their function
			return g.Str
		}
		return g.Str
	case "fmap":
		if e.returnsEmpty(g.Fn) {
			return "drop(" + e.canon(g.Args[0], depth+1) + ")"
		}
		return g.Str + "(" + e.canon(g.Args[0], depth+1) + ")"
	case "choose":
		var ps []string
		for i := 0; i+1 < len(g.Args); i += 2 {
			ps = append(ps, e.canon(g.Args[i], depth+1)+" => "+e.canon(g.Args[i+1], depth+1))
		}
		return "choose{" + strings.Join(ps, " | ") + "}"
	case "any":
		return "any{" + e.canon(g.Args[0], depth+1) + " => " + e.canon(g.Args[1], depth+1) + "}"
	case "tok", "kind", "pred", "ok":
		return g.String()
	}
	var ps []string
	for _, a := range g.Args {
		ps = append(ps, e.canon(a, depth+1))
	}
	return g.Kind + "(" + strings.Join(ps, ", ") + ")"
}

// The reference grammar: the Readme BNF, brought in line with the features
// the Readme text documents (one or more line breaks between statements and
// around block bodies, line breaks inside array literals, several loop
// variables / iterators, the five operator levels of the operator table).
const (
	rEOL   = `drop(<EOL>)`
	rEOLS  = `any{` + rEOL + ` => ok}`
	rEOLS1 = `and(` + rEOL + `, ` + rEOLS + `)`
	rPARAM = `mkList(surby("(", sepby(varName, ","), ")"))`
)

var refGrammar = map[string]string{
	"program":     `and(and(any{assert(not(` + rEOL + `)) => block}, ` + rEOLS1 + `), drop(<EOF>))`,
	"block":       `choose{assert("{") => mkBlock(surby(and("{", ` + rEOLS1 + `), statements, and(` + rEOLS1 + `, "}"))) | ok => statement}`,
	"statements":  `and(statement, any{assert(and(` + rEOLS1 + `, not("}"))) => and(` + rEOLS1 + `, statement)})`,
	"statement":   `choose{assert("if") => conditional | assert("while") => whileLoop | assert("for") => forLoop | assert("return") => returning | assert("yield") => yield | assert(and(varName, "=")) => assignment | ok => expression}`,
	"assignment":  `mkAssign(and(and(varName, "="), expression))`,
	"conditional": `mkIf(and(and(and("if", expression), block), choose{"else" => block | ok => ok}))`,
	"whileLoop":   `mkWhile(and(and("while", expression), block))`,
	"forLoop":     `and(and(and(and("for", mkList(and(varName, any{drop(",") => varName}))), "<-"), mkList(and(expression, any{drop(",") => expression}))), block)`,
	"returning":   `mkReturn(and("return", expression))`,
	"yield":       `mkYield(and("yield", expression))`,
	"expression":  `boolOp`,
	"atom":        `choose{assert(and(` + rPARAM + `, "->")) => function | assert(and(varName, "(")) => call | <FloatLit> => ok | <IntLit> => ok | "true" => ok | "false" => ok | <StringLit> => ok | assert("[") => arrayLit | assert("(") => paren | ok => varName}`,
	"paren":       `surby("(", expression, ")")`,
	"arrayLit":    `mkList(surby(and("[", ` + rEOLS + `), sepby(expression, and(",", ` + rEOLS + `)), "]"))`,
	"function":    `mkFunction(and(and(` + rPARAM + `, "->"), block))`,
	"call":        `mkFCall(and(varName, arguments))`,
	"arguments":   `mkList(surby("(", sepby(expression, ","), ")"))`,
	"index":       `mkIndex(and(atom, any{assert("[") => mkLeftChain(surby("[", and(expression, choose{":" => expression | ok => ok}), "]"))}))`,
}

func (e *eng) g5() {
	// inline parser-typed variables: they are values, not recursion points
	inl := map[string]bool{}
	for g := range e.globals {
		if g.Pkg == e.sp {
			inl[g.Name()] = true
		}
	}
	var inline func(g *G, depth int) *G
	inline = func(g *G, depth int) *G {
		if depth > 30 {
			return g
		}
		if g.Kind == "ref" && inl[g.Str] {
			if d, ok := e.defs[g.Str]; ok {
				return inline(d, depth+1)
			}
		}
		ng := &G{Kind: g.Kind, Str: g.Str, Fn: g.Fn}
		for _, a := range g.Args {
			ng.Args = append(ng.Args, inline(a, depth+1))
		}
		return ng
	}
	for name, want := range refGrammar {
		d, ok := e.defs[name]
		key := "parser." + name + " / matches the documented grammar"
		if !ok {
			e.s.Bad("G5", key, "-", "the definition does not exist")
			continue
		}
		got := e.canon(inline(d, 0), 0)
		if got == want {
			e.s.OK("G5", key, e.defPos[name], got)
		} else {
			e.s.Bad("G5", key, e.defPos[name], fmt.Sprintf("the definition differs from the documented grammar:\n      documented: %s\n      found:      %s", want, got))
		}
	}
	// varName: a Name token that is not a keyword
	if d, ok := e.defs["varName"]; ok {
		key := "parser.varName / a name that is not a keyword"
		if d.Kind == "pred" && d.Fn != nil && e.varNamePred(d.Fn) {
			e.s.OK("G5", key, e.defPos["varName"], "accepts Name tokens whose text is not one of the keywords")
		} else {
			e.s.Bad("G5", key, e.defPos["varName"], "varName must accept exactly the Name tokens that are not keywords (if, else, while, for, return, yield, true, false)")
		}
	}
}
