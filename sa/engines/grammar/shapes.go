package grammar

import (
	"strconv"
	"fmt"
	"go/constant"
	"go/types"
	"os"
	"sort"
	"strings"

	"calcsa/absint"
	"calcsa/load"

	"golang.org/x/tools/go/ssa"
)

// elem is one parse result node of not yet chosen dynamic type: a set of
// alternatives, each a concrete interface value whose fields may hold elems.
type elem struct {
	id   int
	alts map[string]*absint.Iface // by alternative key (type, operator)
	tag  string
}

func (x *elem) ObjString() string {
	return "elem:" + x.tag + "{" + strings.Join(x.keys(), "|") + "}"
}

func (x *elem) keys() []string {
	var ks []string
	for k := range x.alts {
		ks = append(ks, k)
	}
	sort.Strings(ks)
	return ks
}

type seq []*elem

// Classes is the class table: which node types can occur where.
type Classes struct {
	Field map[string]map[string]bool // "Struct.Field" -> type names
	Def   map[string]map[string]bool // grammar definition -> type names of its result nodes
	Ops   map[string]map[string]bool // "BinOp" / "UnOp" -> operator strings that can occur
	Ok    bool
}

type shaper struct {
	e        *eng
	nid      int
	summary  map[string][]seq // per definition: one merged sequence per length
	wrapMem  map[string]*elem
	aborts   map[string]string
	literals map[string][]string // token kind -> leaf nodes its text is converted to
	notNames map[string]bool // words the variable-name predicate refuses
	built    map[string]int      // transformer -> results checked (G8)
	misbuilt map[string]string   // transformer -> first result that is not its documented node
	classes  *Classes
	nodeT    *types.Interface
	nodeSp   *ssa.Package
	runs     int
}

func (s *shaper) newElem(tag string) *elem {
	s.nid++
	return &elem{id: s.nid, alts: map[string]*absint.Iface{}, tag: tag}
}

func altKey(i *absint.Iface) string {
	n := i.T.String()
	if nt, ok := i.T.(*types.Named); ok {
		n = nt.Obj().Name()
	}
	if st, ok := i.V.(*absint.Struct); ok && (n == "BinOp" || n == "UnOp") && len(st.F) > 0 {
		if op, ok := absint.ConstString(st.F[0]); ok {
			return n + ":" + op
		}
	}
	if st, ok := i.V.(*absint.Struct); ok && n == "List" && len(st.F) == 1 {
		if sl, ok := st.F[0].(*absint.Slice); ok {
			return fmt.Sprintf("List:%d", min(sl.Len, 3))
		}
	}
	return n
}

func typeOfKey(k string) string {
	if i := strings.Index(k, ":"); i > 0 {
		return k[:i]
	}
	return k
}

func (x *elem) add(i *absint.Iface) bool {
	k := altKey(i)
	if _, ok := x.alts[k]; ok {
		return false
	}
	x.alts[k] = i
	return true
}

// mergeSeqs groups sequences by length and unions elements per position.
func (s *shaper) mergeSeqs(in []seq) []seq {
	byLen := map[int]seq{}
	var lens []int
	for _, q := range in {
		m, ok := byLen[len(q)]
		if !ok {
			m = make(seq, len(q))
			for i := range m {
				m[i] = s.newElem("m")
			}
			byLen[len(q)] = m
			lens = append(lens, len(q))
		}
		for i, el := range q {
			for _, a := range el.alts {
				m[i].add(a)
			}
			if m[i].tag == "m" {
				m[i].tag = el.tag
			}
		}
	}
	sort.Ints(lens)
	var out []seq
	for _, l := range lens {
		out = append(out, byLen[l])
	}
	return out
}

func concat(a, b []seq) []seq {
	var out []seq
	for _, x := range a {
		for _, y := range b {
			out = append(out, append(append(seq{}, x...), y...))
		}
	}
	return out
}

const maxLen = 7

func trim(in []seq) []seq {
	var out []seq
	for _, q := range in {
		if len(q) <= maxLen {
			out = append(out, q)
		}
	}
	return out
}

func (s *shaper) eval(g *G) []seq {
	switch g.Kind {
	case "tok", "kind", "pred":
		el := s.wrap(g)
		if el == nil || len(el.alts) == 0 {
			return nil
		}
		return []seq{{el}}
	case "ok", "assert", "not", "drop":
		return []seq{{}}
	case "and":
		return trim(s.mergeSeqs(concat(s.eval(g.Args[0]), s.eval(g.Args[1]))))
	case "oneof":
		var all []seq
		for _, a := range g.Args {
			all = append(all, s.eval(a)...)
		}
		return s.mergeSeqs(all)
	case "choose":
		var all []seq
		for i := 0; i+1 < len(g.Args); i += 2 {
			all = append(all, concat(s.eval(g.Args[i]), s.eval(g.Args[i+1]))...)
		}
		return trim(s.mergeSeqs(all))
	case "any":
		unit := s.mergeSeqs(concat(s.eval(g.Args[0]), s.eval(g.Args[1])))
		all := []seq{{}}
		cur := []seq{{}}
		for r := 0; r < 3; r++ {
			cur = trim(concat(cur, unit))
			all = append(all, cur...)
		}
		return s.mergeSeqs(all)
	case "sepby":
		unit := s.eval(g.Args[0])
		all := []seq{{}}
		cur := []seq{{}}
		for r := 0; r < 3; r++ {
			cur = trim(concat(cur, unit))
			all = append(all, cur...)
		}
		return s.mergeSeqs(all)
	case "surby":
		return s.eval(g.Args[1])
	case "fmap":
		var all []seq
		for _, q := range s.eval(g.Args[0]) {
			all = append(all, s.apply(g, q)...)
		}
		return s.mergeSeqs(all)
	case "ref":
		return s.summary[g.Str]
	}
	return nil
}

// wrap computes what tokenWrapper.Wrap makes of the tokens a terminal accepts.
func (s *shaper) wrap(g *G) *elem {
	key := g.Kind + ":" + g.Str
	if el, ok := s.wrapMem[key]; ok {
		return el
	}
	e := s.e
	el := s.newElem(g.String())
	s.wrapMem[key] = el
	wrapFn := e.p.Method("parser", "tokenWrapper", "Wrap")
	tokT := e.p.Pkg("types/token").Types.Scope().Lookup("Type").Type()
	kinds := e.p.ConstsOfType("types/token", "Kind")
	if wrapFn == nil {
		s.aborts["wrap"] = "tokenWrapper.Wrap not found"
		return el
	}
	type cand struct {
		kind  string
		value absint.Val
	}
	var cands []cand
	sticky, okS := e.constStr("lexer", "stickyChars")
	nonSticky, okN := e.constStr("lexer", "nonStrickyChars")
	switch g.Kind {
	case "tok":
		switch {
		case !okS || !okN:
			// no character class constants: the lexer itself says what the literal is
			if k := e.lexKind(g.Str); k != "" {
				cands = append(cands, cand{k, absint.MkString(g.Str)})
			}
		case allIn(g.Str, sticky):
			cands = append(cands, cand{"Sticky", absint.MkString(g.Str)})
		case len(g.Str) == 1 && strings.Contains(nonSticky, g.Str):
			cands = append(cands, cand{"NotSticky", absint.MkString(g.Str)})
		case allLower(g.Str):
			cands = append(cands, cand{"Name", absint.MkString(g.Str)})
		}
	case "kind":
		cands = append(cands, cand{g.Str, absint.NewVar("text", types.Typ[types.String])})
	case "pred":
		// varName-like: Name tokens the predicate accepts
		for _, v := range []string{"zz", "true", "false", "if", "else", "while", "for", "return", "yield"} {
			if s.predAccepts(g.Fn, "Name", v) {
				if v == "zz" {
					// an ordinary name stands for every name the predicate accepts:
					// its text is unknown, so that a wrapper or transformer that
					// treats some names specially (a call of "toa" turned into an
					// instruction before scopes are resolved) shows both behaviours.
					// The words the predicate refuses are excluded by nameBranch.
					for _, k := range []string{"true", "false", "if", "else", "while", "for", "return", "yield"} {
						if !s.predAccepts(g.Fn, "Name", k) {
							if s.notNames == nil {
								s.notNames = map[string]bool{}
							}
							s.notNames[k] = true
						}
					}
					cands = append(cands, cand{"Name", absint.NewVar("NAME", types.Typ[types.String])})
					continue
				}
				cands = append(cands, cand{"Name", absint.MkString(v)})
			}
		}
	}
	tst := tokT.Underlying().(*types.Struct)
	for _, c := range cands {
		o := &absint.Oracle{}
		for n := 0; n < 50; n++ {
			in := absint.NewInterp(e.p.SSA, o)
			in.Globals = e.globals
			in.Hooks.Call = s.stdHooks()
			in.Hooks.Branch = s.nameBranch
			in.Hooks.Lookup = s.nameLookup
			z := absint.Zero(tokT).(*absint.Struct)
			f := append([]absint.Val(nil), z.F...)
			for i := 0; i < tst.NumFields(); i++ {
				switch tst.Field(i).Name() {
				case "Value":
					f[i] = c.value
				case "Type":
					f[i] = absint.MkIntT(kinds[c.kind], tst.Field(i).Type())
				}
			}
			tok := &absint.Iface{T: tokT, V: &absint.Struct{T: tokT, F: f}}
			s.runs++
			res, end := in.Run(wrapFn, []absint.Val{absint.Zero(wrapFn.Params[0].Type()), tok})
			if end != nil {
				s.aborts[fmt.Sprintf("parser.tokenWrapper.Wrap / token %s %s", c.kind, absint.Key(c.value))] = "wrapping a " + c.kind + " token can abort the parser: " + end.Error() + " [" + strings.Join(in.CondLog, "; ") + "]"
			} else if ifc, ok := res.(*absint.Iface); ok {
				el.add(ifc)
				if g.Kind == "kind" {
					tn := ""
					if nt, ok := ifc.T.(*types.Named); ok {
						tn = nt.Obj().Name()
					}
					s.literals[c.kind] = append(s.literals[c.kind], tn+"("+absint.Key(ifc.V)+")")
				}
			}
			if !o.Next() {
				break
			}
		}
	}
	return el
}

func (s *shaper) stdHooks() func(in *absint.Interp, callee *ssa.Function, args []absint.Val, site ssa.Instruction) (absint.Val, bool) {
	return func(in *absint.Interp, callee *ssa.Function, args []absint.Val, site ssa.Instruction) (absint.Val, bool) {
		name := callee.String()
		if i := strings.Index(name, "["); i > 0 {
			name = name[:i]
		}
		switch name {
		case "strconv.Atoi", "strconv.ParseFloat":
			errT := callee.Signature.Results().At(1).Type()
			var val absint.Val = absint.NewVar("num", callee.Signature.Results().At(0).Type())
			if len(args) > 0 {
				// which conversion of which text: the literal rule (G6) reads it
				val = &absint.Sym{Op: name, Args: args, T: callee.Signature.Results().At(0).Type()}
			}
			if in.Oracle.Choose(2, name+" fails") == 0 {
				return &absint.Tuple{E: []absint.Val{val, absint.Const{T: errT}}}, true
			}
			ec := in.NewCell(absint.NewVar("rangeerr", nil), "err")
			return &absint.Tuple{E: []absint.Val{val, &absint.Iface{T: types.NewPointer(types.Typ[types.Int]), V: &absint.Ptr{Cell: ec}}}}, true
		case "slices.Contains":
			if sl, ok := args[0].(*absint.Slice); ok {
				if v, ok := absint.ConstString(args[1]); ok {
					for _, el := range sl.Elems() {
						if es, ok := absint.ConstString(el); ok && es == v {
							return absint.MkBool(true), true
						}
					}
					return absint.MkBool(false), true
				}
			}
			return absint.NewVar("contains", types.Typ[types.Bool]), true
		case "strings.ReplaceAll":
			return &absint.Sym{Op: name, Args: args, T: types.Typ[types.String]}, true
		}
		if callee.Pkg != nil && callee.Pkg.Pkg.Path() == "log" {
			in.Undecided("abort: log."+callee.Name(), site)
		}
		return nil, false
	}
}

func (s *shaper) predAccepts(fn *ssa.Function, kind, value string) bool {
	if fn == nil {
		return false
	}
	e := s.e
	tokT := e.p.Pkg("types/token").Types.Scope().Lookup("Type").Type()
	kinds := e.p.ConstsOfType("types/token", "Kind")
	tst := tokT.Underlying().(*types.Struct)
	in := absint.NewInterp(e.p.SSA, &absint.Oracle{})
	in.Globals = e.globals
	in.Hooks.Call = s.stdHooks()
	z := absint.Zero(tokT).(*absint.Struct)
	f := append([]absint.Val(nil), z.F...)
	for i := 0; i < tst.NumFields(); i++ {
		switch tst.Field(i).Name() {
		case "Value":
			f[i] = absint.MkString(value)
		case "Type":
			f[i] = absint.MkIntT(kinds[kind], tst.Field(i).Type())
		}
	}
	res, end := in.Run(fn, []absint.Val{&absint.Iface{T: tokT, V: &absint.Struct{T: tokT, F: f}}})
	if end != nil {
		return false
	}
	b, ok := absint.ConstBool(res)
	return ok && b
}

func (e *eng) varNamePred(fn *ssa.Function) bool {
	s := &shaper{e: e}
	if !s.predAccepts(fn, "Name", "zz") || s.predAccepts(fn, "IntLit", "zz") {
		return false
	}
	for _, k := range []string{"if", "else", "while", "for", "return", "yield", "true", "false"} {
		if s.predAccepts(fn, "Name", k) {
			return false
		}
	}
	return true
}

// nameBranch decides comparisons of the unknown variable name with the words
// that are no variable names (the predicate refuses them): never equal.
func (s *shaper) nameBranch(in *absint.Interp, cond absint.Val, site ssa.Instruction) (bool, bool) {
	c, ok := cond.(*absint.Sym)
	if !ok || len(c.Args) != 2 || (c.Op != "==" && c.Op != "!=") {
		return false, false
	}
	for i := 0; i < 2; i++ {
		if v, ok := c.Args[i].(*absint.Sym); ok && v.Op == "var" && v.Name == "NAME" {
			if k, ok := absint.ConstString(c.Args[1-i]); ok && s.notNames[k] {
				return c.Op == "!=", true
			}
		}
	}
	return false, false
}

// nameLookup: a table of the package indexed by the unknown variable name (a
// set of operators, a map of the boolean literals): the name may be any key
// the name predicate does not refuse, or none.
func (s *shaper) nameLookup(in *absint.Interp, m, k absint.Val, commaOk bool, site ssa.Instruction) (absint.Val, bool) {
	kv, ok := k.(*absint.Sym)
	if !ok || kv.Op != "var" || kv.Name != "NAME" {
		return nil, false
	}
	var mm *absint.Map
	switch x := m.(type) {
	case *absint.Map:
		mm = x
	default:
		return nil, false
	}
	var keys []string
	for kk := range mm.M {
		excluded := false
		for w := range s.notNames {
			if kk == absint.Key(absint.MkString(w)) {
				excluded = true
			}
		}
		// only words the lexer scans as names can be the text of a name token
		if str, isStr := unquoteKey(kk); isStr && !allLower(str) {
			excluded = true
		}
		if !excluded {
			keys = append(keys, kk)
		}
	}
	sort.Strings(keys)
	elemT := site.(*ssa.Lookup).X.Type().Underlying().(*types.Map).Elem()
	c := in.Oracle.Choose(len(keys)+1, "the name is a key of the table")
	var res absint.Val = absint.Zero(elemT)
	found := false
	if c < len(keys) {
		res, found = mm.M[keys[c]], true
	}
	if commaOk {
		return &absint.Tuple{E: []absint.Val{res, absint.MkBool(found)}}, true
	}
	return res, true
}

func unquoteKey(k string) (string, bool) {
	if len(k) >= 2 && k[0] == '"' && k[len(k)-1] == '"' {
		if s, err := strconv.Unquote(k); err == nil {
			return s, true
		}
	}
	return "", false
}

// apply runs a transformer on one sequence of elements.
func (s *shaper) apply(g *G, q seq) []seq {
	e := s.e
	fn := g.Fn
	if fn == nil || len(fn.Params) != 1 {
		return nil
	}
	if e.returnsEmpty(fn) {
		return []seq{{}}
	}
	var out []seq
	o := &absint.Oracle{}
	anyT := fn.Params[0].Type().Underlying().(*types.Slice).Elem()
	desc := func() string {
		var ps []string
		for _, el := range q {
			ps = append(ps, "{"+strings.Join(el.keys(), "|")+"}")
		}
		return "[" + strings.Join(ps, " ") + "]"
	}
	for n := 0; n < 400; n++ {
		in := absint.NewInterp(e.p.SSA, o)
		in.MaxStep = 100000
		in.Globals = e.globals
		chosen := map[*elem]*absint.Iface{}
		pick := func(x *elem, pred func(*absint.Iface) bool) (*absint.Iface, bool) {
			if c, ok := chosen[x]; ok {
				return c, pred(c)
			}
			ks := x.keys()
			// all alternatives agree: no need to choose
			nyes := 0
			for _, k := range ks {
				if pred(x.alts[k]) {
					nyes++
				}
			}
			if nyes == 0 {
				return nil, false
			}
			i := in.Oracle.Choose(len(ks), "type of "+x.tag)
			c := x.alts[ks[i]]
			chosen[x] = c
			return c, pred(c)
		}
		in.Hooks.Call = s.stdHooks()
		in.Hooks.Branch = s.nameBranch
		in.Hooks.Lookup = s.nameLookup
		in.Hooks.TypeAssert = func(in *absint.Interp, v absint.Val, asserted types.Type, commaOk bool, site ssa.Instruction) (absint.Val, bool) {
			x, ok := v.(*elem)
			if !ok {
				return nil, false
			}
			isIface := types.IsInterface(asserted)
			pred := func(a *absint.Iface) bool {
				if isIface {
					return types.Implements(a.T, asserted.Underlying().(*types.Interface))
				}
				return types.Identical(a.T, asserted)
			}
			// an interface assertion every alternative satisfies keeps the element abstract
			if isIface {
				all := true
				for _, a := range x.alts {
					if !pred(a) {
						all = false
					}
				}
				if all {
					if commaOk {
						return &absint.Tuple{E: []absint.Val{x, absint.MkBool(true)}}, true
					}
					return x, true
				}
			}
			c, okc := pick(x, pred)
			if !okc {
				if commaOk {
					return &absint.Tuple{E: []absint.Val{absint.Zero(asserted), absint.MkBool(false)}}, true
				}
				in.Undecided(fmt.Sprintf("abort: interface conversion: a %s element is not %s", strings.Join(x.keys(), "|"), types.TypeString(asserted, func(p *types.Package) string { return p.Name() })), site)
			}
			var r absint.Val = c
			if !isIface {
				r = c.V
			}
			if commaOk {
				return &absint.Tuple{E: []absint.Val{r, absint.MkBool(true)}}, true
			}
			return r, true
		}
		var elems []absint.Val
		for _, el := range q {
			elems = append(elems, el)
		}
		s.runs++
		res, end := in.Run(fn, []absint.Val{absint.NewSliceIn(in, anyT, elems)})
		if end != nil {
			s.aborts[fmt.Sprintf("parser.%s / applied to %s", g.Str, desc())] = fmt.Sprintf("the transformer can abort on a shape its grammar rule produces: %s", end.Error())
		} else if sl, ok := res.(*absint.Slice); ok {
			var r seq
			for _, rv := range sl.Elems() {
				s.checkBuilt(g.Str, rv, desc())
				switch x := rv.(type) {
				case *elem:
					r = append(r, x)
				case *absint.Iface:
					ne := s.newElem(g.Str)
					ne.add(x)
					r = append(r, ne)
					s.record(x)
				default:
					ne := s.newElem(g.Str + "?")
					r = append(r, ne)
				}
			}
			out = append(out, r)
		}
		if !o.Next() {
			break
		}
	}
	return out
}

// record enters the fields of a built node into the class table.
func (s *shaper) record(i *absint.Iface) {
	st, ok := i.V.(*absint.Struct)
	if !ok {
		return
	}
	tn := typeOfKey(altKey(i))
	stt := st.T.Underlying().(*types.Struct)
	if tn == "BinOp" || tn == "UnOp" {
		if op, ok := absint.ConstString(st.F[0]); ok {
			s.addClass(s.classes.Ops, tn, op)
		}
	}
	var put func(field string, v absint.Val)
	put = func(field string, v absint.Val) {
		switch x := v.(type) {
		case *elem:
			for k, a := range x.alts {
				s.addClass(s.classes.Field, field, typeOfKey(k))
				_ = a
			}
		case *absint.Iface:
			s.addClass(s.classes.Field, field, typeOfKey(altKey(x)))
			s.record(x)
		case *absint.Slice:
			for _, el := range x.Elems() {
				put(field, el)
			}
		case *absint.Struct: // node.List
			sst := x.T.Underlying().(*types.Struct)
			for j, fv := range x.F {
				put(field+"."+sst.Field(j).Name(), fv)
			}
		}
	}
	for j, fv := range st.F {
		put(tn+"."+stt.Field(j).Name(), fv)
	}
}

func (s *shaper) addClass(m map[string]map[string]bool, k, v string) {
	if m[k] == nil {
		m[k] = map[string]bool{}
	}
	m[k][v] = true
}

func (s *shaper) size() int {
	n := 0
	for _, qs := range s.summary {
		for _, q := range qs {
			n += 1000
			for _, el := range q {
				n += len(el.alts)
			}
		}
	}
	for _, m := range s.classes.Field {
		n += len(m)
	}
	return n
}

var sharedClasses *Classes

// SharedClasses returns the class table derived by the last run of the engine.
func SharedClasses() *Classes { return sharedClasses }

func (e *eng) shapes() {
	s := &shaper{e: e, summary: map[string][]seq{}, wrapMem: map[string]*elem{}, aborts: map[string]string{}, literals: map[string][]string{}, built: map[string]int{}, misbuilt: map[string]string{},
		classes: &Classes{Field: map[string]map[string]bool{}, Def: map[string]map[string]bool{}, Ops: map[string]map[string]bool{}}}
	names := load.SortedKeys(e.defs)
	rounds := 0
	for prev := -1; rounds < 12; rounds++ {
		for _, n := range names {
			res := s.mergeSeqs(s.eval(e.defs[n]))
			if e.post[n] && n == "forLoop" {
				// forLoop applies mkFor itself after checking that both lists have the same length
				var all []seq
				if mk := e.sp.Func("mkFor"); mk != nil {
					for _, q := range res {
						all = append(all, s.apply(&G{Kind: "fmap", Str: "mkFor", Fn: mk}, q)...)
					}
				}
				res = s.mergeSeqs(all)
			}
			s.summary[n] = res
		}
		sz := s.size()
		if sz == prev {
			break
		}
		prev = sz
	}
	for _, n := range names {
		for _, q := range s.summary[n] {
			for _, el := range q {
				for k := range el.alts {
					s.addClass(s.classes.Def, n, typeOfKey(k))
				}
			}
		}
	}
	e.s.Count("transformer_evaluations", s.runs)
	e.s.Note("class table derived in %d rounds, %d transformer / wrapper evaluations", rounds, s.runs)
	// G4: no transformer or wrapper can abort on what the grammar feeds it
	if len(s.aborts) == 0 {
		e.s.OK("G4", "parser transformers / total on the shapes the grammar produces", "parser/transformer.go", "no arity panic, failed type assertion or wrapper panic is reachable")
	}
	for k, v := range s.aborts {
		pos := "parser/transformer.go"
		if strings.Contains(k, "Wrap") {
			pos = "parser/token_wrapper.go"
		}
		e.s.Bad("G4", k, pos, v)
	}
	// G8: every transformer builds the node of its construct
	for _, tr := range load.SortedKeys(builds) {
		if s.built[tr] == 0 {
			continue
		}
		key := "parser." + tr + " / builds the node of its construct from any pieces"
		if why, bad := s.misbuilt[tr]; bad {
			e.s.Bad("G8", key, "parser/transformer.go", fmt.Sprintf("%s must build %v for every input its grammar rule produces: %s. A tree rewritten while it is built is a different program (a negated comparison is not the opposite comparison for NaN operands, a self-assignment inside a function creates the function's own variable)", tr, builds[tr], why))
		} else {
			e.s.OK("G8", key, "parser/transformer.go", fmt.Sprintf("%d results, all %v", s.built[tr], builds[tr]))
		}
	}
	// G6: a literal's text is converted by the exact conversion of its kind
	wantLit := map[string][]string{
		"IntLit":   {"Float(strconv.ParseFloat(text,64))", "Int(strconv.Atoi(text))"},
		"FloatLit": {"Float(strconv.ParseFloat(text,64))"},
	}
	if os.Getenv("CALCSA_DUMP_LIT") != "" {
		fmt.Println("literals:", s.literals)
	}
	for _, k := range []string{"IntLit", "FloatLit"} {
		var got []string
		for _, l := range s.literals[k] {
			// equivalent spellings of the exact decimal conversion
			for _, alt := range []string{"conv:int(strconv.ParseInt(text,10,64))", "conv:int(strconv.ParseInt(text,10,0))", "strconv.ParseInt(text,10,64)", "strconv.ParseInt(text,10,0)"} {
				l = strings.ReplaceAll(l, alt, "strconv.Atoi(text)")
			}
			got = append(got, l)
		}
		sort.Strings(got)
		got = uniqStr(got)
		key := "parser.tokenWrapper.Wrap / " + k + " text -> leaf"
		if strings.Join(got, " | ") == strings.Join(wantLit[k], " | ") {
			e.s.OK("G6", key, "parser/token_wrapper.go", strings.Join(got, " | "))
		} else {
			e.s.Bad("G6", key, "parser/token_wrapper.go", fmt.Sprintf("an integer literal is the exact integer its digits spell (strconv.Atoi; a float only when it does not fit), a float literal is strconv.ParseFloat(text, 64); any detour (an integer through a float loses digits above 2^53) changes the value a literal stands for. Expected %v, found %v", wantLit[k], got))
		}
	}
	// G6 (strings): the value of a string literal is its text without the two
	// delimiting quotes, escaped quotes replaced by quotes (either order)
	{
		un := `strings.ReplaceAll(text,"\\\"","\"")`
		okForms := map[string]bool{
			"String(slice(" + un + ",1,(len(" + un + ")-1),nil))":                     true,
			`String(strings.ReplaceAll(slice(text,1,(len(text)-1),nil),"\\\"","\""))`: true,
		}
		got := uniqStr(append([]string(nil), s.literals["StringLit"]...))
		key := "parser.tokenWrapper.Wrap / StringLit text -> leaf"
		if len(got) == 1 && okForms[got[0]] {
			e.s.OK("G6", key, "parser/token_wrapper.go", got[0])
		} else {
			e.s.Bad("G6", key, "parser/token_wrapper.go", fmt.Sprintf("a string literal stands for its text without the first and the last character (the delimiting quotes), with \\\" replaced by \"; anything else (trimming every quote at the ends, for one) changes literals that end in an escaped quote. Found %v", got))
		}
	}
	// per transformer obligations (floor)
	seen := map[string]bool{}
	var walk func(g *G)
	walk = func(g *G) {
		if g.Kind == "fmap" && !seen[g.Str] && g.Fn != nil && !e.returnsEmpty(g.Fn) {
			seen[g.Str] = true
			bad := false
			for k := range s.aborts {
				if strings.HasPrefix(k, "parser."+g.Str+" ") {
					bad = true
				}
			}
			if !bad {
				e.s.OK("G4", "parser."+g.Str+" / total", e.p.Pos(g.Fn.Pos()), "evaluated on every shape its grammar rule produces")
			}
		}
		for _, a := range g.Args {
			walk(a)
		}
	}
	for _, n := range names {
		walk(e.defs[n])
	}
	// results: every definition that yields nodes yields node.Type values only
	nodeSp := e.p.SPkg("types/node")
	if nodeSp != nil {
		nodeI := nodeSp.Pkg.Scope().Lookup("Type").Type().Underlying().(*types.Interface)
		for _, n := range []string{"block", "statement", "expression"} {
			key := "parser." + n + " / yields exactly one syntax tree"
			qs := s.summary[n]
			ok := len(qs) == 1 && len(qs[0]) == 1
			if ok {
				for _, a := range qs[0][0].alts {
					if !types.Implements(a.T, nodeI) {
						ok = false
					}
				}
			}
			if ok {
				e.s.OK("G4", key, e.defPos[n], strings.Join(qs[0][0].keys(), " "))
			} else {
				e.s.Bad("G4", key, e.defPos[n], fmt.Sprintf("expected one node.Type result, shapes: %d", len(qs)))
			}
		}
	}
	s.classes.Ok = len(s.aborts) == 0
	sharedClasses = s.classes
	// the class table as evidence
	var lines []string
	for _, k := range load.SortedKeys(s.classes.Field) {
		var ts []string
		for t := range s.classes.Field[k] {
			ts = append(ts, t)
		}
		sort.Strings(ts)
		lines = append(lines, k+"={"+strings.Join(ts, ",")+"}")
	}
	e.s.Note("class table: %s", strings.Join(lines, "; "))
}

var _ = constant.MakeBool

func uniqStr(s []string) []string {
	var out []string
	for i, x := range s {
		if i == 0 || x != s[i-1] {
			out = append(out, x)
		}
	}
	return out
}

// builds is the documented abstract syntax: which node each transformer builds
// ("-" = may also hand an element through unchanged).
var builds = map[string][]string{
	"mkUnaryOp": {"UnOp"}, "mkReturn": {"Return"}, "mkYield": {"Yield"}, "mkAssign": {"Assign"},
	"mkLeftChain": {"BinOp", "-"}, "mkIndex": {"IndexAt", "IndexFromTo", "-"}, "mkList": {"List"},
	"mkBlock": {"Block", "-"}, "mkFCall": {"Call"}, "mkFunction": {"Function"}, "mkIf": {"If", "IfElse"},
	"mkWhile": {"While"}, "mkFor": {"For"},
}

// checkBuilt (G8): a transformer builds the node of its construct from the
// parsed pieces whatever those pieces are: it never answers with another kind
// of node or with one of the pieces (an "optimised" tree is a different program:
// !(a < b) is not a >= b for NaN, x = x inside a function creates the local).
func (s *shaper) checkBuilt(tr string, v absint.Val, input string) {
	allowed, ok := builds[tr]
	if !ok {
		return
	}
	got := ""
	switch x := v.(type) {
	case *elem:
		got = "-"
	case *absint.Iface:
		got = typeOfKey(altKey(x))
	default:
		return
	}
	s.built[tr]++
	for _, a := range allowed {
		if a == got {
			return
		}
	}
	if _, dup := s.misbuilt[tr]; !dup {
		if got == "-" {
			got = "one of its input elements, unchanged"
		} else {
			got = "a " + got + " node"
		}
		s.misbuilt[tr] = fmt.Sprintf("applied to %s it answers with %s", input, got)
	}
}
