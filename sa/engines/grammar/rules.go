package grammar

import (
	"unicode/utf8"
	"fmt"
	"go/token"
	"go/types"
	"sort"
	"strings"

	"calcsa/absint"
	"calcsa/load"

	"golang.org/x/tools/go/ssa"
)

func (e *eng) rules() {
	e.g1()
	e.g2()
	e.g3()
	e.t2t3()
	e.forCounts()
	e.gateRule()
	e.g5()
	e.shapes()
}

// ---------------------------------------------------------------- G1

func (e *eng) nullable() map[*G]bool {
	memo := map[*G]bool{}
	defNull := map[string]bool{}
	var nl func(g *G) bool
	nl = func(g *G) bool {
		switch g.Kind {
		case "tok", "kind", "pred":
			return false
		case "ok", "any", "sepby", "assert", "not":
			return true
		case "and":
			return nl(g.Args[0]) && nl(g.Args[1])
		case "surby":
			return nl(g.Args[0]) && nl(g.Args[1]) && nl(g.Args[2])
		case "oneof":
			for _, a := range g.Args {
				if nl(a) {
					return true
				}
			}
			return false
		case "choose":
			for i := 0; i+1 < len(g.Args); i += 2 {
				if nl(g.Args[i]) && nl(g.Args[i+1]) {
					return true
				}
			}
			return false
		case "drop", "fmap":
			return nl(g.Args[0])
		case "ref":
			return defNull[g.Str]
		}
		return false
	}
	for changed := true; changed; {
		changed = false
		for n, d := range e.defs {
			v := nl(d)
			if v != defNull[n] {
				defNull[n] = v
				changed = true
			}
		}
	}
	var fill func(g *G)
	fill = func(g *G) {
		memo[g] = nl(g)
		for _, a := range g.Args {
			fill(a)
		}
	}
	for _, d := range e.defs {
		fill(d)
	}
	return memo
}

func (e *eng) g1() {
	null := e.nullable()
	nl := func(g *G) bool {
		if v, ok := null[g]; ok {
			return v
		}
		if g.Kind == "ref" {
			if d, ok := e.defs[g.Str]; ok {
				return null[d]
			}
		}
		return false
	}
	// leftmost references
	var left func(g *G, acc map[string]bool)
	left = func(g *G, acc map[string]bool) {
		switch g.Kind {
		case "ref":
			if !acc[g.Str] {
				acc[g.Str] = true
				if d, ok := e.defs[g.Str]; ok {
					left(d, acc)
				}
			}
		case "and":
			left(g.Args[0], acc)
			if nl(g.Args[0]) {
				left(g.Args[1], acc)
			}
		case "surby":
			left(g.Args[0], acc)
			if nl(g.Args[0]) {
				left(g.Args[1], acc)
				if nl(g.Args[1]) {
					left(g.Args[2], acc)
				}
			}
		case "oneof":
			for _, a := range g.Args {
				left(a, acc)
			}
		case "choose":
			for i := 0; i+1 < len(g.Args); i += 2 {
				left(g.Args[i], acc)
				if nl(g.Args[i]) {
					left(g.Args[i+1], acc)
				}
			}
		case "any":
			left(g.Args[0], acc)
			if nl(g.Args[0]) {
				left(g.Args[1], acc)
			}
		case "sepby":
			left(g.Args[0], acc)
			if nl(g.Args[0]) {
				left(g.Args[1], acc)
			}
		case "assert", "not", "drop", "fmap":
			left(g.Args[0], acc)
		}
	}
	for _, n := range load.SortedKeys(e.defs) {
		acc := map[string]bool{}
		left(e.defs[n], acc)
		key := "parser." + n + " / no left recursion"
		if acc[n] {
			e.s.Bad("G1", key, e.defPos[n], "the definition can reach itself without consuming a token: the recursive descent never terminates on any input")
		} else {
			e.s.OK("G1", key, e.defPos[n], "every recursive occurrence is behind at least one consumed token")
		}
	}
	// repetitions make progress
	var walk func(def string, g *G)
	nrep := 0
	walk = func(def string, g *G) {
		switch g.Kind {
		case "any":
			nrep++
			key := fmt.Sprintf("parser.%s / repetition %s makes progress", def, short(g.String()))
			if nl(g.Args[0]) && nl(g.Args[1]) {
				e.s.Bad("G1", key, e.defPos[def], "gate and body of a repetition can both succeed without consuming input: the loop never ends")
			} else {
				e.s.OK("G1", key, e.defPos[def], "each iteration consumes at least one token")
			}
		case "sepby":
			nrep++
			key := fmt.Sprintf("parser.%s / repetition %s makes progress", def, short(g.String()))
			if nl(g.Args[0]) && nl(g.Args[1]) {
				e.s.Bad("G1", key, e.defPos[def], "separator and element can both succeed without consuming input: the loop never ends")
			} else {
				e.s.OK("G1", key, e.defPos[def], "each iteration consumes at least one token")
			}
		}
		for _, a := range g.Args {
			walk(def, a)
		}
	}
	for _, n := range load.SortedKeys(e.defs) {
		walk(n, e.defs[n])
	}
}

func short(s string) string {
	if len(s) > 70 {
		return s[:67] + "..."
	}
	return s
}

// ---------------------------------------------------------------- G2

func (e *eng) cannotFail(g *G) bool {
	g = e.resolve(g)
	switch g.Kind {
	case "ok", "any", "sepby":
		return true
	case "fmap", "drop":
		return e.cannotFail(g.Args[0])
	case "and":
		return e.cannotFail(g.Args[0]) && e.cannotFail(g.Args[1])
	}
	return false
}

func (e *eng) g2() {
	n := 0
	var walk func(def string, g *G)
	walk = func(def string, g *G) {
		if g.Kind == "choose" {
			n++
			key := fmt.Sprintf("parser.%s / choice %s has a final alternative that cannot fail", def, short(g.String()))
			if len(g.Args) >= 2 && e.cannotFail(g.Args[len(g.Args)-2]) {
				e.s.OK("G2", key, e.defPos[def], "the gate of the last alternative always succeeds, so the panic in Choose is unreachable")
			} else {
				e.s.Bad("G2", key, e.defPos[def], "no alternative of this Choose has a gate that always succeeds: input matching none of the gates aborts the parser with 'no predicates succeeded in choice'")
			}
		}
		for _, a := range g.Args {
			walk(def, a)
		}
	}
	for _, d := range load.SortedKeys(e.defs) {
		walk(d, e.defs[d])
	}
	if n < 4 {
		e.s.Unk("G2", "parser / choices", "-", fmt.Sprintf("expected at least 4 Choose combinators, found %d", n))
	}
}

// ---------------------------------------------------------------- G3

func tokSet(g *G) ([]string, bool) {
	switch g.Kind {
	case "tok":
		return []string{g.Str}, true
	case "oneof":
		var out []string
		for _, a := range g.Args {
			s, ok := tokSet(a)
			if !ok {
				return nil, false
			}
			out = append(out, s...)
		}
		sort.Strings(out)
		return out, true
	}
	return nil, false
}

// refLevels: documented precedence, lowest first (Readme "Binary operators" /
// "Unary operators": 5 groups, all left associative, unary binds tighter,
// indexing tightest).
var refLevels = [][]string{
	{"&&", "||"},
	{"!=", "<", "<=", "==", ">", ">="},
	{"&", "|"},
	{"+", "-"},
	{"%", "*", "/", "<<", ">>"},
}
var refUnary = []string{"!", "#", "-", "~"}

func (e *eng) g3() {
	cur := &G{Kind: "ref", Str: "expression"}
	if _, ok := e.defs["expression"]; !ok {
		e.s.Unk("G3", "parser.expression", "-", "definition not found")
		return
	}
	var levels [][]string
	var names []string
	var binOps, unOps []string
	for {
		// follow plain references
		name := ""
		g := cur
		for g.Kind == "ref" {
			name = g.Str
			d, ok := e.defs[g.Str]
			if !ok {
				break
			}
			g = d
		}
		// fmap(mkLeftChain, and(N, any{ops => N}))
		if g.Kind == "fmap" && g.Str == "mkLeftChain" && g.Args[0].Kind == "and" {
			a := g.Args[0]
			if a.Args[1].Kind == "any" && a.Args[0].Kind == "ref" && a.Args[1].Args[1].Kind == "ref" && a.Args[0].Str == a.Args[1].Args[1].Str {
				ops, ok := tokSet(e.resolve(a.Args[1].Args[0]))
				if ok {
					levels = append(levels, ops)
					names = append(names, name)
					binOps = append(binOps, ops...)
					cur = a.Args[0]
					continue
				}
			}
		}
		break
	}
	pos := e.defPos["expression"]
	key := "parser / binary precedence levels"
	got := fmt.Sprint(levels)
	if got == fmt.Sprint(refLevels) {
		e.s.OK("G3", key, pos, fmt.Sprintf("levels %v (lowest first) = %s, each a left chain over the next level", names, got))
	} else {
		e.s.Bad("G3", key, pos, fmt.Sprintf("the chain of left-associative binary levels reachable from expression is %s (definitions %v); the documented table is %v", got, names, refLevels))
	}
	// unary over index over atom
	g := e.resolve(cur)
	key = "parser / prefix operators bind tighter than binary ones and apply to an indexed atom"
	okU := false
	var idx *G
	if g.Kind == "oneof" && len(g.Args) == 2 {
		f, plain := g.Args[0], g.Args[1]
		if f.Kind == "fmap" && f.Str == "mkUnaryOp" && f.Args[0].Kind == "and" && plain.Kind == "ref" && f.Args[0].Args[1].Kind == "ref" && f.Args[0].Args[1].Str == plain.Str {
			ops, ok := tokSet(e.resolve(f.Args[0].Args[0]))
			if ok {
				unOps = ops
				okU = fmt.Sprint(ops) == fmt.Sprint(refUnary)
				idx = plain
			}
		}
	}
	if okU {
		e.s.OK("G3", key, e.defPos[cur.Str], fmt.Sprintf("%s := (%v index) | index", cur.Str, unOps))
	} else {
		e.s.Bad("G3", key, e.defPos[cur.Str], fmt.Sprintf("below the binary levels the grammar must be (one of %v followed by an indexed atom) or an indexed atom; found %s", refUnary, g))
	}
	key = "parser / indexing binds tightest"
	okI := false
	if idx != nil {
		ig := e.resolve(idx)
		if ig.Kind == "fmap" && ig.Str == "mkIndex" && ig.Args[0].Kind == "and" && ig.Args[0].Args[0].Kind == "ref" && ig.Args[0].Args[0].Str == "atom" && ig.Args[0].Args[1].Kind == "any" {
			okI = true
		}
		if okI {
			e.s.OK("G3", key, e.defPos[idx.Str], "index := atom followed by any number of [...] suffixes")
		} else {
			e.s.Bad("G3", key, e.defPos[idx.Str], "an index expression must be an atom followed by bracket suffixes; found "+ig.String())
		}
	} else {
		e.s.Bad("G3", key, pos, "no index level found")
	}
	e.folds()
	e.opTables(binOps, unOps)
}

// folds: mkLeftChain folds to the left; mkUnaryOp / mkIndex build the documented nodes.
func (e *eng) folds() {
	nodeSp := e.p.SPkg("types/node")
	if nodeSp == nil {
		return
	}
	sc := nodeSp.Pkg.Scope()
	binT := sc.Lookup("BinOp").Type()
	nodeT := sc.Lookup("Type").Type()
	mk := func(name string) *ssa.Function { return e.sp.Func(name) }
	opaque := func(n string) absint.Val {
		return &absint.Iface{T: sc.Lookup("Name").Type(), V: absint.MkString(n)}
	}
	op := func(s string) absint.Val {
		z := absint.Zero(binT).(*absint.Struct)
		f := append([]absint.Val(nil), z.F...)
		f[0] = absint.MkString(s)
		return &absint.Iface{T: binT, V: &absint.Struct{T: binT, F: f}}
	}
	run := func(fn *ssa.Function, elems ...absint.Val) (string, string) {
		in := absint.NewInterp(e.p.SSA, &absint.Oracle{})
		anyT := fn.Params[0].Type().Underlying().(*types.Slice).Elem()
		res, end := in.Run(fn, []absint.Val{absint.NewSliceIn(in, anyT, elems)})
		if end != nil {
			return "", end.Error()
		}
		_ = nodeT
		return renderNode(res), ""
	}
	type tc struct {
		fn, what, want string
		args           []absint.Val
	}
	cases := []tc{
		{"mkLeftChain", "a o1 b o2 c folds to the left", `[BinOp{Op:"o2" Left:BinOp{Op:"o1" Left:Name"a" Right:Name"b"} Right:Name"c"}]`,
			[]absint.Val{opaque("a"), op("o1"), opaque("b"), op("o2"), opaque("c")}},
		{"mkLeftChain", "a single operand is passed through", `[Name"a"]`, []absint.Val{opaque("a")}},
		{"mkUnaryOp", "op x", `[UnOp{Op:"o1" Target:Name"x"}]`, []absint.Val{op("o1"), opaque("x")}},
		{"mkIndex", "a [i] [j:k]", `[IndexFromTo{Ary:IndexAt{Ary:Name"a" At:Name"i"} From:Name"j" To:Name"k"}]`,
			[]absint.Val{opaque("a"), opaque("i"), func() absint.Val {
				z := absint.Zero(binT).(*absint.Struct)
				f := append([]absint.Val(nil), z.F...)
				f[0] = absint.MkString(":")
				f[1] = opaque("j")
				f[2] = opaque("k")
				return &absint.Iface{T: binT, V: &absint.Struct{T: binT, F: f}}
			}()}},
	}
	for _, c := range cases {
		fn := mk(c.fn)
		key := "parser." + c.fn + " / " + c.what
		if fn == nil {
			e.s.Unk("G3", key, "-", "transformer not found")
			continue
		}
		got, err := run(fn, c.args...)
		switch {
		case err != "":
			e.s.Bad("G3", key, e.p.Pos(fn.Pos()), "the transformer aborts on this shape: "+err)
		case got == c.want:
			e.s.OK("G3", key, e.p.Pos(fn.Pos()), got)
		default:
			e.s.Bad("G3", key, e.p.Pos(fn.Pos()), fmt.Sprintf("expected %s, got %s (binary operators are left associative; the accumulated node becomes the left operand)", c.want, got))
		}
	}
}

func renderNode(v absint.Val) string {
	switch x := v.(type) {
	case *absint.Iface:
		n := x.T.String()
		if nt, ok := x.T.(*types.Named); ok {
			n = nt.Obj().Name()
		}
		return n + renderNode(x.V)
	case *absint.Struct:
		st := x.T.Underlying().(*types.Struct)
		var ps []string
		for i, f := range x.F {
			ps = append(ps, st.Field(i).Name()+":"+renderNode(f))
		}
		return "{" + strings.Join(ps, " ") + "}"
	case *absint.Slice:
		var ps []string
		for _, el := range x.Elems() {
			ps = append(ps, renderNode(el))
		}
		return "[" + strings.Join(ps, ", ") + "]"
	case absint.Const:
		return absint.Key(x)
	case absint.Object:
		return x.ObjString()
	}
	return absint.Key(v)
}

// ---------------------------------------------------------------- T2 / T3

// opCases extracts the string constants a method compares its receiver's Op field with.
func opCases(fn *ssa.Function) map[string]bool {
	out := map[string]bool{}
	if fn == nil {
		return out
	}
	isOpField := func(v ssa.Value) bool {
		if f, ok := v.(*ssa.Field); ok && f.X == ssa.Value(fn.Params[0]) {
			return true
		}
		if u, ok := v.(*ssa.UnOp); ok {
			if _, ok := u.X.(*ssa.FieldAddr); ok {
				return true
			}
		}
		return false
	}
	for _, b := range fn.Blocks {
		for _, ins := range b.Instrs {
			// a table lookup keyed by the operator: the keys of the package level
			// map are the cases
			if lk, ok := ins.(*ssa.Lookup); ok && isOpField(lk.Index) {
				if ld, ok := lk.X.(*ssa.UnOp); ok && ld.Op == token.MUL {
					if g, ok := ld.X.(*ssa.Global); ok {
						for _, k := range mapKeys(g) {
							out[k] = true
						}
					}
				}
				continue
			}
			bo, ok := ins.(*ssa.BinOp)
			if !ok || bo.Op != token.EQL {
				continue
			}
			for _, pair := range [][2]ssa.Value{{bo.X, bo.Y}, {bo.Y, bo.X}} {
				c, isC := pair[1].(*ssa.Const)
				if !isC || c.Value == nil {
					continue
				}
				if s, ok := absint.ConstString(absint.Const{V: c.Value}); ok {
					// the other side must be the Op field of the receiver
					if f, ok := pair[0].(*ssa.Field); ok && f.X == ssa.Value(fn.Params[0]) {
						out[s] = true
					} else if u, ok := pair[0].(*ssa.UnOp); ok {
						if fa, ok := u.X.(*ssa.FieldAddr); ok {
							_ = fa
							out[s] = true
						}
					}
				}
			}
		}
	}
	return out
}

// mapKeys: the constant string keys the package initialiser puts into the map
// stored in global g.
func mapKeys(g *ssa.Global) []string {
	var out []string
	if g.Pkg == nil {
		return nil
	}
	init := g.Pkg.Func("init")
	if init == nil {
		return nil
	}
	var m ssa.Value
	for _, b := range init.Blocks {
		for _, ins := range b.Instrs {
			if st, ok := ins.(*ssa.Store); ok && st.Addr == ssa.Value(g) {
				m = st.Val
			}
		}
	}
	if m == nil {
		return nil
	}
	for _, b := range init.Blocks {
		for _, ins := range b.Instrs {
			if mu, ok := ins.(*ssa.MapUpdate); ok && mu.Map == m {
				if c, ok := mu.Key.(*ssa.Const); ok && c.Value != nil {
					if s, ok := absint.ConstString(absint.Const{V: c.Value}); ok {
						out = append(out, s)
					}
				}
			}
		}
	}
	return out
}

func (e *eng) opTables(binOps, unOps []string) {
	// which lexemes the wrapper turns into operator nodes: asked of Wrap itself,
	// whatever table it keeps them in
	posW := "parser/token_wrapper.go"
	wrapOps := map[string]bool{}
	cands := append(append([]string{":"}, binOps...), unOps...)
	for _, op := range cands {
		if isOp, ok := e.wrapsAsOperator(op); !ok {
			e.s.Unk("ANCHOR", "parser.tokenWrapper.Wrap", posW, fmt.Sprintf("Wrap could not be evaluated on the operator token %q", op))
			return
		} else if isOp {
			wrapOps[op] = true
		}
	}
	binFn := e.p.Method("types/node", "BinOp", "byteCode")
	unFn := e.p.Method("types/node", "UnOp", "byteCode")
	bc, uc := opCases(binFn), opCases(unFn)
	if len(bc) < 10 || len(uc) < 3 {
		e.s.Unk("ANCHOR", "BinOp/UnOp operator switches", "-", fmt.Sprintf("found %d / %d operator cases", len(bc), len(uc)))
		return
	}
	for _, op := range binOps {
		key := fmt.Sprintf("operator %q (binary) is wrapped and compiled", op)
		switch {
		case !wrapOps[op]:
			e.s.Bad("T2", key, posW, "the grammar accepts this lexeme in binary operator position but the token wrapper's operator list lacks it: it is wrapped as an invalid node and mkLeftChain aborts")
		case !bc[op]:
			e.s.Bad("T2", key, e.p.Pos(binFn.Pos()), "the grammar accepts this binary operator but BinOp.byteCode has no case for it: compiling it aborts with 'unexpected op'")
		default:
			e.s.OK("T2", key, posW, "in the wrapper's list and in BinOp.byteCode's switch")
		}
	}
	for _, op := range unOps {
		key := fmt.Sprintf("operator %q (prefix) is wrapped and compiled", op)
		switch {
		case !wrapOps[op]:
			e.s.Bad("T2", key, posW, "the grammar accepts this lexeme as prefix operator but the token wrapper's operator list lacks it")
		case !uc[op]:
			e.s.Bad("T2", key, e.p.Pos(unFn.Pos()), "the grammar accepts this prefix operator but UnOp.byteCode has no case for it: compiling it aborts with 'unexpected op'")
		default:
			e.s.OK("T2", key, posW, "in the wrapper's list and in UnOp.byteCode's switch")
		}
	}
	if wrapOps[":"] {
		e.s.OK("T2", `separator ":" is wrapped as an operator node`, posW, "mkIndex recognises the range form by it")
	} else {
		e.s.Bad("T2", `separator ":" is wrapped as an operator node`, posW, "the range form a[i:j] relies on ':' being wrapped as an operator node")
	}
}

func (e *eng) t2t3() {
	sticky, ok1 := e.constStr("lexer", "stickyChars")
	nonSticky, ok2 := e.constStr("lexer", "nonStrickyChars")
	byLexer := !ok1 || !ok2 // no character class constants: the lexer itself is asked
	if byLexer && e.lexKind("+") == "" {
		e.s.Unk("ANCHOR", "lexer character classes", "-", "no character class constants, and the lexer could not be evaluated on a literal")
		return
	}
	seen := map[string]bool{}
	var walk func(def string, g *G)
	walk = func(def string, g *G) {
		if g.Kind == "tok" && !seen[g.Str] {
			seen[g.Str] = true
			key := fmt.Sprintf("literal %q is a single token of the lexer", g.Str)
			kind := ""
			switch {
			case g.Str == "":
			case byLexer:
				if k := e.lexKind(g.Str); k != "" {
					kind = "the lexer scans it as one " + k + " token"
				}
			case allIn(g.Str, sticky):
				kind = "a run of operator characters"
			case len(g.Str) == 1 && strings.Contains(nonSticky, g.Str):
				kind = "a bracket / separator character"
			case allLower(g.Str):
				kind = "a name"
			}
			if kind != "" {
				e.s.OK("T3", key, e.defPos[def], kind)
			} else {
				e.s.Bad("T3", key, e.defPos[def], "the lexer can never produce this text as one token (it is neither a run of operator characters, nor one bracket/separator character, nor lower-case letters): the grammar alternative that expects it is dead")
			}
		}
		for _, a := range g.Args {
			walk(def, a)
		}
	}
	for _, d := range load.SortedKeys(e.defs) {
		walk(d, e.defs[d])
	}
}

// constStr finds one of the lexer's character class constants. The classes
// are recognised by what they contain (the operator class has '+', the
// bracket / separator class has '('), not by the identifier, which is free to
// change.
func (e *eng) constStr(rel, name string) (string, bool) {
	pk := e.p.Pkg(rel)
	if pk == nil {
		return "", false
	}
	mark := "+"
	if strings.HasPrefix(name, "non") {
		mark = "("
	}
	var found []string
	sc := pk.Types.Scope()
	for _, n := range sc.Names() {
		c, ok := sc.Lookup(n).(*types.Const)
		if !ok {
			continue
		}
		if v, ok := absint.ConstString(absint.Const{V: c.Val()}); ok && strings.Contains(v, mark) && len(v) > 3 {
			found = append(found, v)
		}
	}
	if len(found) != 1 {
		return "", false
	}
	return found[0], true
}

// lexKind asks the lexer itself what a literal of the grammar is: the text is
// scanned by the real NewLexer / Next (interpreted on the concrete text, the
// rune reader replaced by a cursor over it); the answer is the kind of the
// first token when that token is the whole text, "" otherwise.
func (e *eng) lexKind(text string) string {
	if e.lexMemo == nil {
		e.lexMemo = map[string]string{}
	}
	if k, ok := e.lexMemo[text]; ok {
		return k
	}
	e.lexMemo[text] = ""
	nl := e.p.Func("lexer", "NewLexer")
	next := e.p.Method("lexer", "Lexer", "Next")
	if nl == nil || next == nil || text == "" {
		return ""
	}
	kinds := e.p.ConstsOfType("types/token", "Kind")
	in := absint.NewInterp(e.p.SSA, &absint.Oracle{})
	if sp := e.p.SPkg("lexer"); sp != nil {
		if g, end := absint.InitGlobals(e.p.SSA, sp); end == nil {
			in.Globals = g
		}
	}
	pos := 0
	in.Hooks.Call = func(in *absint.Interp, fn *ssa.Function, args []absint.Val, site ssa.Instruction) (absint.Val, bool) {
		switch fn.String() {
		case "strings.NewReader":
			return absint.NewVar("reader", fn.Signature.Results().At(0).Type()), true
		case "(*strings.Reader).ReadRune":
			errT := types.Universe.Lookup("error").Type()
			if pos >= len(text) {
				return &absint.Tuple{E: []absint.Val{absint.MkIntT(0, types.Typ[types.Rune]), absint.MkInt(0), absint.NewVar("EOFERR", errT)}}, true
			}
			r, w := utf8.DecodeRuneInString(text[pos:])
			pos += w
			return &absint.Tuple{E: []absint.Val{absint.MkIntT(int64(r), types.Typ[types.Rune]), absint.MkInt(int64(w)), absint.Const{T: errT}}}, true
		}
		return absint.StdCall(in, fn, args)
	}
	lex, end := in.Run(nl, []absint.Val{absint.MkString(text)})
	lst, ok := lex.(*absint.Struct)
	if end != nil || !ok {
		return ""
	}
	cell := in.NewCell(lst, "lexer")
	res, end := in.Run(next, []absint.Val{&absint.Ptr{Cell: cell}})
	if b, ok := absint.ConstBool(res); end != nil || !ok || !b {
		return ""
	}
	cur, ok := cell.V.(*absint.Struct)
	if !ok {
		return ""
	}
	for _, fv := range cur.F {
		tk, ok := fv.(*absint.Struct)
		if !ok || !strings.HasSuffix(tk.T.String(), "types/token.Type") {
			continue
		}
		kind, val := "", ""
		for _, tf := range tk.F {
			if c, ok := tf.(absint.Const); ok && c.T != nil {
				if n, isN := c.T.(*types.Named); isN && n.Obj().Name() == "Kind" {
					if kv, ok := absint.ConstInt(c); ok {
						for name, v := range kinds {
							if v == kv {
								kind = name
							}
						}
					}
				}
			}
			if sv, ok := absint.ConstString(tf); ok && val == "" {
				val = sv
			}
		}
		if val == text {
			e.lexMemo[text] = kind
			return kind
		}
	}
	return ""
}

func allIn(s, set string) bool {
	for _, r := range s {
		if !strings.ContainsRune(set, r) {
			return false
		}
	}
	return s != ""
}

func allLower(s string) bool {
	for _, r := range s {
		if r < 'a' || r > 'z' {
			return false
		}
	}
	return s != ""
}

// forCounts (G7): the compiler's For.byteCode aborts when a loop has different
// numbers of variables and iterator expressions, and the compiler rules explore
// loops with equal counts only. That is sound because the parser refuses every
// other loop: wherever package parser builds a For node (calls mkFor), the call
// is guarded by a comparison of the lengths of the two lists.
func (e *eng) forCounts() {
	mk := e.sp.Func("mkFor")
	if mk == nil {
		e.s.Unk("ANCHOR", "parser.mkFor", "-", "not found")
		return
	}
	sites := 0
	for _, m := range e.sp.Members {
		fn, ok := m.(*ssa.Function)
		if !ok || fn.Blocks == nil {
			continue
		}
		var all []*ssa.Function
		all = append(all, fn)
		all = append(all, fn.AnonFuncs...)
		for _, f := range all {
			for _, b := range f.Blocks {
				for _, ins := range b.Instrs {
					refs := false
					var pos token.Pos
					switch x := ins.(type) {
					case *ssa.Call:
						if x.Call.StaticCallee() == mk {
							refs, pos = true, x.Pos()
						}
						for _, a := range x.Call.Args {
							if a == ssa.Value(mk) {
								refs, pos = true, x.Pos() // mkFor handed to a combinator (Fmap): applied unconditionally
							}
						}
					case *ssa.MakeClosure:
					}
					if !refs {
						continue
					}
					sites++
					key := fmt.Sprintf("parser.%s / a for loop is only built from equally long lists", f.Name())
					if call, isCall := ins.(*ssa.Call); isCall && call.Call.StaticCallee() == mk && guardedByLenCompare(b) {
						e.s.OK("G7", key, e.p.Pos(pos), "mkFor is reached only when len(variables) == len(expressions)")
					} else {
						e.s.Bad("G7", key, e.p.Pos(pos), "a for loop with different numbers of loop variables and iterator expressions must be refused by the parser ('for loop must have the same number of variables and expressions'): the compiler aborts the interpreter on such a node (panic in For.byteCode), and the compiler rules only cover equal counts")
					}
				}
			}
		}
	}
	if sites == 0 {
		e.s.Unk("G7", "parser / builds for loops", "-", "no use of mkFor found")
	}
}

// guardedByLenCompare: block b is entered only through the "equal" outcome of
// a test comparing two len(...) values.
func guardedByLenCompare(b *ssa.BasicBlock) bool {
	isLen := func(v ssa.Value) bool {
		c, ok := v.(*ssa.Call)
		if !ok {
			return false
		}
		bi, ok := c.Call.Value.(*ssa.Builtin)
		return ok && bi.Name() == "len"
	}
	for d := b; d != nil; d = d.Idom() {
		id := d.Idom()
		if id == nil || len(id.Instrs) == 0 {
			continue
		}
		iff, ok := id.Instrs[len(id.Instrs)-1].(*ssa.If)
		if !ok {
			continue
		}
		cmp, ok := iff.Cond.(*ssa.BinOp)
		if !ok || !isLen(cmp.X) || !isLen(cmp.Y) {
			continue
		}
		eqEdge := -1
		switch cmp.Op {
		case token.EQL:
			eqEdge = 0
		case token.NEQ:
			eqEdge = 1
		}
		if eqEdge >= 0 && id.Succs[eqEdge] == d && len(d.Preds) == 1 && id.Succs[1-eqEdge] != d {
			return true
		}
	}
	return false
}

// gateRule (G9): a look-ahead gate commits its Choose / Any to the alternative
// behind it, so it may only accept input the alternative can start with:
// FIRST(gate) is contained in FIRST(body). A gate that lets more through makes
// the combinator commit to a body that then fails, and the alternatives after
// it are never tried although one of them matches.
func (e *eng) gateRule() {
	null := e.nullable()
	nl := func(g *G) bool {
		if g.Kind == "ref" {
			if d, ok := e.defs[g.Str]; ok {
				return null[d]
			}
		}
		return null[g]
	}
	memo := map[string]map[string]bool{}
	var first func(g *G, seen map[string]bool) map[string]bool
	first = func(g *G, seen map[string]bool) map[string]bool {
		out := map[string]bool{}
		add := func(m map[string]bool) {
			for k := range m {
				out[k] = true
			}
		}
		switch g.Kind {
		case "tok", "kind", "pred":
			out[g.String()] = true
		case "ref":
			if m, ok := memo[g.Str]; ok {
				return m
			}
			if seen[g.Str] {
				return out
			}
			seen[g.Str] = true
			if d, ok := e.defs[g.Str]; ok {
				add(first(d, seen))
			}
		case "and", "surby":
			for _, a := range g.Args {
				add(first(a, seen))
				if !nl(a) {
					break
				}
			}
		case "oneof":
			for _, a := range g.Args {
				add(first(a, seen))
			}
		case "choose", "any":
			for i := 0; i+1 < len(g.Args); i += 2 {
				gate, body := g.Args[i], g.Args[i+1]
				if gate.Kind == "assert" || gate.Kind == "not" || gate.Kind == "ok" {
					add(first(body, seen))
				} else {
					add(first(gate, seen))
					if nl(gate) {
						add(first(body, seen))
					}
				}
			}
		case "sepby":
			add(first(g.Args[0], seen))
		case "drop", "fmap", "assert":
			add(first(g.Args[0], seen))
		}
		return out
	}
	for n := range e.defs {
		memo[n] = first(&G{Kind: "ref", Str: n}, map[string]bool{})
	}
	n := 0
	var walk func(def string, g *G)
	walk = func(def string, g *G) {
		if g.Kind == "choose" || g.Kind == "any" {
			for i := 0; i+1 < len(g.Args); i += 2 {
				gate, body := g.Args[i], g.Args[i+1]
				if gate.Kind != "assert" {
					continue
				}
				n++
				fg, fb := first(gate.Args[0], map[string]bool{}), first(body, map[string]bool{})
				var extra []string
				for k := range fg {
					if !fb[k] {
						extra = append(extra, k)
					}
				}
				sort.Strings(extra)
				key := fmt.Sprintf("parser.%s / gate %s only lets through what its alternative can start with", def, short(gate.String()))
				if len(extra) == 0 || nl(body) {
					e.s.OK("G9", key, e.defPos[def], fmt.Sprintf("FIRST(gate) = %v", load.SortedKeys(fg)))
				} else {
					e.s.Bad("G9", key, e.defPos[def], fmt.Sprintf("the gate accepts input starting with %v, which the alternative %s cannot start with (it starts with %v): the combinator commits to the alternative, it fails, and the alternatives after it are never tried", extra, short(body.String()), load.SortedKeys(fb)))
				}
			}
		}
		for _, a := range g.Args {
			walk(def, a)
		}
	}
	for _, d := range load.SortedKeys(e.defs) {
		walk(d, e.defs[d])
	}
	if n < 5 {
		e.s.Unk("G9", "parser / look-ahead gates", "-", fmt.Sprintf("expected at least 5 look-ahead gates, found %d", n))
	}
}

// wrapsAsOperator evaluates tokenWrapper.Wrap on the token the lexer produces
// for the lexeme op and tells whether the result is an operator node carrying
// that lexeme.
func (e *eng) wrapsAsOperator(op string) (isOp bool, ok bool) {
	wrapFn := e.p.Method("parser", "tokenWrapper", "Wrap")
	tokPkg := e.p.Pkg("types/token")
	if wrapFn == nil || tokPkg == nil {
		return false, false
	}
	tokT := tokPkg.Types.Scope().Lookup("Type").Type()
	kinds := e.p.ConstsOfType("types/token", "Kind")
	sticky, okS := e.constStr("lexer", "stickyChars")
	kind := "NotSticky"
	if allIn(op, sticky) {
		kind = "Sticky"
	}
	if !okS {
		if k := e.lexKind(op); k != "" {
			kind = k
		}
	}
	tst := tokT.Underlying().(*types.Struct)
	o := &absint.Oracle{}
	in := absint.NewInterp(e.p.SSA, o)
	in.Globals = e.globals
	z := absint.Zero(tokT).(*absint.Struct)
	f := append([]absint.Val(nil), z.F...)
	for i := 0; i < tst.NumFields(); i++ {
		switch tst.Field(i).Name() {
		case "Value":
			f[i] = absint.MkString(op)
		case "Type":
			f[i] = absint.MkIntT(kinds[kind], tst.Field(i).Type())
		}
	}
	tok := &absint.Iface{T: tokT, V: &absint.Struct{T: tokT, F: f}}
	res, end := in.Run(wrapFn, []absint.Val{absint.Zero(wrapFn.Params[0].Type()), tok})
	if end != nil || o.Next() {
		return false, false
	}
	ifc, isI := res.(*absint.Iface)
	if !isI {
		return false, true
	}
	nt, isN := ifc.T.(*types.Named)
	if !isN || nt.Obj().Name() != "BinOp" {
		return false, true
	}
	if st, isS := ifc.V.(*absint.Struct); isS && len(st.F) > 0 {
		if v, isC := absint.ConstString(st.F[0]); isC && v == op {
			return true, true
		}
	}
	return false, true
}
