// Package grammar extracts the grammar as data: the parser-valued
// definitions of package parser are interpreted abstractly with the
// combinator constructors read as IR builders. The G-rules (termination,
// totality of Choose, precedence table, layout, transformer shapes) are then
// checked on the IR.
package grammar

import (
	"fmt"
	"go/types"
	"sort"
	"strings"

	"calcsa/absint"
	"calcsa/load"
	"calcsa/oblig"

	"golang.org/x/tools/go/ssa"
)

// G is a grammar IR node.
type G struct {
	Kind string // tok kind pred ok and oneof choose any sepby surby assert not drop fmap ref
	Str  string // token text / kind name / predicate or function name
	Args []*G
	Fn   *ssa.Function // fmap transformer, ref target, predicate
}

func (g *G) ObjString() string { return g.String() }

func (g *G) String() string {
	switch g.Kind {
	case "tok":
		return fmt.Sprintf("%q", g.Str)
	case "kind":
		return "<" + g.Str + ">"
	case "pred":
		return "pred:" + g.Str
	case "ok":
		return "ok"
	case "ref":
		return g.Str
	case "fmap":
		return g.Str + "(" + g.Args[0].String() + ")"
	case "choose":
		var ps []string
		for i := 0; i+1 < len(g.Args); i += 2 {
			ps = append(ps, g.Args[i].String()+" => "+g.Args[i+1].String())
		}
		return "choose{" + strings.Join(ps, " | ") + "}"
	case "any":
		return "any{" + g.Args[0].String() + " => " + g.Args[1].String() + "}"
	}
	var ps []string
	for _, a := range g.Args {
		ps = append(ps, a.String())
	}
	return g.Kind + "(" + strings.Join(ps, ", ") + ")"
}

type eng struct {
	p        *load.Program
	s        *oblig.Set
	sp       *ssa.Package
	parserT  types.Type
	defs     map[string]*G // grammar functions and parser-typed package variables
	defPos   map[string]string
	globals  map[*ssa.Global]*absint.Cell
	kindName map[int64]string
	post     map[string]bool // functions with code after the parser call
	lexMemo  map[string]string // literal -> token kind the lexer gives it
}

func (e *eng) hooks(in *absint.Interp, record func(g *G)) {
	in.Hooks.Call = func(in *absint.Interp, callee *ssa.Function, args []absint.Val, site ssa.Instruction) (absint.Val, bool) {
		pkg := ""
		if callee.Pkg != nil {
			pkg = callee.Pkg.Pkg.Path()
		}
		if callee.Pkg == e.sp && in.Depth >= 1 && len(args) == 1 && types.Identical(callee.Signature, e.parserT.Underlying()) {
			if sv, ok := args[0].(*absint.Sym); ok && sv.Name == "input" {
				record(&G{Kind: "ref", Str: callee.Name(), Fn: callee})
				in.Undecided("grammar-recorded", site)
			}
		}
		if pkg != load.ModPath+"/combinator" {
			if callee.String() == "slices.Contains" || strings.HasPrefix(callee.String(), "slices.Contains[") {
				return absint.NewVar("contains", types.Typ[types.Bool]), true
			}
			return nil, false
		}
		toG := func(v absint.Val) *G {
			switch x := v.(type) {
			case *G:
				return x
			case *absint.Closure:
				if x.Fn.Pkg == e.sp && len(x.Bind) == 0 && x.Fn.Parent() == nil {
					return &G{Kind: "ref", Str: x.Fn.Name(), Fn: x.Fn}
				}
				return &G{Kind: "pred", Str: "closure " + x.Fn.Name(), Fn: x.Fn}
			}
			return &G{Kind: "pred", Str: "unknown " + absint.Key(v)}
		}
		list := func(v absint.Val) []*G {
			var out []*G
			if sl, ok := v.(*absint.Slice); ok {
				for _, el := range sl.Elems() {
					out = append(out, toG(el))
				}
			}
			return out
		}
		cond := func(v absint.Val) []*G {
			if st, ok := v.(*absint.Struct); ok && len(st.F) == 2 {
				return []*G{toG(st.F[0]), toG(st.F[1])}
			}
			return []*G{{Kind: "pred", Str: "?"}, {Kind: "pred", Str: "?"}}
		}
		switch callee.Name() {
		case "Ok":
			return &G{Kind: "ok"}, true
		case "Accept":
			g := &G{Kind: "pred", Str: "?"}
			if cl, ok := args[0].(*absint.Closure); ok {
				g.Fn = cl.Fn
				g.Str = cl.Fn.Name()
				if len(cl.Bind) == 1 {
					bv := cl.Bind[0]
					if pv, ok := bv.(*absint.Ptr); ok {
						bv = in.Load(pv, nil, site)
					}
					if s, ok := absint.ConstString(bv); ok {
						g = &G{Kind: "tok", Str: s, Fn: cl.Fn}
					} else if k, ok := absint.ConstInt(bv); ok {
						g = &G{Kind: "kind", Str: e.kindName[k], Fn: cl.Fn}
					}
				}
			}
			return g, true
		case "And":
			return &G{Kind: "and", Args: []*G{toG(args[0]), toG(args[1])}}, true
		case "Seq":
			l := list(args[0])
			if len(l) == 0 {
				return nil, false
			}
			g := l[0]
			for _, x := range l[1:] {
				g = &G{Kind: "and", Args: []*G{g, x}}
			}
			return g, true
		case "OneOf":
			l := list(args[0])
			if len(l) == 0 {
				return nil, false
			}
			return &G{Kind: "oneof", Args: l}, true
		case "Choose":
			g := &G{Kind: "choose"}
			if sl, ok := args[0].(*absint.Slice); ok {
				for _, el := range sl.Elems() {
					g.Args = append(g.Args, cond(el)...)
				}
			}
			return g, true
		case "Any":
			return &G{Kind: "any", Args: cond(args[0])}, true
		case "SeparatedBy":
			return &G{Kind: "sepby", Args: []*G{toG(args[0]), toG(args[1])}}, true
		case "SurroundedBy":
			return &G{Kind: "surby", Args: []*G{toG(args[0]), toG(args[1]), toG(args[2])}}, true
		case "Assert":
			return &G{Kind: "assert", Args: []*G{toG(args[0])}}, true
		case "Not":
			return &G{Kind: "not", Args: []*G{toG(args[0])}}, true
		case "Drop":
			return &G{Kind: "drop", Args: []*G{toG(args[0])}}, true
		case "Fmap":
			g := &G{Kind: "fmap", Args: []*G{toG(args[1])}, Str: "?"}
			if cl, ok := args[0].(*absint.Closure); ok {
				g.Fn = cl.Fn
				g.Str = cl.Fn.Name()
			}
			return g, true
		case "NewError":
			return absint.NewVar("error", callee.Signature.Results().At(0).Type()), true
		}
		return nil, false
	}
	in.Hooks.CallValue = func(in *absint.Interp, fnv absint.Val, args []absint.Val, site ssa.Instruction) (absint.Val, bool) {
		if g, ok := fnv.(*G); ok {
			record(g)
			in.Undecided("grammar-recorded", site)
		}
		return nil, false
	}
}

func (e *eng) extract() bool {
	p := e.p
	e.sp = p.SPkg("parser")
	if e.sp == nil {
		e.s.Unk("ANCHOR", "package parser", "-", "not found")
		return false
	}
	csp := p.SPkg("combinator")
	if csp == nil || csp.Pkg.Scope().Lookup("Parser") == nil {
		e.s.Unk("ANCHOR", "combinator.Parser", "-", "not found")
		return false
	}
	e.parserT = csp.Pkg.Scope().Lookup("Parser").Type()
	e.kindName = map[int64]string{}
	for k, v := range p.ConstsOfType("types/token", "Kind") {
		e.kindName[v] = k
	}
	e.defs = map[string]*G{}
	e.defPos = map[string]string{}
	e.post = map[string]bool{}
	// package level parser variables: interpret the package initialiser
	initFn := e.sp.Func("init")
	in := absint.NewInterp(p.SSA, &absint.Oracle{})
	in.MaxStep = 500000
	e.hooks(in, func(g *G) {})
	in.Hooks.Global = func(in *absint.Interp, g *ssa.Global) (absint.Val, bool) {
		if g.Pkg == e.sp {
			return absint.Zero(g.Type().Underlying().(*types.Pointer).Elem()), true
		}
		if strings.HasPrefix(g.Name(), "init$guard") {
			return absint.MkBool(true), true // imported packages are already initialised
		}
		return nil, false
	}
	if initFn != nil {
		if _, end := in.Run(initFn, nil); end != nil {
			e.s.Unk("ANCHOR", "parser package initialiser", "-", "could not be evaluated: "+end.Error())
			return false
		}
	}
	e.globals = in.Globals
	for g, c := range in.Globals {
		if g.Pkg != e.sp {
			continue
		}
		if gv, ok := c.V.(*G); ok {
			e.defs[g.Name()] = gv
			e.defPos[g.Name()] = p.Pos(g.Pos())
		}
	}
	// grammar functions: package level functions with the parser signature
	sig := e.parserT.Underlying().(*types.Signature)
	var names []string
	for n, m := range e.sp.Members {
		fn, ok := m.(*ssa.Function)
		if ok && fn.Signature.Recv() == nil && types.Identical(fn.Signature, sig) {
			names = append(names, n)
		}
	}
	sort.Strings(names)
	for _, n := range names {
		fn := e.sp.Func(n)
		in := absint.NewInterp(p.SSA, &absint.Oracle{})
		in.MaxStep = 500000
		in.Globals = e.globals
		var got *G
		e.hooks(in, func(g *G) {
			if got == nil {
				got = g
			}
		})
		_, end := in.Run(fn, []absint.Val{absint.NewVar("input", fn.Params[0].Type())})
		if got == nil {
			e.s.Unk("G0", "parser."+n, p.Pos(fn.Pos()), fmt.Sprintf("the grammar function does not apply a combinator parser to its input in a way the evaluator resolves: %v", end))
			continue
		}
		e.defs[n] = got
		e.defPos[n] = p.Pos(fn.Pos())
		// code after the parser call (forLoop): detect a second block use
		for _, b := range fn.Blocks {
			for _, ins := range b.Instrs {
				if c, ok := ins.(*ssa.Call); ok {
					if f := c.Call.StaticCallee(); f != nil && f.Pkg == e.sp && strings.HasPrefix(f.Name(), "mk") {
						e.post[n] = true
					}
				}
			}
		}
	}
	if len(e.defs) < 25 {
		e.s.Unk("ANCHOR", "grammar definitions", "-", fmt.Sprintf("only %d grammar definitions resolved", len(e.defs)))
		return false
	}
	return true
}

// resolve follows references.
func (e *eng) resolve(g *G) *G {
	for g != nil && g.Kind == "ref" {
		d, ok := e.defs[g.Str]
		if !ok {
			return g
		}
		g = d
	}
	return g
}
