package grammar

import (
	"fmt"
	"os"

	"calcsa/load"
	"calcsa/oblig"
)

func Run(p *load.Program, tier string) *oblig.Set {
	s := oblig.NewSet()
	e := &eng{p: p, s: s}
	if !e.extract() {
		return s
	}
	if os.Getenv("CALCSA_DUMP_GRAMMAR") != "" {
		for _, n := range load.SortedKeys(e.defs) {
			fmt.Printf("%-12s := %s\n", n, e.defs[n])
		}
	}
	e.rules()
	return s
}
