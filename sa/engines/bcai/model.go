// Package bcai is the abstract interpretation of the compiler
// (types/node/bytecoder.go). Every byteCode method is interpreted over go/ssa
// with its children as opaque node references answered from tabulated
// summaries (node type x flag context x operand slot), the code segment as an
// abstract item list with symbolic labels, and instructions as records of
// (opcode, operand kinds, operand addresses). The B-rules are checked on every
// path of every reachable (method, context).
package bcai

import (
	"fmt"
	"go/token"
	"go/types"
	"sort"
	"strings"

	"calcsa/absint"
)

// instrV is an instruction word seen as a record. Unset fields are zero.
type instrV struct {
	op    absint.Val // nil: unset
	k     [3]absint.Val
	a     [3]absint.Val
	confl string // set when two non-zero fields were OR-ed together
}

func (i *instrV) ObjString() string {
	var ps []string
	if i.op != nil {
		ps = append(ps, "op="+absint.Key(i.op))
	}
	for s := 0; s < 3; s++ {
		if i.k[s] != nil || i.a[s] != nil {
			ps = append(ps, fmt.Sprintf("src%d=%s:%s", s, keyOr0(i.k[s]), keyOr0(i.a[s])))
		}
	}
	return "instr{" + strings.Join(ps, " ") + "}"
}

func keyOr0(v absint.Val) string {
	if v == nil {
		return "0"
	}
	k := absint.Key(v)
	if len(k) > 2 && k[0] == '(' && k[len(k)-1] == ')' && !strings.ContainsAny(k[1:len(k)-1], "+-*(") {
		return k[1 : len(k)-1]
	}
	return k
}

func isZero(v absint.Val) bool {
	if v == nil {
		return true
	}
	c, ok := absint.ConstInt(v)
	return ok && c == 0
}

func orField(a, b absint.Val, what string, confl *string) absint.Val {
	switch {
	case isZero(a):
		if b == nil {
			return a
		}
		return b
	case isZero(b):
		return a
	}
	*confl = what + ": " + absint.Key(a) + " | " + absint.Key(b)
	return absint.Top{Why: "two non-zero instruction fields OR-ed"}
}

func (i *instrV) or(j *instrV) *instrV {
	r := &instrV{confl: i.confl}
	if j.confl != "" {
		r.confl = j.confl
	}
	r.op = orField(i.op, j.op, "opcode", &r.confl)
	for s := 0; s < 3; s++ {
		r.k[s] = orField(i.k[s], j.k[s], fmt.Sprintf("kind of operand %d", s), &r.confl)
		r.a[s] = orField(i.a[s], j.a[s], fmt.Sprintf("address of operand %d", s), &r.confl)
	}
	return r
}

func (i *instrV) allZero() bool {
	if !isZero(i.op) {
		return false
	}
	for s := 0; s < 3; s++ {
		if !isZero(i.k[s]) || !isZero(i.a[s]) {
			return false
		}
	}
	return true
}

// childOut is one outcome of compiling a child in a context.
type childOut struct {
	Kind     int64 // operand kind of the returned descriptor
	AddrZero bool  // the descriptor's address is the constant 0
	FT       bool  // control can fall through the child's code
	Clobber  bool  // the child's code may overwrite tmp (writes it, calls, yields)
	HC       bool  // the child's HasCall() value
	Empty    bool  // the child emits no instruction
	Dirty    bool  // the descriptor has fields outside the requested slot
}

// goKey is the part of an outcome the parent's Go code can observe.
func (c childOut) goKey() string { return fmt.Sprintf("k%d z%v d%v", c.Kind, c.AddrZero, c.Dirty) }

// childGroup is what a parent path knows about a child: the observable part
// of its descriptor, and the set of behaviours compatible with it.
type childGroup struct {
	Kind     int64
	AddrZero bool
	Dirty    bool
	Vars     []childOut
}

func (g *childGroup) mayFT() bool {
	for _, v := range g.Vars {
		if v.FT {
			return true
		}
	}
	return false
}
func (g *childGroup) mustFT() bool {
	for _, v := range g.Vars {
		if !v.FT {
			return false
		}
	}
	return true
}
func (g *childGroup) mayClobber() bool {
	for _, v := range g.Vars {
		if v.Clobber {
			return true
		}
	}
	return false
}
func (g *childGroup) allEmpty() bool {
	for _, v := range g.Vars {
		if !v.Empty {
			return false
		}
	}
	return true
}

func (c childOut) key() string {
	return fmt.Sprintf("k%d z%v ft%v cl%v hc%v e%v d%v", c.Kind, c.AddrZero, c.FT, c.Clobber, c.HC, c.Empty, c.Dirty)
}

// item of the abstract code segment.
type item struct {
	ins   *instrV     // an instruction
	child *childGroup // or the code of a child
	ctype string      // child: node type
	cref  *nodeRef
	csel  int
	pos   token.Pos
	dbg   *dbgRec // debug info keyed at this position
}

type dbgRec struct {
	argCnt string
	name   string
}

// seg is the code or data segment (append only list).
type seg struct {
	name     string
	items    []*absint.Cell // code: *item ; data: dsEntry
	removed  bool
	truncPos token.Pos
}

func (s *seg) ObjString() string { return "segment " + s.name }

// segVal is the slice value of a segment.
type segVal struct{ s *seg }

func (s *segVal) ObjString() string { return "slice of " + s.s.name }

// dsEntry is a data segment entry, remembered by constructor.
type dsEntry struct {
	ctor string
	args []string
}

func (d *dsEntry) ObjString() string { return d.ctor + "(" + strings.Join(d.args, ",") + ")" }

// itemVal wraps an item so it can live in a cell.
type itemVal struct{ it *item }

func (i *itemVal) ObjString() string {
	if i.it.ins != nil {
		return i.it.ins.ObjString()
	}
	return "child " + i.it.ctype
}

// nodeRef is an unknown subtree drawn from a class of node types.
type nodeRef struct {
	id     int
	field  string
	class  []string
	chosen string // node type once decided
	hc     *bool
	mat    map[string]absint.Val // materialised receivers by type
	parent *nodeRef              // the reference whose materialisation created this one (nil: child of the receiver)
	depth  int
	op     string // operator of the materialised node, when it has one
}

func (n *nodeRef) ObjString() string {
	if n.chosen != "" {
		return fmt.Sprintf("node#%d:%s(%s)", n.id, n.field, n.chosen)
	}
	return fmt.Sprintf("node#%d:%s", n.id, n.field)
}

// flags is the abstract flag context of a summary key.
type flags struct {
	Discard, ForbidTemp, AcceptTemp, Returning, InFor, InFunc bool
	OpPos                                                     bool // OpDepth > 0
}

func (f flags) String() string {
	var ps []string
	add := func(b bool, n string) {
		if b {
			ps = append(ps, n)
		}
	}
	add(f.Discard, "Discard")
	add(f.ForbidTemp, "ForbidTemp")
	add(f.AcceptTemp, "AcceptTemp")
	add(f.Returning, "Returning")
	add(f.InFor, "InFor")
	add(f.InFunc, "InFunc")
	add(f.OpPos, "OpDepth>0")
	if len(ps) == 0 {
		return "{}"
	}
	return "{" + strings.Join(ps, ",") + "}"
}

// key identifies a summary.
type key struct {
	Type string
	F    flags
	Sel  int
}

func (k key) String() string { return fmt.Sprintf("%s.byteCode(src%d, %s)", k.Type, k.Sel, k.F) }

func sortedOuts(m map[string]childOut) []childOut {
	var ks []string
	for k := range m {
		ks = append(ks, k)
	}
	sort.Strings(ks)
	var out []childOut
	for _, k := range ks {
		out = append(out, m[k])
	}
	return out
}

var _ = types.Typ
