package bcai

import (
	"fmt"
	"os"
	"strings"

	"calcsa/absint"
)

// extra checks the rules that look at the children calls and at typed operands.
func (e *eng) extra(pa *pathRec, method, pos string, rep func(rule, what, detail string)) {
	K := e.addrK
	tn := pa.key.Type
	// B5: order and slots of the children
	if want, ok := childOrder[tn]; ok {
		if tn == "Assign" {
			// the increment form compiles only the variable, as operand 0 of INC
			hasValue := false
			for _, c := range pa.calls {
				if c.field == "Assign.Value" {
					hasValue = true
				}
			}
			if !hasValue {
				want = []struct {
					field string
					sel   int
				}{{"Assign.VarRef", 0}}
			}
		}
		wi := 0
		for _, c := range pa.calls {
			// only direct children of the receiver
			matched := false
			for j := wi; j < len(want); j++ {
				if c.field == want[j].field {
					if c.sel != want[j].sel {
						rep("B5", "operand slot of "+c.field, fmt.Sprintf("%s is compiled for operand %d but the VM reads it from operand %d (left operand = src1 = receiver of the operator, right operand = src0)", c.field, c.sel, want[j].sel))
					}
					wi = j
					matched = true
					break
				}
			}
			if !matched {
				for j := 0; j < wi; j++ {
					if c.field == want[j].field {
						rep("B5", "evaluation order", fmt.Sprintf("%s is compiled after %s: operands must be evaluated strictly left to right", c.field, want[wi].field))
					}
				}
			}
		}
	}
	// a call goes through the value of its callee expression: every argument
	// and the callee are compiled, and the callee's code feeds a CALL that
	// passes as many arguments as were written
	if tn == "Call" {
		nName, nArgs := 0, 0
		var nameCall *childCall
		for i, c := range pa.calls {
			switch c.field {
			case "Call.Name":
				nName++
				nameCall = &pa.calls[i]
			case "Call.Arguments.Elems":
				nArgs++
			}
		}
		if nName != 1 || nArgs != pa.lens["Call.Arguments"] {
			rep("B5", "a call evaluates its callee and every argument", fmt.Sprintf("the callee expression is compiled %d time(s) and %d of %d arguments: what a call does is decided by the value of the callee at run time (builtins are ordinary rebindable globals), so a call site may not be compiled into anything but arguments, callee, CALL", nName, nArgs, pa.lens["Call.Arguments"]))
		} else if j := nameCall.item + 1; j >= len(pa.items) || pa.items[j].ins == nil {
			rep("B5", "a call evaluates its callee and every argument", "the callee's code is not followed by a CALL instruction")
		} else if c, ok := absint.ConstInt(pa.items[j].ins.op); !ok || e.opNm[c] != "CALL" {
			rep("B5", "a call evaluates its callee and every argument", fmt.Sprintf("the callee's code is followed by %s, not CALL", e.opNm[c]))
		} else if ac := keyOr0(pa.items[j].ins.a[1]); ac != fmt.Sprint(pa.lens["Call.Arguments"]) {
			rep("B5", "a call evaluates its callee and every argument", fmt.Sprintf("CALL passes %s arguments, the call has %d", ac, pa.lens["Call.Arguments"]))
		}
	}
	// list-like children in order
	if tn == "List" || tn == "Call" || tn == "Block" {
		last := -1
		for _, c := range pa.calls {
			if strings.HasSuffix(c.field, ".Elems") || c.field == "Block.Body" {
				if c.ref.id < last {
					rep("B5", "evaluation order", "list elements are compiled out of source order")
				}
				last = c.ref.id
			}
		}
	}

	items := pa.items
	opName := func(i int) string {
		if i < 0 || i >= len(items) || items[i].ins == nil {
			return ""
		}
		if c, ok := absint.ConstInt(items[i].ins.op); ok {
			return e.opNm[c]
		}
		return ""
	}
	// B6: a condition is consumed by a conditional jump of the right polarity
	for _, c := range pa.calls {
		// the condition itself, or what is left of it after the compiler peeled
		// negations off: count the '!' nodes between the node's Condition field
		// and the subtree that is compiled
		isCond := strings.HasSuffix(c.field, ".Condition")
		negs := 0
		for a := c.ref; a != nil && a.parent != nil; a = a.parent {
			if a.parent.chosen == "UnOp" && a.parent.op == "!" && a.field == "UnOp.Target" {
				negs++
				if a.parent.parent == nil && strings.HasSuffix(a.parent.field, ".Condition") {
					isCond = true
				}
			} else {
				isCond = false
				break
			}
		}
		folded := negs%2 == 1
		if !isCond || c.item+1 > len(items) {
			continue
		}
		j := c.item + 1
		name := opName(j)
		if name != "JMPF" && name != "JMPT" {
			rep("B6", "condition is tested", fmt.Sprintf("the code of the condition (%s) is not followed by a conditional jump but by %q: the condition is evaluated and never tested (a non-boolean condition goes unnoticed, its value may stay on the stack)", c.field, name))
			continue
		}
		iv := items[j].ins
		ck, _ := absint.ConstInt(iv.k[0])
		if ck != items[c.item].child.Kind {
			rep("B6", "condition is tested", "the conditional jump does not test the operand the condition was compiled to")
		}
		// direction: forward = skip when false; backward = repeat when true
		var dir int
		if a, ok := iv.a[1].(*absint.Sym); ok && a.Op == "lin" {
			for k, co := range a.Terms {
				var ix int
				if _, err := fmt.Sscanf(k, "L%d", &ix); err == nil && co == 1 {
					if ix > j {
						dir = 1
					} else {
						dir = -1
					}
				}
			}
		}
		want := ""
		switch {
		case dir > 0 && !folded, dir < 0 && folded:
			want = "JMPF"
		case dir > 0 && folded, dir < 0 && !folded:
			want = "JMPT"
		}
		if want != "" && name != want {
			neg := ""
			if negs > 0 {
				neg = fmt.Sprintf(" (the compiler removed %d '!' from the condition)", negs)
			}
			rep("B6", "jump polarity", fmt.Sprintf("a %s jump on %s%s must be %s, the compiler emits %s: the branch is taken on the wrong truth value", map[int]string{1: "forward (skip)", -1: "backward (repeat)"}[dir], c.field, neg, want, name))
		}
	}
	// B11: an assignment may skip computing its value only for "v = v + 1" / "v = 1 + v"
	if tn == "Assign" {
		e.incShortcut(pa, opName, rep)
	}
	// B7: debug info is keyed by the position of the CALL
	for i, it := range items {
		if it.dbg == nil {
			continue
		}
		j := i
		for j < len(items) && items[j].child != nil && items[j].child.allEmpty() {
			j++
		}
		if opName(j) != "CALL" {
			rep("B7", "debug info key", fmt.Sprintf("the call's debug info is stored under the code position of item %d, but the CALL instruction (whose address the VM pushes as return address and the stack dump looks up) is elsewhere: stack traces name the wrong call or none", i))
			continue
		}
		if ac := keyOr0(items[j].ins.a[1]); ac != it.dbg.argCnt {
			rep("B7", "debug info argument count", fmt.Sprintf("debug info records %s arguments, the CALL passes %s", it.dbg.argCnt, ac))
		}
	}
	// B8: context ids
	if tn == "For" {
		n := pa.lens["For.VarRefs"]
		var cc, sc []string
		for i, it := range items {
			switch opName(i) {
			case "CCONT":
				cc = append(cc, keyOr0(it.ins.a[1]))
			case "SCONT":
				sc = append(sc, keyOr0(it.ins.a[0]))
			case "DCONT":
				lo, hi := keyOr0(it.ins.a[0]), keyOr0(it.ins.a[1])
				wantHi := linKey("CID", int64(n-1))
				if lo != "CID" || hi != wantHi {
					rep("B8", "DCONT range", fmt.Sprintf("when an iterator is exhausted every iterator context of the loop must be destroyed: DCONT range must be [CID, %s], found [%s, %s]", wantHi, lo, hi))
				}
			}
		}
		var want []string
		for i := 0; i < n; i++ {
			want = append(want, linKey("CID", int64(i)))
		}
		if strings.Join(cc, ",") != strings.Join(want, ",") || strings.Join(sc, ",") != strings.Join(want, ",") {
			rep("B8", "context ids", fmt.Sprintf("a loop with %d iterators must create and resume contexts %v; it creates %v and resumes %v", n, want, cc, sc))
		}
		for _, c := range pa.calls {
			if c.field != "For.Body" {
				continue
			}
			wantLo := "CID"
			if pa.key.F.InFor {
				wantLo = "CLO"
			}
			if c.ctx[0] != linKey("CID", int64(n)) || c.ctx[1] != wantLo || c.ctx[2] != linKey("CID", int64(n-1)) {
				rep("B8", "ids handed to the loop body", fmt.Sprintf("the body of a loop with %d iterators must get CtxID = %s (first free id), CtxLo = %s (first id of the outermost loop of the function), CtxHi = %s; it gets %s, %s, %s", n, linKey("CID", int64(n)), wantLo, linKey("CID", int64(n-1)), c.ctx[0], c.ctx[1], c.ctx[2]))
			}
			if !c.fl.InFor {
				rep("B8", "loop body flag", "the loop body is not compiled with InFor: a return inside it would not destroy the iterators")
			}
		}
		for _, c := range pa.calls {
			if c.field == "For.Iterators.Elems" && c.ctx[0] != "0" {
				rep("B8", "iterator context ids", "an iterator expression runs in its own context and must start numbering its loops at 0, it gets "+c.ctx[0])
			}
		}
	}
	if tn == "Return" {
		has := false
		for i, it := range items {
			if opName(i) == "RCONT" {
				has = true
				if lo, hi := keyOr0(it.ins.a[0]), keyOr0(it.ins.a[1]); lo != "CLO" || hi != "CHI" {
					rep("B8", "RCONT range", "a return inside loops must destroy the contexts CtxLo..CtxHi, it destroys "+lo+".."+hi)
				}
				// before the value is computed? no: before RET
				_ = it
			}
		}
		if pa.key.F.InFor && !has {
			rep("B8", "return leaves loops", "a return compiled inside a for loop must emit RCONT to destroy the loop's iterator contexts")
		}
	}
	if tn == "Function" {
		for _, c := range pa.calls {
			if c.field == "Function.Body" && (c.fl.InFor || !c.fl.InFunc || c.fl.ForbidTemp || c.fl.OpPos || !c.fl.Returning) {
				rep("B8", "function body context", "a function body must be compiled as a fresh context: InFunc, Returning, not InFor, ForbidTemp off, operator depth 0; it gets "+c.fl.String())
			}
		}
	}
	// T2m: operator lexeme -> opcode (language operator table)
	if tn == "BinOp" || tn == "UnOp" {
		want := map[string]string{"+": "ADD", "-": "SUB", "*": "MUL", "/": "DIV", "%": "MOD", "&": "AND", "&&": "AND", "|": "OR", "||": "OR",
			"==": "EQ", "!=": "NE", "<": "LT", "<=": "LE", ">": "GT", ">=": "GE", "<<": "LSH", ">>": "RSH"}
		if tn == "UnOp" {
			want = map[string]string{"#": "LEN", "!": "NOT", "~": "FLIP", "-": "MUL"}
		}
		fams := map[string]bool{}
		for _, w := range want {
			fams[w] = true
		}
		got := ""
		for i := range items {
			n := strings.TrimSuffix(opName(i), "TMP")
			if n == "PUSH" {
				continue
			}
			if fams[n] || n == "SUB" || n == "ADD" || n == "DIV" || n == "MOD" || n == "AND" || n == "OR" || n == "EQ" || n == "NE" || n == "LT" || n == "LE" || n == "GT" || n == "GE" || n == "LSH" || n == "RSH" || n == "LEN" || n == "NOT" || n == "FLIP" || n == "MUL" {
				got = n
			}
		}
		if w, ok := want[pa.recvOp]; ok && got != "" && got != w {
			rep("T2m", "operator "+pa.recvOp, fmt.Sprintf("the operator %q must be compiled to %s (or its TMP variant), the compiler emits %s", pa.recvOp, w, got))
		}
		if tn == "UnOp" && pa.recvOp == "-" {
			// unary minus is multiplication by the literal -1: a constant -1 in the data segment
			found := false
			for _, d := range pa.ds {
				if d.ctor == "NewInt" && len(d.args) == 1 && d.args[0] == "-1" {
					found = true
				}
			}
			if !found {
				rep("T2m", "unary minus", "unary minus must multiply by the integer constant -1")
			}
		}
	}
	// B10: typed constants
	for i, it := range items {
		if it.ins == nil {
			continue
		}
		name := opName(i)
		for s := 0; s < 3; s++ {
			k, ok := absint.ConstInt(it.ins.k[s])
			if !ok || it.ins.k[s] == nil {
				continue
			}
			var ix int
			isDS := false
			if sv, ok := it.ins.a[s].(*absint.Sym); ok && sv.Op == "var" {
				if _, err := fmt.Sscanf(sv.Name, "D%d", &ix); err == nil && ix < len(pa.ds) {
					isDS = true
				}
			}
			switch {
			case k == K["AddrGbl"] && isDS && pa.ds[ix].ctor != "NewString":
				rep("B10", "global operand", fmt.Sprintf("a global variable operand must address a string constant (the name), it addresses %s ('unknown global')", pa.ds[ix].ObjString()))
			case k == K["AddrGbl"] && !isDS && it.ins.a[s] != nil && !strings.HasPrefix(keyOr0(it.ins.a[s]), "addr#"):
				rep("B10", "global operand", "a global variable operand does not address a data segment entry: "+keyOr0(it.ins.a[s]))
			case k == K["AddrDS"] && isDS && name == "FUNC" && s == 0 && pa.ds[ix].ctor != "NewFunction":
				rep("B10", "FUNC operand", "FUNC must address a function constant, it addresses "+pa.ds[ix].ObjString())
			case k == K["AddrDS"] && isDS && name == "ARR" && s == 1 && pa.ds[ix].ctor != "NewArray":
				rep("B10", "ARR operand", "the array operand of ARR must address an array constant, it addresses "+pa.ds[ix].ObjString())
			}
		}
		if name == "FUNC" {
			if k, ok := absint.ConstInt(it.ins.k[0]); !ok || k != K["AddrDS"] {
				rep("B10", "FUNC operand", "FUNC must take its function constant from the data segment")
			}
		}
	}
	// Function: entry point and counts of the function constant
	if tn == "Function" {
		for _, d := range pa.ds {
			if d.ctor != "NewFunction" || len(d.args) != 4 {
				continue
			}
			var ix int
			if _, err := fmt.Sscanf(d.args[0], "L%d", &ix); err != nil || ix != 1 {
				rep("B10", "function entry point", "the function constant's entry point must be the first instruction after the jump over the body, it is "+d.args[0])
			}
			if d.args[2] != fmt.Sprint(pa.lens["Function.Parameters"]) {
				rep("B10", "function parameter count", "the function constant's parameter count is "+d.args[2]+", the literal has "+fmt.Sprint(pa.lens["Function.Parameters"]))
			}
			if d.args[3] != "Function.LocalCnt" {
				rep("B10", "function local count", "the function constant's local count is "+d.args[3]+", not the node's LocalCnt")
			}
		}
	}
}

func linKey(v string, c int64) string {
	if c == 0 {
		return v
	}
	return fmt.Sprintf("(%s%+d)", v, c)
}

// normLin removes the parentheses of a one-term linear form.
func normLin(s string) string {
	if len(s) > 2 && s[0] == '(' && s[len(s)-1] == ')' && !strings.ContainsAny(s[1:len(s)-1], "+-*(") {
		return s[1 : len(s)-1]
	}
	return s
}

// incShortcut (B11): the only assignment that may be compiled without
// evaluating its right-hand side is the increment of the assigned variable by
// the integer literal 1: the path must have established that the value is a
// "+", that one operand is the Int literal 1 and that the other operand is the
// same tree as the target, and the INC must operate on the target.
func (e *eng) incShortcut(pa *pathRec, opName func(int) string, rep func(rule, what, detail string)) {
	if os.Getenv("CALCSA_DUMP_FACTS") != "" {
		fmt.Printf("== Assign path %s: calls=%v facts=%v\n", pa.key, func() (o []string) {
			for _, c := range pa.calls {
				o = append(o, c.field)
			}
			return
		}(), pa.facts)
	}
	for _, c := range pa.calls {
		if c.field == "Assign.Value" {
			return
		}
	}
	has := func(f string) bool {
		for _, x := range pa.facts {
			if x == f {
				return true
			}
		}
		return false
	}
	var why []string
	if !has("type Assign.Value=BinOp") || !has("op Assign.Value=+") {
		why = append(why, "the value is not known to be an addition")
	}
	one := func(side string) bool {
		if !has("type BinOp." + side + "=Int") {
			return false
		}
		for _, x := range pa.facts {
			if x == "cond ==(BinOp."+side+":Int.value,1)=true" {
				return true
			}
		}
		return false
	}
	same := func(side string) bool { return has("same Assign.VarRef,BinOp." + side + "=true") }
	if !(one("Right") && same("Left")) && !(one("Left") && same("Right")) {
		why = append(why, "it is not established that one operand is the integer literal 1 and the other operand is the very variable reference that is assigned (same resolved node: same kind of variable, same slot)")
	}
	n := 0
	for i, c := range pa.calls {
		if c.field != "Assign.VarRef" {
			why = append(why, "the shortcut compiles "+c.field+" instead of the assignment target")
			continue
		}
		n++
		j := c.item + 1
		if opName(j) != "INC" {
			why = append(why, fmt.Sprintf("the target's code is followed by %q, not INC", opName(j)))
		} else if ck, _ := absint.ConstInt(pa.items[j].ins.k[0]); ck != pa.items[c.item].child.Kind {
			why = append(why, "INC does not operate on the operand the target was compiled to")
		}
		_ = i
	}
	if n != 1 {
		why = append(why, fmt.Sprintf("the target is compiled %d times", n))
	}
	if len(why) > 0 {
		rep("B11", "value of an assignment is computed", "the assignment is compiled without evaluating its right-hand side; that is only the same as evaluating it when the statement is v = v + 1 or v = 1 + v for the same variable v and the integer literal 1 (INC v): "+strings.Join(why, "; ")+fmt.Sprintf(" [facts on this path: %s]", strings.Join(pa.facts, "; ")))
	}
}
