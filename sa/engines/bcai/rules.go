package bcai

import (
	"fmt"
	"os"
	"sort"
	"strings"

	"calcsa/absint"
)

type analysis struct {
	ft      bool
	clobber bool
	empty   bool
	exitH   int
	probs   []problem
}

type problem struct {
	rule, what, detail string
	item               int
}

// opInfo is the effect of one opcode, from the VM model.
type opInfo struct {
	name  string
	fetch []int
	push  int
	pop   int // pops that are not operand fetches
}

func (e *eng) opInfo(opv int64) (opInfo, bool) {
	oi, ok := e.opInfos[opv]
	return oi, ok
}

func (e *eng) computeOpInfo(opv int64) (opInfo, bool) {
	name, ok := e.opNm[opv]
	if !ok {
		return opInfo{}, false
	}
	oi := opInfo{name: name}
	seen := map[int]bool{}
	for _, pa := range e.vm.Paths[name] {
		for _, ev := range pa.Events {
			if ev.Kind == "fetch" && len(ev.Args) > 0 && len(ev.Args[0]) == 2 && ev.Args[0][0] == 'K' {
				sl := int(ev.Args[0][1] - '0')
				if !seen[sl] {
					seen[sl] = true
					oi.fetch = append(oi.fetch, sl)
				}
			}
		}
	}
	sort.Ints(oi.fetch)
	for _, pa := range e.vm.Paths[name] {
		if pa.End != "next" || pa.Conds[0] != "ctxp.parent == nil" {
			continue
		}
		push, pop := 0, 0
		for _, ev := range pa.Events {
			if ev.Kind == "call" && strings.HasSuffix(ev.Fn, "memory.Type).Push") && ev.Args[0] == "M" {
				push++
			}
			if ev.Kind == "call" && strings.HasSuffix(ev.Fn, "memory.Type).Pop") && ev.Args[0] == "M" {
				pop++
			}
		}
		oi.push, oi.pop = push, pop
		break
	}
	return oi, true
}

func (e *eng) kname(k int64) string {
	if n, ok := e.addrNm[k]; ok {
		return strings.TrimPrefix(n, "Addr")
	}
	return fmt.Sprint(k)
}

type simState struct {
	h   int
	tmp bool
}

// analyse simulates the emitted items: stack height, tmp validity, reachability.
// optimistic: a child that may or may not fall through is assumed to fall through.
func (e *eng) analyse(pa *pathRec, rep func(problem), optimistic bool) analysis {
	an := analysis{empty: true}
	report := func(rule, what, detail string, i int) {
		if rep != nil {
			rep(problem{rule, what, detail, i})
		}
	}
	items := pa.items
	n := len(items)
	K := e.addrK
	fetchable := map[int64]bool{K["AddrStck"]: true, K["AddrDS"]: true, K["AddrCls"]: true, K["AddrLcl"]: true, K["AddrGbl"]: true}
	kind := func(iv *instrV, s int) (int64, bool) {
		if iv.k[s] == nil {
			return 0, true
		}
		return absint.ConstInt(iv.k[s])
	}
	// jump target of an item: label difference or small constant
	target := func(i int, slot int) (int, string) {
		iv := items[i].ins
		a := iv.a[slot]
		if a == nil {
			return -1, "never patched (offset 0)"
		}
		if c, ok := absint.ConstInt(a); ok {
			if c == 0 {
				return -1, "never patched (offset 0)"
			}
			t := i + int(c)
			if t < 0 || t > n {
				return -1, fmt.Sprintf("constant offset %d leaves the node's own code", c)
			}
			lo, hi := i, t
			if lo > hi {
				lo, hi = hi, lo
			}
			for j := lo; j < hi; j++ {
				if j != i && items[j].child != nil && !items[j].child.allEmpty() {
					return -1, fmt.Sprintf("constant offset %d jumps across the code of a child, whose size is unknown", c)
				}
			}
			return t, ""
		}
		sv, ok := a.(*absint.Sym)
		if !ok || sv.Op != "lin" || sv.C != 0 || len(sv.Terms) != 2 {
			return -1, "offset " + absint.Key(a) + " is not a difference of two code positions"
		}
		from, to := -1, -1
		for k, c := range sv.Terms {
			var ix int
			if _, err := fmt.Sscanf(k, "L%d", &ix); err != nil {
				return -1, "offset " + absint.Key(a) + " is not a difference of two code positions"
			}
			if c == 1 {
				to = ix
			} else if c == -1 {
				from = ix
			}
		}
		if from != i || to < 0 || to > n {
			return -1, fmt.Sprintf("offset %s is not relative to the jump's own position (item %d)", absint.Key(a), i)
		}
		return to, ""
	}
	// DCONT following each CCONT (end of the iterator region)
	dcontAfter := func(i int) int {
		for j := i + 1; j < n; j++ {
			if items[j].ins != nil {
				if op, ok := absint.ConstInt(items[j].ins.op); ok && e.opNm[op] == "DCONT" {
					return j
				}
			}
		}
		return -1
	}
	ccontByID := map[string]int{}
	for i, it := range items {
		if it.ins != nil {
			if op, ok := absint.ConstInt(it.ins.op); ok && e.opNm[op] == "CCONT" {
				ccontByID[keyOr0(it.ins.a[1])] = i
			}
		}
	}
	states := make([]*simState, n+1)
	childThread := make([]bool, n+1)
	type work struct {
		i     int
		st    simState
		child bool
	}
	var queue []work
	push := func(i int, st simState, child bool) {
		if i < 0 || i > n {
			return
		}
		if states[i] == nil {
			s := st
			states[i] = &s
			childThread[i] = child
			queue = append(queue, work{i, st, child})
			return
		}
		if states[i].h != st.h && !child && !childThread[i] {
			report("B2", "stack height at a join", fmt.Sprintf("item %d is reached with operand stack height %d and %d (relative to the node's entry): the code is not stack neutral", i, states[i].h, st.h), i)
		}
		if states[i].tmp && !st.tmp {
			states[i].tmp = false
			queue = append(queue, work{i, *states[i], child})
		}
	}
	push(0, simState{0, false}, false)
	for len(queue) > 0 {
		w := queue[0]
		queue = queue[1:]
		i, st := w.i, *states[w.i]
		if i == n {
			continue
		}
		it := items[i]
		if it.child != nil {
			c := it.child
			if !c.allEmpty() {
				an.empty = false
			}
			if c.Kind == K["AddrStck"] {
				st.h++
			}
			if c.Kind == K["AddrTmp"] {
				st.tmp = true
				an.clobber = true
			} else if c.mayClobber() {
				st.tmp = false
				an.clobber = true
			}
			if c.mustFT() || (optimistic && c.mayFT()) {
				push(i+1, st, w.child)
			}
			continue
		}
		iv := it.ins
		an.empty = false
		if iv.confl != "" {
			report("B3", "instruction fields", "two non-zero values are OR-ed into the same instruction field ("+iv.confl+"): a jump is patched twice or a descriptor carries stray fields", i)
		}
		opv, ok := absint.ConstInt(iv.op)
		if !ok {
			report("B1", "opcode", "the opcode of an emitted instruction is not a constant: "+keyOr0(iv.op), i)
			continue
		}
		oi, known := e.opInfo(opv)
		if !known || !e.vm.Handled[opv] {
			report("T1", "emitted opcode has a handler", fmt.Sprintf("the compiler emits opcode %d (%s) for which the VM has no case clause", opv, oi.name), i)
			continue
		}
		name := oi.name
		// operand kinds the handler fetches
		srcTmpOK := name == "MOV"
		for _, sl := range oi.fetch {
			k, ok := kind(iv, sl)
			if !ok {
				report("B1", "operand kind", fmt.Sprintf("%s operand %d has a non-constant kind %s", name, sl, keyOr0(iv.k[sl])), i)
				continue
			}
			switch {
			case fetchable[k]:
				if k == K["AddrStck"] {
					st.h--
				}
			case srcTmpOK && sl == 0 && k == K["AddrTmp"]:
				if !st.tmp {
					report("B9", "tmp read", "MOV reads tmp where it may have been overwritten since it was set", i)
				}
			default:
				report("B1", "operand kind", fmt.Sprintf("%s fetches operand %d but its kind is %s, which the VM's fetch rejects ('unknown source'): the interpreter aborts", name, sl, e.kname(k)), i)
			}
		}
		if st.h < 0 {
			report("B2", "stack underflow", fmt.Sprintf("%s pops below the operand stack height the node was entered with", name), i)
		}
		base := strings.TrimSuffix(name, "TMP")
		isTmpOp := base != name
		switch {
		case name == "PUSHTMP":
			if !st.tmp {
				report("B9", "tmp read", "PUSHTMP reads tmp where it may have been overwritten (by a call, a yield or another expression) since it was set", i)
			}
			st.h++
		case isTmpOp:
			if !st.tmp {
				report("B9", "tmp read", name+" reads tmp where it may have been overwritten since it was set", i)
			}
			st.tmp = true
			an.clobber = true
		}
		switch name {
		case "MOV":
			d, ok := kind(iv, 1)
			switch {
			case !ok:
				report("B1", "destination kind", "MOV destination kind is not constant", i)
			case d == K["AddrTmp"]:
				st.tmp = true
				an.clobber = true
			case d == K["AddrLcl"] || d == K["AddrGbl"]:
			default:
				report("B1", "destination kind", "MOV destination kind is "+e.kname(d)+", the VM accepts Lcl, Gbl and Tmp only ('unexpected dst in MOV')", i)
			}
			push(i+1, st, w.child)
		case "INC":
			d, ok := kind(iv, 0)
			if !ok || (d != K["AddrLcl"] && d != K["AddrGbl"]) {
				report("B1", "destination kind", "INC operand kind is "+e.kname(d)+", the VM accepts Lcl and Gbl only ('unexpected dst in INC')", i)
			}
			push(i+1, st, w.child)
		case "POP":
			st.h -= oi.pop
			if st.h < 0 {
				report("B2", "stack underflow", "POP pops below the operand stack height the node was entered with", i)
			}
			push(i+1, st, w.child)
		case "JMP":
			t, msg := target(i, 0)
			if msg != "" {
				report("B3", "jump target", "JMP: "+msg, i)
				continue
			}
			push(t, st, w.child)
		case "JMPF", "JMPT":
			t, msg := target(i, 1)
			if msg != "" {
				report("B3", "jump target", name+": "+msg, i)
				continue
			}
			push(i+1, st, w.child)
			push(t, st, w.child)
		case "RET", "EXIT":
			// control leaves the node's code
		case "CALL":
			args, ok := absint.ConstInt(iv.a[1])
			if !ok {
				report("B2", "call arguments", "CALL argument count is not constant: "+keyOr0(iv.a[1]), i)
				continue
			}
			st.h -= int(args)
			if st.h < 0 {
				report("B2", "stack underflow", "CALL consumes more arguments than were pushed", i)
			}
			st.h++
			st.tmp = false
			an.clobber = true
			push(i+1, st, w.child)
		case "YIELD":
			if c, ok := absint.ConstInt(iv.a[1]); ok && c != 0 {
				st.h++
			}
			st.tmp = false
			an.clobber = true
			push(i+1, st, w.child)
		case "CCONT":
			t, msg := target(i, 0)
			if msg != "" {
				report("B3", "jump target", "CCONT: "+msg, i)
				continue
			}
			d := dcontAfter(i)
			if d < 0 {
				report("B8", "iterator region", "CCONT without a DCONT ending the iterator's code", i)
				continue
			}
			st.tmp = false
			an.clobber = true
			// the forked context runs the iterator expression on its own stack
			push(i+1, simState{0, false}, true)
			// the loop continues at the target with the first yielded value ...
			push(t, simState{st.h + 1, false}, w.child)
			// ... or after the DCONT when the iterator ends without yielding
			push(d+1, simState{st.h, false}, w.child)
		case "SCONT":
			id := keyOr0(iv.a[0])
			c, ok := ccontByID[id]
			if !ok {
				report("B8", "context ids", "SCONT resumes context "+id+" which no CCONT of this loop creates ('context not found')", i)
				continue
			}
			d := dcontAfter(c)
			st.tmp = false
			an.clobber = true
			push(i+1, simState{st.h + 1, false}, w.child)
			if d >= 0 {
				push(d+1, simState{st.h, false}, w.child)
			}
		case "DCONT":
			if !w.child {
				report("B8", "iterator region", "DCONT is reachable from the loop's own context", i)
			}
			// the forked context ends here
		default:
			st.h += oi.push
			if name != "PUSHTMP" {
				// PUSHTMP counted above
			} else {
				st.h -= oi.push
			}
			push(i+1, st, w.child)
		}
	}
	if states[n] != nil {
		an.ft = true
		an.exitH = states[n].h
		kind, kok := int64(0), true
		if pa.ret != nil && pa.ret.k[pa.key.Sel] != nil {
			kind, kok = absint.ConstInt(pa.ret.k[pa.key.Sel])
		}
		if kok {
			want := 0
			if kind == K["AddrStck"] {
				want = 1
			}
			if pa.key.Type == rootPush {
				want = 1
			}
			if states[n].h != want {
				report("B2", "stack neutrality", fmt.Sprintf("the node's code falls through with %d value(s) on the operand stack but its result descriptor is %s (%d expected): values are leaked or consumed", states[n].h, e.kname(kind), want), n)
			}
			if kind == K["AddrTmp"] && !states[n].tmp && !pa.key.F.Discard {
				report("B4", "result in tmp", "the node answers Tmp but tmp is not known to hold its result at the end of its code", n)
			}
		}
		// B12: the value of a yield expression is the value that was yielded.
		// Between the yield and the resume the consuming loop's body runs, and it
		// may assign the global or the shared closure variable the operand was
		// read from: a descriptor that sends the user of the value back to the
		// operand's own location reads it again after the resume. The value has
		// to be kept where the body cannot reach it (the generator's own stack).
		if pa.key.Type == "Yield" && !pa.key.F.Discard {
			if !kok {
				report("B12", "value of a yield expression", "the yield answers with its operand's own descriptor: whoever uses the value reads the operand's location again after the generator has been resumed, and the loop body may have assigned that variable in between (a global, a closure variable shared with the running definer)", n)
			} else if kind == K["AddrGbl"] || kind == K["AddrCls"] {
				// constants, immediates and the generator's own locals cannot be
				// written by the loop body; globals and captured variables can
				report("B12", "value of a yield expression", "the yield answers "+e.kname(kind)+": whoever uses the value reads that variable again after the generator has been resumed, and the loop body may have assigned it in between", n)
			}
		}
	}
	return an
}

// expected order and operand slots of the children of each node type
// (VM operand protocol: "ADD pushes src1+src0", "IX2 pushes src2[src1:src0]",
// arguments pushed in order then the callee; strict left to right evaluation).
var childOrder = map[string][]struct {
	field string
	sel   int
}{
	"BinOp":       {{"BinOp.Left", 1}, {"BinOp.Right", 0}},
	"IndexAt":     {{"IndexAt.Ary", 1}, {"IndexAt.At", 0}},
	"IndexFromTo": {{"IndexFromTo.Ary", 2}, {"IndexFromTo.From", 1}, {"IndexFromTo.To", 0}},
	"Assign":      {{"Assign.Value", 0}, {"Assign.VarRef", 1}},
	"Call":        {{"Call.Arguments.Elems", 0}, {"Call.Name", 0}},
}

func (e *eng) describe(pa *pathRec) []string {
	var out []string
	out = append(out, "context: "+pa.key.String())
	if len(pa.trace) > 0 {
		out = append(out, "choices: "+strings.Join(pa.trace, "; "))
	}
	for i, it := range pa.items {
		switch {
		case it.child != nil:
			c := it.child
			out = append(out, fmt.Sprintf("%3d: <code of %s (e.g. %s), compiled for operand %d> -> %s%s%s", i, it.cref.field, it.ctype, it.csel, e.kname(c.Kind),
				map[bool]string{true: "", false: " (never falls through)"}[c.mayFT()], map[bool]string{true: " (may overwrite tmp)", false: ""}[c.mayClobber()]))
		case it.ins != nil:
			out = append(out, fmt.Sprintf("%3d: %s", i, e.instrString(it.ins)))
		}
	}
	if pa.ret != nil {
		out = append(out, "result descriptor: "+e.instrString(pa.ret))
	}
	return out
}

func (e *eng) instrString(iv *instrV) string {
	name := keyOr0(iv.op)
	if c, ok := absint.ConstInt(iv.op); ok {
		if n, ok := e.opNm[c]; ok {
			name = n
		}
	}
	var ps []string
	for s := 2; s >= 0; s-- {
		if iv.k[s] == nil && iv.a[s] == nil {
			continue
		}
		kn := keyOr0(iv.k[s])
		if c, ok := absint.ConstInt(iv.k[s]); ok {
			kn = e.kname(c)
		}
		ps = append(ps, fmt.Sprintf("src%d=%s[%s]", s, kn, keyOr0(iv.a[s])))
	}
	return name + " " + strings.Join(ps, " ")
}

func (e *eng) check() {
	var keys []key
	for k := range e.paths {
		keys = append(keys, k)
	}
	sort.Slice(keys, func(i, j int) bool { return keys[i].String() < keys[j].String() })
	posOf := func(k key) string {
		if fn, ok := e.bcFn[k.Type]; ok {
			return e.p.Pos(fn.Pos())
		}
		n := "ByteCode"
		if k.Type == rootNoPush {
			n = "ByteCodeNoStck"
		}
		if fn := e.nodeSp.Func(n); fn != nil {
			return e.p.Pos(fn.Pos())
		}
		return "types/node/bytecoder.go"
	}
	reported := map[string]bool{}
	perMethod := map[string]map[string]int{} // method -> rule -> count of clean (key, path)
	for _, k := range keys {
		okKey := true
		if len(e.sums[k]) == 0 {
			allPending := true
			for _, pa := range e.paths[k] {
				if pa.end != "pending" {
					allPending = false
				}
			}
			_ = allPending
		}
		for _, pa := range e.paths[k] {
			method := "node." + k.Type + ".byteCode"
			if strings.HasPrefix(k.Type, "<") {
				method = "node." + strings.Trim(k.Type, "<>")
			}
			switch {
			case pa.end == "pending":
				continue
			case strings.HasPrefix(pa.end, "panic"), strings.HasPrefix(pa.end, "undecided: abort"):
				id := "B0|" + method + "|" + pa.end
				if !reported[id] {
					reported[id] = true
					e.s.Bad("B0", method+" / aborts: "+strings.TrimPrefix(strings.TrimPrefix(pa.end, "panic: "), "undecided: "), e.p.Pos(pa.endPos), "compiling an accepted program can abort the compiler: "+pa.end, e.describe(pa)...)
				}
				okKey = false
				continue
			case pa.end != "return":
				id := "B0u|" + method + "|" + pa.end
				if !reported[id] {
					reported[id] = true
					e.s.Unk("B0", method+" / path", e.p.Pos(pa.endPos), "a compile path could not be evaluated: "+pa.end, e.describe(pa)...)
				}
				okKey = false
				continue
			}
			if pa.trunc {
				id := "B3r|" + method
				if !reported[id] {
					reported[id] = true
					e.s.Bad("B3", method+" / code is only appended", posOf(k), "the method removes instructions it (or a child) already emitted from the code segment: addresses handed out before and the operands' own code stay behind", e.describe(pa)...)
				}
			}
			if perMethod[method] == nil {
				perMethod[method] = map[string]int{}
			}
			dirty := map[string]bool{}
			e.analyse(pa, func(pr problem) {
				dirty[pr.rule] = true
				id := pr.rule + "|" + method + "|" + pr.what + "|" + pr.detail
				if reported[id] {
					return
				}
				reported[id] = true
				pos := posOf(k)
				if pr.item >= 0 && pr.item < len(pa.items) && pa.items[pr.item].pos.IsValid() {
					pos = e.p.Pos(pa.items[pr.item].pos)
				}
				w := e.describe(pa)
				w = append([]string{fmt.Sprintf("at item %d", pr.item)}, w...)
				e.s.Bad(pr.rule, method+" / "+pr.what, pos, pr.detail, w...)
			}, true)
			e.extra(pa, method, posOf(k), func(rule, what, detail string) {
				dirty[rule] = true
				id := rule + "|" + method + "|" + what + "|" + detail
				if reported[id] {
					return
				}
				reported[id] = true
				e.s.Bad(rule, method+" / "+what, posOf(k), detail, e.describe(pa)...)
			})
			for _, r := range []string{"B1", "B2", "B3", "B4", "B5", "B6", "B7", "B8", "B9", "B10", "B11", "B12", "T1", "T2m"} {
				if !dirty[r] {
					perMethod[method][r]++
				}
			}
		}
		_ = okKey
	}
	// requested contexts without any outcome
	for _, k := range keys {
		if len(e.sums[k]) == 0 && !strings.HasPrefix(k.Type, "<") {
			anyReturn := false
			for _, pa := range e.paths[k] {
				if pa.end == "return" {
					anyReturn = true
				}
			}
			if !anyReturn {
				e.s.Unk("B0", "node."+k.Type+".byteCode / context "+k.F.String()+" has no outcome", posOf(k), "the context is requested by a parent but no compile path of the node completes in it (all paths wait for children without outcome)")
			}
		}
	}
	var methods []string
	for m := range perMethod {
		methods = append(methods, m)
	}
	sort.Strings(methods)
	ruleText := map[string]string{
		"B1": "every emitted instruction has operand kinds its VM handler accepts", "B2": "the code is stack neutral except for the announced result",
		"B3": "jumps are patched exactly once into the node's own code; code is only appended", "B4": "the result descriptor tells where the value is",
		"B5": "children are compiled in source order into the operand slots the VM reads them from", "B6": "conditions are tested by a conditional jump of the right polarity", "B11": "the value of an assignment is computed, except for the increment of the assigned variable by the literal 1",
		"B7": "debug info is keyed by the address of the CALL", "B8": "iterator context ids are created, resumed and destroyed consistently",
		"B12": "the value of a yield expression is kept where the loop body cannot change it",
		"B9": "tmp is read only while it still holds the value it was given", "B10": "operands address constants of the right type", "T1": "every emitted opcode has a VM handler", "T2m": "every operator lexeme is compiled to the opcode of the same name",
	}
	for _, m := range methods {
		for _, r := range []string{"B1", "B2", "B3", "B4", "B5", "B6", "B7", "B8", "B9", "B10", "B11", "B12", "T1", "T2m"} {
			if r == "T2m" && !strings.Contains(m, "BinOp") && !strings.Contains(m, "UnOp") {
				continue
			}
			if r == "B12" && !strings.Contains(m, "Yield") {
				continue
			}
			bad := false
			for id := range reported {
				if strings.HasPrefix(id, r+"|"+m+"|") {
					bad = true
				}
			}
			if !bad && perMethod[m][r] > 0 {
				pos := "types/node/bytecoder.go"
				tn := strings.TrimSuffix(strings.TrimPrefix(m, "node."), ".byteCode")
				if fn, ok := e.bcFn[tn]; ok {
					pos = e.p.Pos(fn.Pos())
				}
				e.s.OK(r, m+" / "+ruleText[r], pos, fmt.Sprintf("holds on all %d (context, path) pairs explored", perMethod[m][r]))
			}
		}
	}
	if os.Getenv("CALCSA_BCAI_STATS") != "" {
		cnt := map[string]int{}
		kc := map[string]int{}
		for k, ps := range e.paths {
			cnt[k.Type] += len(ps)
			kc[k.Type]++
		}
		for t, n := range cnt {
			fmt.Printf("stats %-14s keys %4d paths(last run) %8d\n", t, kc[t], n)
		}
	}
	e.s.Note("compiler explored: %d summary keys (node type x flag context x operand slot), %d runs to the fixpoint, %d paths; child lists: array literals 0-%d elements, arguments / parameters 0-%d, blocks 2-%d statements, loops with 1-%d iterators", len(e.sums), e.nruns, e.npaths, 3+e.deep, 2+e.deep, 3+e.deep, 2+e.deep)
}
