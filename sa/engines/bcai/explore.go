package bcai

import (
	"fmt"
	"go/token"
	"go/types"
	"runtime"
	"sort"
	"strings"
	"sync"

	"calcsa/absint"
	"calcsa/engines/grammar"
	"calcsa/engines/vmshape"
	"calcsa/load"
	"calcsa/oblig"

	"golang.org/x/tools/go/ssa"
)

type childCall struct {
	ref   *nodeRef
	field string
	sel   int
	typ   string
	fl    flags
	ctx   [3]string // CtxID, CtxLo, CtxHi passed
	item  int       // index of the child item
}

// pathRec is one explored path of one key.
type pathRec struct {
	key    key
	trace  []string
	items  []*item
	ret    *instrV
	ds     []*dsEntry
	calls  []childCall
	hc     bool
	end    string // "return", "panic: ...", "undecided: ...", "pending"
	endPos token.Pos
	trunc  bool
	recvOp string
	lens   map[string]int
	facts  []string // what the path learned about the tree: "type <field>=<T>", "op <field>=<op>", "same <a>,<b>=<bool>", "cond <key>=<bool>"
}

type eng struct {
	deep        int // extra elements in child lists (thorough tier)
	nodeGlobals map[*ssa.Global]*absint.Cell
	p           *load.Program
	s           *oblig.Set
	vm          *vmshape.Model
	nodeSp      *ssa.Package
	bcSp        *ssa.Package
	nodeI       *types.Interface
	nodeT       types.Type
	listT       types.Type
	impls       map[string]types.Type
	bcFn        map[string]*ssa.Function
	hcFn        map[string]*ssa.Function
	classes     map[string][]string
	ops         map[string][]string
	roots       []string
	sums        map[key]map[string]childOut
	deps        map[key]map[key]bool
	queued      map[key]bool
	queue       []key
	paths       map[key][]*pathRec
	addrK       map[string]int64
	addrNm      map[int64]string
	opNm        map[int64]string
	opVal       map[string]int64
	passT       types.Type
	dataT       types.Type
	crT         types.Type
	instrT      types.Type
	nruns       int
	npaths      int
	final       bool
	opInfos     map[int64]opInfo
}

const (
	rootPush   = "<ByteCode>"
	rootNoPush = "<ByteCodeNoStck>"
)

func Run(p *load.Program, tier string) *oblig.Set {
	s := oblig.NewSet()
	e := &eng{p: p, s: s, sums: map[key]map[string]childOut{}, deps: map[key]map[key]bool{}, queued: map[key]bool{}, paths: map[key][]*pathRec{}}
	if tier == "thorough" {
		// one more element in every child list: array literals 0-4, arguments
		// and parameters 0-3, blocks 2-4 statements, loops with 1-3 iterators
		e.deep = 1
	}
	if !e.anchors() {
		return s
	}
	if g, end := absint.InitGlobals(p.SSA, e.nodeSp); end == nil {
		e.nodeGlobals = g
	}
	e.fixpoint()
	e.final = true
	e.check()
	return s
}

func (e *eng) anchors() bool {
	p, s := e.p, e.s
	e.vm, _ = vmshape.Shared(p)
	if e.vm == nil {
		s.Unk("ANCHOR", "vm model", "-", "not available")
		return false
	}
	e.nodeSp = p.SPkg("types/node")
	e.bcSp = p.SPkg("types/bytecode")
	if e.nodeSp == nil || e.bcSp == nil {
		s.Unk("ANCHOR", "packages node / bytecode", "-", "not found")
		return false
	}
	sc := e.nodeSp.Pkg.Scope()
	e.nodeT = sc.Lookup("Type").Type()
	e.nodeI = e.nodeT.Underlying().(*types.Interface)
	e.listT = sc.Lookup("List").Type()
	bcI, ok := sc.Lookup("ByteCoder").Type().Underlying().(*types.Interface)
	if !ok || bcI.NumMethods() != 1 {
		s.Unk("ANCHOR", "node.ByteCoder", "-", "interface with one method expected")
		return false
	}
	bcM := bcI.Method(0)
	sig := bcM.Type().(*types.Signature)
	e.passT = sig.Params().At(1).Type()
	e.crT = sig.Params().At(2).Type()
	e.instrT = sig.Results().At(0).Type()
	pst, ok := e.passT.Underlying().(*types.Struct)
	if !ok || pst.NumFields() != 1 {
		s.Unk("ANCHOR", "bc.Pass", "-", "struct with one field expected")
		return false
	}
	e.dataT = pst.Field(0).Type()
	hcI := sc.Lookup("HasCaller").Type().Underlying().(*types.Interface)
	e.impls = map[string]types.Type{}
	e.bcFn = map[string]*ssa.Function{}
	e.hcFn = map[string]*ssa.Function{}
	for _, n := range sc.Names() {
		tn, ok := sc.Lookup(n).(*types.TypeName)
		if !ok || types.IsInterface(tn.Type()) || !types.Implements(tn.Type(), e.nodeI) {
			continue
		}
		e.impls[n] = tn.Type()
		ms := p.SSA.MethodSets.MethodSet(tn.Type())
		if sel := ms.Lookup(bcM.Pkg(), bcM.Name()); sel != nil {
			e.bcFn[n] = p.SSA.FuncValue(sel.Obj().(*types.Func))
		}
		if sel := ms.Lookup(hcI.Method(0).Pkg(), hcI.Method(0).Name()); sel != nil {
			e.hcFn[n] = p.SSA.FuncValue(sel.Obj().(*types.Func))
		}
		if e.bcFn[n] == nil || e.hcFn[n] == nil {
			s.Unk("ANCHOR", "node."+n+" methods", "-", "byteCode / HasCall not found")
			return false
		}
	}
	if len(e.impls) < 25 {
		s.Unk("ANCHOR", "node types", "-", fmt.Sprintf("only %d node types", len(e.impls)))
		return false
	}
	e.addrK, e.addrNm = e.vm.AddrK, e.vm.AddrName
	e.opNm, e.opVal = e.vm.OpName, e.vm.OpConsts
	// class table from the grammar, adjusted for the symbol table rewrite and the builtin trees
	cl := grammar.SharedClasses()
	if cl == nil {
		gs := grammar.Run(p, "quick")
		_ = gs
		cl = grammar.SharedClasses()
	}
	if cl == nil || !cl.Ok {
		s.Unk("ANCHOR", "class table", "-", "the grammar engine did not produce a class table")
		return false
	}
	e.classes = map[string][]string{}
	for f, ts := range cl.Field {
		set := map[string]bool{}
		for t := range ts {
			set[t] = true
		}
		switch {
		case f == "Assign.VarRef" || f == "For.VarRefs.Elems":
			// S3: the function's own slot inside a function, the name at global scope
			set = map[string]bool{"Name": true, "Local": true}
		case f == "Function.Parameters.Elems":
			set = map[string]bool{"Local": true}
		default:
			if set["Name"] {
				// S2: a read resolves to Local, Closure or stays a global Name
				set["Local"], set["Closure"] = true, true
			}
		}
		if f == "Function.Body" {
			for _, b := range []string{"Read", "Write", "Aton", "Toa", "Exit"} {
				if _, ok := e.impls[b]; ok {
					set[b] = true
				}
			}
		}
		e.classes[f] = keysOf(set)
	}
	for _, b := range []string{"Write", "Aton", "Toa", "Exit"} {
		e.classes[b+".Value"] = []string{"Local"}
	}
	e.ops = map[string][]string{}
	for t, os := range cl.Ops {
		e.ops[t] = keysOf(os)
	}
	// ":" is not an operator of BinOp nodes that reach the compiler (mkIndex consumes it)
	var bops []string
	for _, o := range e.ops["BinOp"] {
		if o != ":" {
			bops = append(bops, o)
		}
	}
	e.ops["BinOp"] = bops
	rs := map[string]bool{}
	for t := range cl.Def["block"] {
		rs[t] = true
	}
	if rs["Name"] {
		rs["Local"], rs["Closure"] = true, true
	}
	e.roots = keysOf(rs)
	if len(e.roots) < 15 || len(e.ops["BinOp"]) < 15 || len(e.ops["UnOp"]) < 4 {
		s.Unk("ANCHOR", "class table", "-", fmt.Sprintf("implausibly small class table: %d root types, %d binary, %d unary operators", len(e.roots), len(e.ops["BinOp"]), len(e.ops["UnOp"])))
		return false
	}
	return true
}

func keysOf(m map[string]bool) []string {
	var out []string
	for k := range m {
		out = append(out, k)
	}
	sort.Strings(out)
	return out
}

func (e *eng) enqueue(k key) {
	if !e.queued[k] {
		e.queued[k] = true
		e.queue = append(e.queue, k)
	}
}

type runResult struct {
	k     key
	paths []*pathRec
	reqs  map[key]bool
	outs  []childOut
}

func (e *eng) fixpoint() {
	e.opInfos = map[int64]opInfo{}
	for v := range e.opNm {
		if oi, ok := e.computeOpInfo(v); ok {
			e.opInfos[v] = oi
		}
	}
	for _, r := range []string{rootPush, rootNoPush} {
		k := key{Type: r}
		e.sums[k] = map[string]childOut{}
		e.enqueue(k)
	}
	workers := runtime.GOMAXPROCS(0)
	if workers > 16 {
		workers = 16
	}
	for len(e.queue) > 0 && e.nruns < 60000*(1+9*e.deep) {
		batch := e.queue
		e.queue = nil
		for _, k := range batch {
			e.queued[k] = false
		}
		results := make([]*runResult, len(batch))
		var wg sync.WaitGroup
		sem := make(chan struct{}, workers)
		for i, k := range batch {
			wg.Add(1)
			sem <- struct{}{}
			go func(i int, k key) {
				defer wg.Done()
				defer func() { <-sem }()
				res := &runResult{k: k, reqs: map[key]bool{}}
				defer func() {
					if r := recover(); r != nil {
						res.paths = append(res.paths, &pathRec{key: k, end: fmt.Sprintf("undecided: analyser panic: %v", r)})
					}
					results[i] = res
				}()
				res.paths = e.runKey(k, res.reqs)
				for _, pa := range res.paths {
					if pa.end != "return" {
						continue
					}
					res.outs = append(res.outs, e.outcomes(pa)...)
				}
			}(i, k)
		}
		wg.Wait()
		for _, res := range results {
			e.nruns++
			e.npaths += len(res.paths)
			k := res.k
			e.paths[k] = res.paths
			for rk := range res.reqs {
				if e.deps[rk] == nil {
					e.deps[rk] = map[key]bool{}
				}
				e.deps[rk][k] = true
				if _, ok := e.sums[rk]; !ok {
					e.sums[rk] = map[string]childOut{}
					e.enqueue(rk)
				}
			}
			grew := false
			for _, o := range res.outs {
				if _, ok := e.sums[k][o.key()]; !ok {
					e.sums[k][o.key()] = o
					grew = true
				}
			}
			if grew {
				for d := range e.deps[k] {
					e.enqueue(d)
				}
			}
		}
	}
	e.s.Count("summary_keys", len(e.sums))
	e.s.Count("summary_runs", e.nruns)
	e.s.Count("compiler_paths", e.npaths)
}

// outcomes derives the summary outcomes of one completed path.
func (e *eng) outcomes(pa *pathRec) []childOut {
	k := pa.key
	o := childOut{HC: pa.hc}
	if pa.ret != nil {
		if c, ok := absint.ConstInt(pa.ret.k[k.Sel]); ok {
			o.Kind = c
		} else if pa.ret.k[k.Sel] != nil {
			return nil
		}
		o.AddrZero = isZero(pa.ret.a[k.Sel])
		for sl := 0; sl < 3; sl++ {
			if sl != k.Sel && (!isZero(pa.ret.k[sl]) || !isZero(pa.ret.a[sl])) {
				o.Dirty = true
			}
		}
		if !isZero(pa.ret.op) {
			o.Dirty = true
		}
	}
	opt := e.analyse(pa, nil, true)
	pes := e.analyse(pa, nil, false)
	o.Clobber, o.Empty = opt.clobber, opt.empty
	var out []childOut
	if opt.ft {
		a := o
		a.FT = true
		out = append(out, a)
	}
	if !pes.ft {
		b := o
		b.FT = false
		out = append(out, b)
	}
	return out
}

// mkPass builds the flags argument for a key.
func (e *eng) mkPass(f flags) absint.Val {
	dst := e.dataT.Underlying().(*types.Struct)
	z := absint.Zero(e.dataT).(*absint.Struct)
	df := append([]absint.Val(nil), z.F...)
	for i := 0; i < dst.NumFields(); i++ {
		fl := dst.Field(i)
		switch fl.Name() {
		case "Discard":
			df[i] = absint.MkBool(f.Discard)
		case "ForbidTemp":
			df[i] = absint.MkBool(f.ForbidTemp)
		case "AcceptTemp":
			df[i] = absint.MkBool(f.AcceptTemp)
		case "Returning":
			df[i] = absint.MkBool(f.Returning)
		case "InFor":
			df[i] = absint.MkBool(f.InFor)
		case "InFunc":
			df[i] = absint.MkBool(f.InFunc)
		case "OpDepth":
			if f.OpPos {
				df[i] = absint.NewVarRange("OPDEPTH", fl.Type(), absint.I64(1), nil)
			} else {
				df[i] = absint.MkIntT(0, fl.Type())
			}
		case "CtxID":
			df[i] = absint.NewVarRange("CID", fl.Type(), absint.I64(0), nil)
		case "CtxLo":
			df[i] = absint.NewVarRange("CLO", fl.Type(), absint.I64(0), nil)
		case "CtxHi":
			df[i] = absint.NewVarRange("CHI", fl.Type(), absint.I64(0), nil)
		default:
			df[i] = absint.Top{Why: "unknown flag " + fl.Name()}
		}
	}
	return &absint.Struct{T: e.passT, F: []absint.Val{&absint.Struct{T: e.dataT, F: df}}}
}

// absFlags reads a Pass value back into the abstract flags.
func (e *eng) absFlags(v absint.Val) (flags, [3]string, string) {
	var f flags
	var ctx [3]string
	ps, ok := v.(*absint.Struct)
	if !ok || len(ps.F) != 1 {
		return f, ctx, "flags argument is " + absint.Key(v)
	}
	ds, ok := ps.F[0].(*absint.Struct)
	if !ok {
		return f, ctx, "flags data is " + absint.Key(ps.F[0])
	}
	dst := e.dataT.Underlying().(*types.Struct)
	for i := 0; i < dst.NumFields(); i++ {
		name := dst.Field(i).Name()
		val := ds.F[i]
		b, isB := absint.ConstBool(val)
		switch name {
		case "Discard":
			f.Discard = b
		case "ForbidTemp":
			f.ForbidTemp = b
		case "AcceptTemp":
			f.AcceptTemp = b
		case "Returning":
			f.Returning = b
		case "InFor":
			f.InFor = b
		case "InFunc":
			f.InFunc = b
		case "OpDepth":
			if c, ok := absint.ConstInt(val); ok {
				f.OpPos = c > 0
				if c < 0 {
					return f, ctx, "negative operator depth"
				}
			} else if sv, ok := val.(*absint.Sym); ok && sv.Lo != nil && *sv.Lo >= 1 {
				f.OpPos = true
			} else {
				return f, ctx, "operator depth " + absint.Key(val) + " is neither 0 nor known to be positive"
			}
			continue
		case "CtxID":
			ctx[0] = keyOr0(val)
			continue
		case "CtxLo":
			ctx[1] = keyOr0(val)
			continue
		case "CtxHi":
			ctx[2] = keyOr0(val)
			continue
		}
		if !isB {
			return f, ctx, "flag " + name + " is not constant: " + absint.Key(val)
		}
	}
	return f, ctx, ""
}

type runState struct {
	e        *eng
	in       *absint.Interp
	pa       *pathRec
	cs       *seg
	ds       *seg
	nref     int
	recv     absint.Val
	recvT    string
	matField string
	matRef   *nodeRef
	reqs     map[key]bool
}

func (r *runState) newRef(field string) *nodeRef {
	r.nref++
	cl := r.e.classes[field]
	n := &nodeRef{id: r.nref, field: field, class: cl, mat: map[string]absint.Val{}, parent: r.matRef}
	if r.matRef != nil {
		n.depth = r.matRef.depth + 1
	}
	return n
}

// materialise builds a receiver of node type tn with opaque children.
func (r *runState) materialise(tn string) absint.Val {
	e := r.e
	t := e.impls[tn]
	switch u := t.Underlying().(type) {
	case *types.Struct:
		z := absint.Zero(t).(*absint.Struct)
		f := append([]absint.Val(nil), z.F...)
		forLen := -1
		for i := 0; i < u.NumFields(); i++ {
			fl := u.Field(i)
			fname := tn + "." + fl.Name()
			switch {
			case types.Identical(fl.Type(), e.nodeT):
				f[i] = r.newRef(fname)
			case types.Identical(fl.Type(), e.listT):
				lo, hi := 0, 2+e.deep
				switch fname {
				case "List.Elems":
					hi = 3 + e.deep
				case "For.VarRefs", "For.Iterators":
					lo = 1
				}
				n := forLen
				if n < 0 || tn != "For" {
					n = lo + r.in.Oracle.Choose(hi-lo+1, "len("+fname+")")
					if tn == "For" {
						forLen = n
					}
				}
				r.pa.lens[fname] = n
				var els []absint.Val
				for j := 0; j < n; j++ {
					els = append(els, r.newRef(fname+".Elems"))
				}
				f[i] = &absint.Struct{T: e.listT, F: []absint.Val{absint.NewSliceIn(r.in, e.nodeT, els)}}
			default:
				if sl, ok := fl.Type().Underlying().(*types.Slice); ok && types.Identical(sl.Elem(), e.nodeT) {
					lo := 0
					if fname == "Block.Body" {
						lo = 2
					}
					n := lo + r.in.Oracle.Choose(2+e.deep, "len("+fname+")")
					r.pa.lens[fname] = n
					var els []absint.Val
					for j := 0; j < n; j++ {
						els = append(els, r.newRef(fname))
					}
					f[i] = absint.NewSliceIn(r.in, e.nodeT, els)
					continue
				}
				if b, ok := fl.Type().Underlying().(*types.Basic); ok {
					switch {
					case b.Info()&types.IsString != 0:
						if ops := e.ops[tn]; fl.Name() == "Op" && len(ops) > 0 {
							op := ops[r.in.Oracle.Choose(len(ops), "operator of "+tn)]
							if r.pa.recvOp == "" {
								r.pa.recvOp = op
							}
							f[i] = absint.MkString(op)
						} else {
							f[i] = absint.NewVar(fname, fl.Type())
						}
					case b.Info()&types.IsInteger != 0:
						f[i] = absint.NewVarRange(fname, fl.Type(), absint.I64(0), nil)
					default:
						f[i] = absint.NewVar(fname, fl.Type())
					}
				}
			}
		}
		return &absint.Struct{T: t, F: f}
	case *types.Basic:
		if r.matField != "" {
			return absint.NewVar(r.matField+":"+tn+".value", t)
		}
		return absint.NewVar(tn+".value", t)
	}
	return absint.Top{Why: "cannot materialise " + tn}
}

// List.Elems holds a List struct for List nodes themselves (List{Elems []Type}).

func (e *eng) runKey(k key, reqs map[key]bool) []*pathRec {
	var out []*pathRec
	o := &absint.Oracle{}
	limit := 6000
	if e.deep > 0 {
		limit = 100000
	}
	for n := 0; n < limit; n++ {
		pa := e.onePath(k, o, reqs)
		out = append(out, pa)
		if !o.Next() {
			break
		}
		if n == limit-1 {
			pa.end = fmt.Sprintf("undecided: more than %d paths in one context", limit)
		}
	}
	return out
}

func (e *eng) onePath(k key, o *absint.Oracle, reqs map[key]bool) *pathRec {
	p := e.p
	pa := &pathRec{key: k, lens: map[string]int{}}
	in := absint.NewInterp(p.SSA, o)
	if e.nodeGlobals != nil {
		// package level tables of the compiler have their contents; nothing
		// writes them after initialisation, so the runs can share them
		// (each run gets its own map: runs are parallel and a run may add cells
		// for other globals it meets)
		in.Globals = make(map[*ssa.Global]*absint.Cell, len(e.nodeGlobals)+8)
		for g, c := range e.nodeGlobals {
			in.Globals[g] = c
		}
	}
	in.MaxStep = 200000
	r := &runState{e: e, in: in, pa: pa, cs: &seg{name: "CS"}, ds: &seg{name: "DS"}, reqs: reqs}
	e.hooks(r)
	// compilation result
	crs := e.crT.Underlying().(*types.Struct)
	cz := absint.Zero(e.crT).(*absint.Struct)
	cf := append([]absint.Val(nil), cz.F...)
	dbg := &absint.Map{M: map[string]absint.Val{}}
	for i := 0; i < crs.NumFields(); i++ {
		switch crs.Field(i).Name() {
		case "CS":
			cf[i] = &absint.Ptr{Cell: in.NewCell(&segVal{r.cs}, "CS")}
		case "DS":
			cf[i] = &absint.Ptr{Cell: in.NewCell(&segVal{r.ds}, "DS")}
		case "Dbg":
			cf[i] = &absint.Ptr{Cell: in.NewCell(dbg, "Dbg")}
		}
	}
	cr := &absint.Struct{T: e.crT, F: cf}
	var res absint.Val
	var end *absint.PathEnd
	switch k.Type {
	case rootPush, rootNoPush:
		name := "ByteCode"
		if k.Type == rootNoPush {
			name = "ByteCodeNoStck"
		}
		fn := e.nodeSp.Func(name)
		if fn == nil {
			pa.end = "undecided: node." + name + " not found"
			return pa
		}
		root := &nodeRef{id: 0, field: "<statement>", class: e.roots, mat: map[string]absint.Val{}}
		res, end = in.Run(fn, []absint.Val{root, cr})
		pa.ret = &instrV{}
		_ = res
	default:
		fn := e.bcFn[k.Type]
		r.recvT = k.Type
		r.recv = r.materialise(k.Type)
		res, end = in.Run(fn, []absint.Val{r.recv, absint.MkInt(int64(k.Sel)), e.mkPass(k.F), cr})
		if end == nil {
			iv, ok := res.(*instrV)
			if !ok {
				pa.end = "undecided: the method returns " + absint.Key(res)
			} else {
				pa.ret = iv
			}
			// the node's own HasCall value under the same choices
			hres, hend := in.Run(e.hcFn[k.Type], []absint.Val{r.recv})
			if b, ok := absint.ConstBool(hres); ok && hend == nil {
				pa.hc = b
			} else if pa.end == "" {
				pa.end = fmt.Sprintf("undecided: HasCall of %s is %s (%v)", k.Type, absint.Key(hres), hend)
			}
		}
	}
	pa.trace = o.Trace()
	for _, c := range in.CondV {
		pa.facts = append(pa.facts, fmt.Sprintf("cond %s=%v", absint.Key(c.V), c.B))
	}
	for _, c := range r.cs.items {
		pa.items = append(pa.items, r.itemOf(c))
	}
	for _, c := range r.ds.items {
		if d, ok := c.V.(*dsEntry); ok {
			pa.ds = append(pa.ds, d)
		} else {
			pa.ds = append(pa.ds, &dsEntry{ctor: "?" + absint.Key(c.V)})
		}
	}
	for lk, v := range dbg.M {
		var ix int
		if _, err := fmt.Sscanf(lk, "L%d", &ix); err == nil && ix >= 0 && ix <= len(pa.items) {
			d := &dbgRec{}
			if st, ok := v.(*absint.Struct); ok {
				stt := st.T.Underlying().(*types.Struct)
				for i := 0; i < stt.NumFields(); i++ {
					switch stt.Field(i).Name() {
					case "ArgCnt":
						d.argCnt = absint.Key(st.F[i])
					case "Name":
						d.name = absint.Key(st.F[i])
					}
				}
			}
			if ix < len(pa.items) {
				pa.items[ix].dbg = d
			} else {
				pa.items = append(pa.items, &item{dbg: d})
				pa.items = pa.items[:len(pa.items)-1]
			}
		} else {
			pa.end = "undecided: debug info keyed by " + lk
		}
	}
	if r.cs.removed {
		pa.trunc = true
	}
	switch {
	case pa.end != "":
	case end == nil:
		pa.end = "return"
	case end.Kind == "undecided" && end.Msg == "pending":
		pa.end = "pending"
	case end.Kind == "panic":
		pa.end = "panic: " + end.Msg
		pa.endPos = end.Pos
	default:
		pa.end = "undecided: " + end.Msg
		pa.endPos = end.Pos
	}
	return pa
}

func (r *runState) itemOf(c *absint.Cell) *item {
	switch v := c.V.(type) {
	case *itemVal:
		return v.it
	case *instrV:
		return &item{ins: v}
	}
	return &item{ins: &instrV{confl: "item overwritten with " + absint.Key(c.V)}}
}

func labelIx(v absint.Val, pre string) (int, bool) {
	s, ok := v.(*absint.Sym)
	if !ok || s.Op != "var" || !strings.HasPrefix(s.Name, pre) {
		return 0, false
	}
	var ix int
	if _, err := fmt.Sscanf(s.Name[len(pre):], "%d", &ix); err != nil {
		return 0, false
	}
	return ix, true
}

func (e *eng) hooks(r *runState) {
	in := r.in
	u64 := types.Typ[types.Uint64]
	intT := types.Typ[types.Int]
	in.Hooks.Call = func(in *absint.Interp, callee *ssa.Function, args []absint.Val, site ssa.Instruction) (absint.Val, bool) {
		pkg := ""
		if callee.Pkg != nil {
			pkg = callee.Pkg.Pkg.Path()
		}
		name := callee.Name()
		switch pkg {
		case load.ModPath + "/types/bytecode":
			switch name {
			case "New":
				return &instrV{op: args[0]}, true
			case "EncodeSrc":
				sel, ok := absint.ConstInt(args[0])
				if !ok || sel < 0 || sel > 2 {
					in.Undecided("EncodeSrc with operand selector "+absint.Key(args[0]), site)
				}
				iv := &instrV{}
				iv.k[sel] = args[1]
				iv.a[sel] = args[2]
				return iv, true
			case "Src0", "Src1", "Src2", "Src0Addr", "Src1Addr", "Src2Addr", "OpCode", "Src":
				iv, ok := args[0].(*instrV)
				if !ok {
					return absint.Top{Why: name + " of " + absint.Key(args[0])}, true
				}
				get := func(v absint.Val, t types.Type) absint.Val {
					if v == nil {
						return absint.MkIntT(0, t)
					}
					return v
				}
				switch name {
				case "OpCode":
					return get(iv.op, callee.Signature.Results().At(0).Type()), true
				case "Src":
					sel, ok := absint.ConstInt(args[1])
					if !ok || sel < 0 || sel > 1 {
						in.Undecided("Src("+absint.Key(args[1])+")", site)
					}
					return get(iv.k[sel], u64), true
				}
				sl := int(name[3] - '0')
				if strings.HasSuffix(name, "Addr") {
					return get(iv.a[sl], intT), true
				}
				return get(iv.k[sl], u64), true
			}
		case load.ModPath + "/types/value":
			if strings.HasPrefix(name, "New") {
				d := &dsEntry{ctor: name}
				for _, a := range args {
					d.args = append(d.args, absint.Key(a))
				}
				return d, true
			}
			// an operator or accessor applied to a constant at compile time: the
			// constant's value is not modelled, the answer is an unknown of the
			// result type (a decision on it forks the path)
			for _, a := range args {
				if _, isConst := a.(*dsEntry); isConst {
					res := callee.Signature.Results()
					mk := func(i int) absint.Val {
						return absint.NewVar(fmt.Sprintf("%s.%d of a constant", name, i), res.At(i).Type())
					}
					switch res.Len() {
					case 0:
						return nil, true
					case 1:
						return mk(0), true
					}
					tu := &absint.Tuple{}
					for i := 0; i < res.Len(); i++ {
						if res.At(i).Type().String() == "error" {
							if in.Oracle.Choose(2, name+" of a constant fails") == 0 {
								tu.E = append(tu.E, absint.Const{T: res.At(i).Type()})
							} else {
								ec := in.NewCell(absint.NewVar("err", nil), "err")
								tu.E = append(tu.E, &absint.Iface{T: types.NewPointer(types.Typ[types.Int]), V: &absint.Ptr{Cell: ec}})
							}
							continue
						}
						tu.E = append(tu.E, mk(i))
					}
					return tu, true
				}
			}
		case "reflect":
			if name == "DeepEqual" {
				return absint.MkBool(in.Oracle.Choose(2, "operands structurally equal") == 1), true
			}
		}
		return nil, false
	}
	in.Hooks.Global = func(in *absint.Interp, g *ssa.Global) (absint.Val, bool) {
		if g.Pkg != nil && g.Pkg.Pkg.Path() == load.ModPath+"/types/value" && g.Name() == "Nil" {
			return &dsEntry{ctor: "Nil"}, true
		}
		return nil, false
	}
	in.Hooks.BinOp = func(in *absint.Interp, op token.Token, x, y absint.Val, t types.Type) (absint.Val, bool) {
		xi, xok := x.(*instrV)
		yi, yok := y.(*instrV)
		switch {
		case op == token.OR && xok && yok:
			return xi.or(yi), true
		case (op == token.EQL || op == token.NEQ) && (xok || yok):
			var iv *instrV
			var other absint.Val
			if xok {
				iv, other = xi, y
			} else {
				iv, other = yi, x
			}
			if c, ok := absint.ConstInt(other); ok && c == 0 {
				// comparison of a whole instruction word with zero
				known := true
				for _, f := range append([]absint.Val{iv.op}, append(iv.k[:], iv.a[:]...)...) {
					if f == nil {
						continue
					}
					if _, ok := absint.ConstInt(f); !ok {
						known = false
					}
				}
				nonZero := false
				for _, f := range append([]absint.Val{iv.op}, append(iv.k[:], iv.a[:]...)...) {
					if c, ok := absint.ConstInt(f); f != nil && ok && c != 0 {
						nonZero = true
					}
				}
				if nonZero {
					return absint.MkBool(op != token.EQL), true
				}
				if known {
					return absint.MkBool(iv.allZero() == (op == token.EQL)), true
				}
			}
			return absint.Top{Why: "comparison of instruction words"}, true
		}
		_, xr := x.(*nodeRef)
		_, yr := y.(*nodeRef)
		if (op == token.EQL || op == token.NEQ) && (xr || yr) {
			// == on interface values aborts when both hold the same dynamic type and
			// that type is not comparable (a struct containing a slice)
			cands := func(v absint.Val) []string {
				switch n := v.(type) {
				case *nodeRef:
					if n.chosen != "" {
						return []string{n.chosen}
					}
					return n.class
				case *absint.Iface:
					if nt, ok := n.T.(*types.Named); ok {
						return []string{nt.Obj().Name()}
					}
				}
				return nil
			}
			for _, a := range cands(x) {
				for _, b := range cands(y) {
					if a == b && e.impls[a] != nil && !deepComparable(e, a, map[string]bool{}) {
						in.Undecided("abort: == on two "+a+" nodes: comparing uncomparable type (the node, or a node it contains, holds a slice)", nil)
					}
				}
			}
			eq := in.Oracle.Choose(2, "subtrees equal") == 1
			fa, fb := refField(x), refField(y)
			if fa > fb {
				fa, fb = fb, fa
			}
			r.pa.facts = append(r.pa.facts, fmt.Sprintf("same %s,%s=%v", fa, fb, eq))
			return absint.MkBool(eq == (op == token.EQL)), true
		}
		return nil, false
	}
	in.Hooks.Len = func(in *absint.Interp, x absint.Val) (absint.Val, bool) {
		if sv, ok := x.(*segVal); ok {
			pre := "L"
			if sv.s == r.ds {
				pre = "D"
			}
			return absint.NewVarRange(fmt.Sprintf("%s%d", pre, len(sv.s.items)), intT, absint.I64(0), nil), true
		}
		return nil, false
	}
	in.Hooks.Append = func(in *absint.Interp, sl absint.Val, elems absint.Val, site ssa.Instruction) (absint.Val, bool) {
		sv, ok := sl.(*segVal)
		if !ok {
			return nil, false
		}
		es, ok := elems.(*absint.Slice)
		if !ok {
			in.Undecided("append of "+absint.Key(elems)+" to a segment", site)
		}
		for _, el := range es.Elems() {
			c := in.NewCell(el, sv.s.name)
			if iv, ok := el.(*instrV); ok && sv.s == r.cs {
				c.V = &itemVal{&item{ins: iv, pos: site.Pos()}}
			}
			sv.s.items = append(sv.s.items, c)
		}
		return sv, true
	}
	in.Hooks.IndexAddr = func(in *absint.Interp, x absint.Val, idx absint.Val, site ssa.Instruction) (absint.Val, bool) {
		sv, ok := x.(*segVal)
		if !ok {
			return nil, false
		}
		pre := "L"
		if sv.s == r.ds {
			pre = "D"
		}
		ix, ok := labelIx(idx, pre)
		if !ok || ix >= len(sv.s.items) {
			in.Undecided("segment indexed with "+absint.Key(idx), site)
		}
		c := sv.s.items[ix]
		if iv, ok := c.V.(*itemVal); ok && iv.it.ins != nil {
			// expose the instruction word for read-modify-write
			c.V = iv.it.ins
		}
		return &absint.Ptr{Cell: c}, true
	}
	in.Hooks.Slice = func(in *absint.Interp, x absint.Val, lo, hi, max absint.Val, site ssa.Instruction) (absint.Val, bool) {
		if sv, ok := x.(*segVal); ok {
			sv.s.removed = true
			sv.s.truncPos = site.Pos()
			// model the common "drop the last instruction"
			if len(sv.s.items) > 0 {
				sv.s.items = sv.s.items[:len(sv.s.items)-1]
			}
			return sv, true
		}
		return nil, false
	}
	in.Hooks.MapUpdate = func(in *absint.Interp, m, k, v absint.Val, site ssa.Instruction) bool {
		if mm, ok := m.(*absint.Map); ok {
			mm.M[absint.Key(k)] = v
			return true
		}
		return false
	}
	in.Hooks.TypeAssert = func(in *absint.Interp, x absint.Val, asserted types.Type, commaOk bool, site ssa.Instruction) (absint.Val, bool) {
		ref, ok := x.(*nodeRef)
		if !ok {
			return nil, false
		}
		res := func(v absint.Val, ok bool) (absint.Val, bool) {
			if commaOk {
				return &absint.Tuple{E: []absint.Val{v, absint.MkBool(ok)}}, true
			}
			if !ok {
				in.Undecided(fmt.Sprintf("abort: interface conversion of %s to %s", ref.ObjString(), asserted), site)
			}
			return v, true
		}
		cands := ref.class
		if ref.chosen != "" {
			cands = []string{ref.chosen}
		}
		if types.IsInterface(asserted) {
			ai := asserted.Underlying().(*types.Interface)
			all, none := true, true
			for _, c := range cands {
				if types.Implements(e.impls[c], ai) {
					none = false
				} else {
					all = false
				}
			}
			if all {
				return res(ref, true)
			}
			if none {
				return res(absint.Const{T: asserted}, false)
			}
			tn := r.choose(ref)
			if types.Implements(e.impls[tn], ai) {
				return res(ref, true)
			}
			return res(absint.Const{T: asserted}, false)
		}
		an := ""
		if nt, ok := asserted.(*types.Named); ok {
			an = nt.Obj().Name()
		}
		possible := false
		for _, c := range cands {
			if c == an {
				possible = true
			}
		}
		if !possible {
			return res(absint.Zero(asserted), false)
		}
		tn := r.choose(ref)
		if tn != an {
			return res(absint.Zero(asserted), false)
		}
		if ref.mat[tn] == nil {
			if ref.depth >= 3 {
				in.Undecided(fmt.Sprintf("the compiler descends more than 3 levels into the tree below its node (%s): unbounded inspection of descendants is not summarised", ref.ObjString()), site)
			}
			r.matField, r.matRef = ref.field, ref
			ref.mat[tn] = r.materialise(tn)
			r.matField, r.matRef = "", nil
			if st, ok := ref.mat[tn].(*absint.Struct); ok {
				if stt, ok := st.T.Underlying().(*types.Struct); ok {
					for i := 0; i < stt.NumFields(); i++ {
						if op, ok := absint.ConstString(st.F[i]); ok && stt.Field(i).Name() == "Op" {
							r.pa.facts = append(r.pa.facts, "op "+ref.field+"="+op)
							ref.op = op
						}
					}
				}
			}
		}
		return res(ref.mat[tn], true)
	}
	fetchClass := map[int64]bool{e.addrK["AddrDS"]: true, e.addrK["AddrLcl"]: true, e.addrK["AddrCls"]: true, e.addrK["AddrGbl"]: true}
	in.Hooks.Invoke = func(in *absint.Interp, recv absint.Val, m *types.Func, args []absint.Val, site ssa.Instruction) (absint.Val, bool) {
		ref, ok := recv.(*nodeRef)
		if !ok {
			return nil, false
		}
		switch m.Name() {
		case "HasCall":
			if ref.hc == nil {
				b := in.Oracle.Choose(2, "HasCall of "+ref.field) == 1
				ref.hc = &b
			}
			return absint.MkBool(*ref.hc), true
		case "Constant":
			okc := in.Oracle.Choose(2, "Constant of "+ref.field) == 1
			return &absint.Tuple{E: []absint.Val{&dsEntry{ctor: "constant of " + ref.field}, absint.MkBool(okc)}}, true
		case "Name":
			return absint.NewVar("name of "+ref.field, types.Typ[types.String]), true
		case "byteCode":
			sel, ok := absint.ConstInt(args[0])
			if !ok {
				in.Undecided("child compiled with operand selector "+absint.Key(args[0]), site)
			}
			fl, ctx, msg := e.absFlags(args[1])
			if msg != "" {
				in.Undecided(msg, site)
			}
			// the parent sees a child only through its outcome: fork over the distinct
			// outcomes of all candidate types instead of over the types
			types_ := ref.class
			if ref.chosen != "" {
				types_ = []string{ref.chosen}
			}
			if len(types_) == 0 {
				in.Undecided("no class for field "+ref.field, site)
			}
			if ref.hc == nil {
				b := in.Oracle.Choose(2, "HasCall of "+ref.field) == 1
				ref.hc = &b
			}
			groups := map[string]*childGroup{}
			from := map[string]string{}
			for _, tn := range types_ {
				k := key{Type: tn, F: fl, Sel: int(sel)}
				r.reqs[k] = true
				for _, o := range e.sums[k] {
					if o.HC != *ref.hc {
						continue
					}
					// a parent distinguishes Stck, Inv and Tmp descriptors; every
					// other kind (DS, Lcl, Cls, Gbl) is just "fetchable" to it, except
					// for assignment targets whose kind selects the store
					gk := o.goKey()
					if fetchClass[o.Kind] && !strings.Contains(ref.field, "VarRef") {
						gk = fmt.Sprintf("fetchable z%v d%v", o.AddrZero, o.Dirty)
					}
					g := groups[gk]
					if g == nil {
						g = &childGroup{Kind: o.Kind, AddrZero: o.AddrZero, Dirty: o.Dirty}
						groups[gk] = g
						from[gk] = tn
					} else if o.Kind < g.Kind {
						g.Kind = o.Kind
					}
					dup := false
					for _, v := range g.Vars {
						if v.key() == o.key() {
							dup = true
						}
					}
					if !dup {
						g.Vars = append(g.Vars, o)
					}
				}
			}
			if len(groups) == 0 {
				in.Undecided("pending", site)
			}
			var gks []string
			for gk := range groups {
				gks = append(gks, gk)
			}
			sort.Strings(gks)
			gk := gks[in.Oracle.Choose(len(gks), fmt.Sprintf("descriptor of %s (src%d, %s)", ref.field, sel, fl))]
			o := groups[gk]
			sort.Slice(o.Vars, func(i, j int) bool { return o.Vars[i].key() < o.Vars[j].key() })
			tn := from[gk]
			it := &item{child: o, ctype: tn, cref: ref, csel: int(sel), pos: site.Pos()}
			r.cs.items = append(r.cs.items, in.NewCell(&itemVal{it}, "CS"))
			r.pa.calls = append(r.pa.calls, childCall{ref: ref, field: ref.field, sel: int(sel), typ: tn, fl: fl, ctx: ctx, item: len(r.cs.items) - 1})
			iv := &instrV{}
			iv.k[sel] = absint.MkIntT(o.Kind, u64)
			if o.AddrZero {
				iv.a[sel] = absint.MkInt(0)
			} else {
				iv.a[sel] = absint.NewVar(fmt.Sprintf("addr#%d", ref.id), intT)
			}
			if o.Dirty {
				iv.confl = "child descriptor has fields outside its slot"
			}
			return iv, true
		}
		return nil, false
	}
}

func refField(v absint.Val) string {
	switch n := v.(type) {
	case *nodeRef:
		return n.field
	case *absint.Iface:
		if nt, ok := n.T.(*types.Named); ok {
			return "<" + nt.Obj().Name() + " value>"
		}
	}
	return "<" + absint.Key(v) + ">"
}

func (r *runState) choose(ref *nodeRef) string {
	if ref.chosen == "" {
		if len(ref.class) == 0 {
			r.in.Undecided("no class for field "+ref.field, nil)
		}
		ref.chosen = ref.class[r.in.Oracle.Choose(len(ref.class), "type of "+ref.field)]
		r.pa.facts = append(r.pa.facts, "type "+ref.field+"="+ref.chosen)
	}
	return ref.chosen
}

// deepComparable: comparing two values of node type tn with == cannot panic:
// the type is comparable and so is every node type an interface field of it can hold.
func deepComparable(e *eng, tn string, seen map[string]bool) bool {
	if seen[tn] {
		return true
	}
	seen[tn] = true
	t := e.impls[tn]
	if !types.Comparable(t) {
		return false
	}
	st, ok := t.Underlying().(*types.Struct)
	if !ok {
		return true
	}
	for i := 0; i < st.NumFields(); i++ {
		if types.Identical(st.Field(i).Type(), e.nodeT) {
			for _, c := range e.classes[tn+"."+st.Field(i).Name()] {
				if !deepComparable(e, c, seen) {
					return false
				}
			}
		}
	}
	return true
}
