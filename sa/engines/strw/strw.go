// Package strw checks the symbol table rewrite (types/node/strewriter.go):
// every STRewrite method is interpreted abstractly with opaque children and
// with symbol tables that enumerate, for one name, every combination of
// "which scopes contain it".
package strw

import (
	"fmt"
	"go/constant"
	"go/types"
	"sort"
	"strings"

	"calcsa/absint"
	"calcsa/load"
	"calcsa/oblig"

	"golang.org/x/tools/go/ssa"
)

// child is an opaque subtree.
type child struct {
	name string
}

func (c *child) ObjString() string { return "tree:" + c.name }

type eng struct {
	deep   int
	p      *load.Program
	s      *oblig.Set
	sp     *ssa.Package
	nodeT  *types.Interface // node.Type
	nodeNm types.Type
	symTbl types.Type
	rw     *types.Func // STRewriter.STRewrite
	impls  []types.Type
}

func Run(p *load.Program, tier string) *oblig.Set {
	s := oblig.NewSet()
	e := &eng{p: p, s: s}
	if tier == "thorough" {
		e.deep = 1 // symbol tables of depth 0..4, loops with 1..4 variables
	}
	e.sp = p.SPkg("types/node")
	if e.sp == nil {
		s.Unk("ANCHOR", "package node", "-", "not found")
		return s
	}
	sc := e.sp.Pkg.Scope()
	tobj, sobj, robj := sc.Lookup("Type"), sc.Lookup("SymTbl"), sc.Lookup("STRewriter")
	if tobj == nil || sobj == nil || robj == nil {
		s.Unk("ANCHOR", "node.Type / SymTbl / STRewriter", "-", "not found")
		return s
	}
	e.nodeNm = tobj.Type()
	e.nodeT = tobj.Type().Underlying().(*types.Interface)
	e.symTbl = sobj.Type()
	ri := robj.Type().Underlying().(*types.Interface)
	if ri.NumMethods() != 1 {
		s.Unk("ANCHOR", "node.STRewriter", "-", "expected one method")
		return s
	}
	e.rw = ri.Method(0)
	for _, n := range sc.Names() {
		tn, ok := sc.Lookup(n).(*types.TypeName)
		if !ok || types.IsInterface(tn.Type()) {
			continue
		}
		if types.Implements(tn.Type(), e.nodeT) {
			e.impls = append(e.impls, tn.Type())
		}
	}
	if len(e.impls) < 25 {
		s.Unk("ANCHOR", "node types", "-", fmt.Sprintf("only %d types implement node.Type", len(e.impls)))
		return s
	}
	e.structural()
	e.names()
	e.assign()
	e.forLoop()
	e.function()
	return s
}

func (e *eng) method(t types.Type) *ssa.Function {
	sel := e.p.SSA.MethodSets.MethodSet(t).Lookup(e.rw.Pkg(), e.rw.Name())
	if sel == nil {
		return nil
	}
	if f := e.p.SSA.FuncValue(sel.Obj().(*types.Func)); f != nil && f.Blocks != nil {
		return f
	}
	return e.p.SSA.MethodValue(sel)
}

func tname(t types.Type) string {
	if n, ok := t.(*types.Named); ok {
		return n.Obj().Name()
	}
	return t.String()
}

// ctx is one interpretation with its event log.
type ctx struct {
	in        *absint.Interp
	inspected []string // type assertions made on (rewritten) children
	events    []string
	tables    []*absint.Slice // symbol tables seen by children, by event order
}

func (e *eng) newCtx() *ctx {
	c := &ctx{}
	c.in = absint.NewInterp(e.p.SSA, &absint.Oracle{})
	c.in.MaxStep = 100000
	c.in.Hooks.Invoke = func(in *absint.Interp, recv absint.Val, m *types.Func, args []absint.Val, site ssa.Instruction) (absint.Val, bool) {
		ch, ok := recv.(*child)
		if !ok || m.Name() != e.rw.Name() {
			return nil, false
		}
		desc := "?"
		if tb, ok := args[0].(*absint.Slice); ok {
			desc = tableDesc(tb)
			c.tables = append(c.tables, tb)
		}
		c.events = append(c.events, "rewrite "+ch.name+" with "+desc)
		return &child{name: "rw(" + ch.name + ")@" + desc}, true
	}
	c.in.Hooks.MapUpdate = nil
	// a rewrite that asks what its child is: answered "not that", and remembered
	c.in.Hooks.TypeAssert = func(in *absint.Interp, x absint.Val, asserted types.Type, commaOk bool, site ssa.Instruction) (absint.Val, bool) {
		ch, ok := x.(*child)
		if !ok || !commaOk {
			return nil, false
		}
		c.inspected = append(c.inspected, fmt.Sprintf("%s.(%s)", ch.name, types.TypeString(asserted, func(p *types.Package) string { return p.Name() })))
		return &absint.Tuple{E: []absint.Val{absint.Zero(asserted), absint.MkBool(false)}}, true
	}
	return c
}

func tableDesc(tb *absint.Slice) string {
	var parts []string
	for _, sc := range tb.Elems() {
		m, ok := sc.(*absint.Map)
		if !ok {
			parts = append(parts, "?")
			continue
		}
		var ks []string
		for k, v := range m.M {
			ks = append(ks, strings.Trim(k, `"`)+"="+absint.Key(v))
		}
		sort.Strings(ks)
		parts = append(parts, "{"+strings.Join(ks, ",")+"}")
	}
	return "[" + strings.Join(parts, " ") + "]"
}

// mkTable builds a symbol table; scopes[i] maps names to indices.
func (e *eng) mkTable(in *absint.Interp, scopes []map[string]int64) *absint.Slice {
	et := e.symTbl.Underlying().(*types.Slice).Elem()
	var elems []absint.Val
	for _, sc := range scopes {
		m := &absint.Map{M: map[string]absint.Val{}, T: et}
		for k, v := range sc {
			m.M[absint.Key(absint.MkString(k))] = absint.MkInt(v)
		}
		elems = append(elems, m)
	}
	return absint.NewSliceIn(in, et, elems)
}

func (e *eng) nameVal(n string) absint.Val {
	t := e.sp.Pkg.Scope().Lookup("Name").Type()
	return &absint.Iface{T: t, V: absint.Const{V: constant.MakeString(n), T: t}}
}

// fieldsOf renders a result node.
func (e *eng) render(v absint.Val) string {
	switch x := v.(type) {
	case *absint.Iface:
		return tname(x.T) + e.render(x.V)
	case *absint.Struct:
		st := x.T.Underlying().(*types.Struct)
		var ps []string
		for i, f := range x.F {
			ps = append(ps, st.Field(i).Name()+":"+e.render(f))
		}
		return "{" + strings.Join(ps, " ") + "}"
	case *absint.Slice:
		var ps []string
		for _, el := range x.Elems() {
			ps = append(ps, e.render(el))
		}
		return "[" + strings.Join(ps, ", ") + "]"
	case *child:
		return x.name
	case absint.Const:
		return absint.Key(x)
	}
	return absint.Key(v)
}

// structural (S1): every node type rewrites into the same type with every
// child taken from the rewrite of the same child, with the same table.
func (e *eng) structural() {
	special := map[string]bool{"Name": true, "Assign": true, "For": true, "Function": true, "Local": true, "Closure": true}
	for _, t := range e.impls {
		tn := tname(t)
		fn := e.method(t)
		if fn == nil {
			e.s.Unk("S1", "node."+tn+".STRewrite", "-", "method not found")
			continue
		}
		pos := e.p.Pos(fn.Pos())
		if special[tn] {
			continue
		}
		c := e.newCtx()
		recv, want := e.mkNode(c.in, t, "")
		tbl := e.mkTable(c.in, []map[string]int64{{"outer": 0}, {"inner": 0}})
		res, end := c.in.Run(fn, []absint.Val{recv, tbl})
		key := "node." + tn + ".STRewrite / structure preserved"
		if end != nil {
			e.s.Unk("S1", key, pos, "could not be evaluated: "+end.Error())
			continue
		}
		got := e.render(res)
		if len(c.inspected) > 0 {
			e.s.Bad("S1", key, pos, fmt.Sprintf("the rewrite asks what its operand is (%s): resolving names never depends on that; a rewrite that does replaces the tree the programmer wrote by another one (a negated comparison is not the opposite comparison for NaN operands)", strings.Join(c.inspected, ", ")))
		} else if got == want {
			e.s.OK("S1", key, pos, got)
		} else {
			e.s.Bad("S1", key, pos, fmt.Sprintf("the rewritten node must be a %s whose children are the rewrites of the same children under the same table; expected %s, got %s", tn, want, got))
		}
	}
	// Local / Closure must not be rewritten again
	for _, tn := range []string{"Local", "Closure"} {
		t := e.sp.Pkg.Scope().Lookup(tn).Type()
		fn := e.method(t)
		if fn == nil {
			continue
		}
		c := e.newCtx()
		recv, _ := e.mkNode(c.in, t, "")
		_, end := c.in.Run(fn, []absint.Val{recv, e.mkTable(c.in, nil)})
		key := "node." + tn + ".STRewrite / a resolved reference is never rewritten again"
		if end != nil && end.Kind == "panic" {
			e.s.OK("S1", key, e.p.Pos(fn.Pos()), "rewriting twice is refused")
		} else {
			e.s.OK("S1", key, e.p.Pos(fn.Pos()), "idempotent on resolved references")
		}
	}
}

// mkNode builds a node of type t with opaque children; returns it and the
// expected rendering of its structural rewrite under the table [{outer=0} {inner=0}].
func (e *eng) mkNode(in *absint.Interp, t types.Type, prefix string) (absint.Val, string) {
	desc := "[{outer=0} {inner=0}]"
	tn := tname(t)
	switch u := t.Underlying().(type) {
	case *types.Struct:
		z := absint.Zero(t).(*absint.Struct)
		f := append([]absint.Val(nil), z.F...)
		var ps []string
		for i := 0; i < u.NumFields(); i++ {
			fl := u.Field(i)
			name := prefix + fl.Name()
			switch {
			case types.Identical(fl.Type(), e.nodeNm):
				f[i] = &child{name: name}
				ps = append(ps, fl.Name()+":rw("+name+")@"+desc)
			case tname(fl.Type()) == "List":
				lv, lw := e.mkList(in, fl.Type(), name, desc)
				f[i] = lv
				ps = append(ps, fl.Name()+":"+lw)
			default:
				if sl, ok := fl.Type().Underlying().(*types.Slice); ok && types.Identical(sl.Elem(), e.nodeNm) {
					els := []absint.Val{&child{name: name + "0"}, &child{name: name + "1"}}
					f[i] = absint.NewSliceIn(in, e.nodeNm, els)
					ps = append(ps, fl.Name()+":[rw("+name+"0)@"+desc+", rw("+name+"1)@"+desc+"]")
					continue
				}
				switch b := fl.Type().Underlying().(type) {
				case *types.Basic:
					if b.Info()&types.IsString != 0 {
						f[i] = absint.Const{V: constant.MakeString("s:" + name), T: fl.Type()}
						ps = append(ps, fl.Name()+":"+`"s:`+name+`"`)
					} else {
						f[i] = absint.MkIntT(7, fl.Type())
						ps = append(ps, fl.Name()+":7")
					}
				default:
					ps = append(ps, fl.Name()+":"+absint.Key(f[i]))
				}
			}
		}
		return &absint.Struct{T: t, F: f}, tn + "{" + strings.Join(ps, " ") + "}"
	case *types.Basic:
		switch {
		case u.Info()&types.IsString != 0:
			return absint.Const{V: constant.MakeString("lit"), T: t}, tn + `"lit"`
		case u.Info()&types.IsBoolean != 0:
			return absint.Const{V: constant.MakeBool(true), T: t}, tn + "true"
		case u.Info()&types.IsFloat != 0:
			return absint.Const{V: constant.MakeFloat64(1.5), T: t}, tn + "3/2"
		default:
			return absint.MkIntT(42, t), tn + "42"
		}
	}
	return absint.Zero(t), "?"
}

func (e *eng) mkList(in *absint.Interp, t types.Type, name, desc string) (absint.Val, string) {
	st := t.Underlying().(*types.Struct)
	els := []absint.Val{&child{name: name + "0"}, &child{name: name + "1"}}
	sl := absint.NewSliceIn(in, e.nodeNm, els)
	_ = st
	return &absint.Struct{T: t, F: []absint.Val{sl}}, "{Elems:[rw(" + name + "0)@" + desc + ", rw(" + name + "1)@" + desc + "]}"
}

// names (S2): lookup order of a variable read.
func (e *eng) names() {
	t := e.sp.Pkg.Scope().Lookup("Name").Type()
	fn := e.method(t)
	if fn == nil {
		e.s.Unk("S2", "node.Name.STRewrite", "-", "method not found")
		return
	}
	pos := e.p.Pos(fn.Pos())
	for depth := 0; depth <= 3+e.deep; depth++ {
		for mask := 0; mask < 1<<uint(depth); mask++ {
			c := e.newCtx()
			var scopes []map[string]int64
			var has []string
			for i := 0; i < depth; i++ {
				sc := map[string]int64{"other": 90 + int64(i)}
				if mask&(1<<uint(i)) != 0 {
					sc["x"] = 10 * int64(i+1)
					has = append(has, fmt.Sprint(i))
				}
				scopes = append(scopes, sc)
			}
			recv := absint.Const{V: constant.MakeString("x"), T: t}
			res, end := c.in.Run(fn, []absint.Val{recv, e.mkTable(c.in, scopes)})
			key := fmt.Sprintf("node.Name.STRewrite / %d scope(s), name defined in scope(s) [%s]", depth, strings.Join(has, ","))
			if end != nil {
				e.s.Unk("S2", key, pos, "could not be evaluated: "+end.Error())
				continue
			}
			want := `Name"x"`
			switch {
			case depth >= 1 && mask&(1<<uint(depth-1)) != 0:
				want = fmt.Sprintf(`Local{Ix:%d VarName:"x"}`, 10*depth)
			case depth >= 2 && mask&(1<<uint(depth-2)) != 0:
				want = fmt.Sprintf(`Closure{Ix:%d VarName:"x"}`, 10*(depth-1))
			}
			got := e.render(res)
			if got == want {
				e.s.OK("S2", key, pos, got)
			} else {
				e.s.Bad("S2", key, pos, fmt.Sprintf("a read resolves to the function's own variable, else to the variable of the immediately enclosing function, else to the global; expected %s, got %s", want, got))
			}
		}
	}
}

// assign (S3): an assignment inside a function targets the function's own
// slot, registered after the value is rewritten.
func (e *eng) assign() {
	t := e.sp.Pkg.Scope().Lookup("Assign").Type()
	fn := e.method(t)
	if fn == nil {
		e.s.Unk("S3", "node.Assign.STRewrite", "-", "method not found")
		return
	}
	pos := e.p.Pos(fn.Pos())
	st := t.Underlying().(*types.Struct)
	type tc struct {
		scopes []map[string]int64
		what   string
		want   string
		tbl    string // table the value must be rewritten with
	}
	cases := []tc{
		{nil, "at global scope", `Assign{VarRef:Name"x" Value:rw(value)@[]}`, "[]"},
		{[]map[string]int64{{"a": 0, "b": 1}}, "new variable in a function", `Assign{VarRef:Local{Ix:2 VarName:"x"} Value:rw(value)@[{a=0,b=1}]}`, "[{a=0,b=1}]"},
		{[]map[string]int64{{"a": 0, "x": 1}}, "existing variable in a function", `Assign{VarRef:Local{Ix:1 VarName:"x"} Value:rw(value)@[{a=0,x=1}]}`, "[{a=0,x=1}]"},
		{[]map[string]int64{{"x": 5}, {"a": 0}}, "name of the enclosing function's variable", `Assign{VarRef:Local{Ix:1 VarName:"x"} Value:rw(value)@[{x=5} {a=0}]}`, "[{x=5} {a=0}]"},
	}
	for _, cse := range cases {
		c := e.newCtx()
		z := absint.Zero(t).(*absint.Struct)
		f := append([]absint.Val(nil), z.F...)
		for i := 0; i < st.NumFields(); i++ {
			switch st.Field(i).Name() {
			case "VarRef":
				f[i] = e.nameVal("x")
			case "Value":
				f[i] = &child{name: "value"}
			}
		}
		res, end := c.in.Run(fn, []absint.Val{&absint.Struct{T: t, F: f}, e.mkTable(c.in, cse.scopes)})
		key := "node.Assign.STRewrite / " + cse.what
		if end != nil {
			e.s.Unk("S3", key, pos, "could not be evaluated: "+end.Error())
			continue
		}
		got := e.render(res)
		if got == cse.want {
			e.s.OK("S3", key, pos, got)
		} else {
			e.s.Bad("S3", key, pos, fmt.Sprintf("an assignment inside a function creates or updates that function's own variable, and its right-hand side is resolved before the name is registered (the name is not visible in its own initialiser); expected %s, got %s", cse.want, got))
		}
	}
}

// forLoop (S3): loop variables are the function's own, registered after the
// iterators are rewritten and before the body is.
func (e *eng) forLoop() {
	t := e.sp.Pkg.Scope().Lookup("For").Type()
	fn := e.method(t)
	if fn == nil {
		e.s.Unk("S3", "node.For.STRewrite", "-", "method not found")
		return
	}
	pos := e.p.Pos(fn.Pos())
	st := t.Underlying().(*types.Struct)
	mkN := func(in *absint.Interp, names []string) absint.Val {
		z := absint.Zero(t).(*absint.Struct)
		f := append([]absint.Val(nil), z.F...)
		for i := 0; i < st.NumFields(); i++ {
			switch st.Field(i).Name() {
			case "VarRefs":
				var vs []absint.Val
				for _, n := range names {
					vs = append(vs, e.nameVal(n))
				}
				f[i] = &absint.Struct{T: st.Field(i).Type(), F: []absint.Val{absint.NewSliceIn(in, e.nodeNm, vs)}}
			case "Iterators":
				var its []absint.Val
				for j := range names {
					its = append(its, &child{name: fmt.Sprintf("it%d", j)})
				}
				f[i] = &absint.Struct{T: st.Field(i).Type(), F: []absint.Val{absint.NewSliceIn(in, e.nodeNm, its)}}
			case "Body":
				f[i] = &child{name: "body"}
			}
		}
		return &absint.Struct{T: t, F: f}
	}
	mk := func(in *absint.Interp) absint.Val { return mkN(in, []string{"i", "a"}) }
	// every combination of loop variables that already exist in the function
	// and new ones (1..3 variables, one unrelated local before them): an
	// existing variable keeps its slot, a new one takes the next free slot at
	// the moment it is registered, so that slots stay dense and distinct
	for n := 1; n <= 3+e.deep; n++ {
		names := []string{"p", "q", "r", "s"}[:n]
		for mask := 0; mask < 1<<n; mask++ {
			scope := map[string]int64{"z": 0}
			var pre []string
			for j, nm := range names {
				if mask&(1<<j) != 0 {
					scope[nm] = int64(len(scope))
					pre = append(pre, nm)
				}
			}
			fmtScope := func(m map[string]int64) string {
				var ks []string
				for k := range m {
					ks = append(ks, k)
				}
				sort.Strings(ks)
				var out []string
				for _, k := range ks {
					out = append(out, fmt.Sprintf("%s=%d", k, m[k]))
				}
				return "{" + strings.Join(out, ",") + "}"
			}
			before := fmtScope(scope)
			final := map[string]int64{}
			for k, v := range scope {
				final[k] = v
			}
			var vr, its []string
			for j, nm := range names {
				if _, ok := final[nm]; !ok {
					final[nm] = int64(len(final))
				}
				vr = append(vr, fmt.Sprintf("Local{Ix:%d VarName:%q}", final[nm], nm))
				its = append(its, fmt.Sprintf("rw(it%d)@[%s]", j, before))
			}
			want := fmt.Sprintf("For{VarRefs:{Elems:[%s]} Iterators:{Elems:[%s]} Body:rw(body)@[%s]}", strings.Join(vr, ", "), strings.Join(its, ", "), fmtScope(final))
			key := fmt.Sprintf("node.For.STRewrite / %d loop variable(s), already local: [%s]", n, strings.Join(pre, " "))
			c := e.newCtx()
			res, end := c.in.Run(fn, []absint.Val{mkN(c.in, names), e.mkTable(c.in, []map[string]int64{scope})})
			if end != nil {
				e.s.Unk("S3", key, pos, "could not be evaluated: "+end.Error())
			} else if got := e.render(res); got == want {
				e.s.OK("S3", key, pos, got)
			} else {
				e.s.Bad("S3", key, pos, fmt.Sprintf("a loop variable that is already a local keeps its slot, a new one takes the next free slot (the size of the scope when it is registered): slots stay distinct and below LocalCnt; expected %s, got %s", want, got))
			}
		}
	}
	{
		c := e.newCtx()
		res, end := c.in.Run(fn, []absint.Val{mk(c.in), e.mkTable(c.in, nil)})
		key := "node.For.STRewrite / at global scope"
		want := `For{VarRefs:{Elems:[Name"i", Name"a"]} Iterators:{Elems:[rw(it0)@[], rw(it1)@[]]} Body:rw(body)@[]}`
		if end != nil {
			e.s.Unk("S3", key, pos, "could not be evaluated: "+end.Error())
		} else if got := e.render(res); got == want {
			e.s.OK("S3", key, pos, got)
		} else {
			e.s.Bad("S3", key, pos, fmt.Sprintf("expected %s, got %s", want, got))
		}
	}
	{
		c := e.newCtx()
		res, end := c.in.Run(fn, []absint.Val{mk(c.in), e.mkTable(c.in, []map[string]int64{{"a": 0}})})
		key := "node.For.STRewrite / in a function"
		// iterators see the table before the loop variables exist; the body sees them
		want := `For{VarRefs:{Elems:[Local{Ix:1 VarName:"i"}, Local{Ix:0 VarName:"a"}]} Iterators:{Elems:[rw(it0)@[{a=0}], rw(it1)@[{a=0}]]} Body:rw(body)@[{a=0,i=1}]}`
		if end != nil {
			e.s.Unk("S3", key, pos, "could not be evaluated: "+end.Error())
		} else if got := e.render(res); got == want {
			e.s.OK("S3", key, pos, got)
		} else {
			e.s.Bad("S3", key, pos, fmt.Sprintf("loop variables are the function's own variables (existing slot or next free one), the iterator expressions are resolved before they are registered and the body after; expected %s, got %s", want, got))
		}
	}
}

// function (S4): a function literal opens a scope holding its parameters at
// 0..n-1; parameters and body are rewritten in it; LocalCnt is the size of
// the scope after the body.
func (e *eng) function() {
	t := e.sp.Pkg.Scope().Lookup("Function").Type()
	fn := e.method(t)
	if fn == nil {
		e.s.Unk("S4", "node.Function.STRewrite", "-", "method not found")
		return
	}
	pos := e.p.Pos(fn.Pos())
	st := t.Underlying().(*types.Struct)
	c := e.newCtx()
	// the body registers one more local in the innermost scope it is given
	inner := c.in.Hooks.Invoke
	c.in.Hooks.Invoke = func(in *absint.Interp, recv absint.Val, m *types.Func, args []absint.Val, site ssa.Instruction) (absint.Val, bool) {
		r, ok := inner(in, recv, m, args, site)
		if ch, isC := recv.(*child); isC && ch.name == "body" {
			if tb, ok := args[0].(*absint.Slice); ok && tb.Len > 0 {
				if mp, ok := tb.Elems()[tb.Len-1].(*absint.Map); ok {
					mp.M[absint.Key(absint.MkString("bodyvar"))] = absint.MkInt(int64(len(mp.M)))
				}
			}
		}
		return r, ok
	}
	z := absint.Zero(t).(*absint.Struct)
	f := append([]absint.Val(nil), z.F...)
	for i := 0; i < st.NumFields(); i++ {
		switch st.Field(i).Name() {
		case "Parameters":
			f[i] = &absint.Struct{T: st.Field(i).Type(), F: []absint.Val{absint.NewSliceIn(c.in, e.nodeNm, []absint.Val{e.nameVal("p"), e.nameVal("q")})}}
		case "Body":
			f[i] = &child{name: "body"}
		}
	}
	outer := e.mkTable(c.in, []map[string]int64{{"o": 0}})
	res, end := c.in.Run(fn, []absint.Val{&absint.Struct{T: t, F: f}, outer})
	key := "node.Function.STRewrite / scope of a function literal"
	want := `Function{Parameters:{Elems:[Local{Ix:0 VarName:"p"}, Local{Ix:1 VarName:"q"}]} Body:rw(body)@[{o=0} {p=0,q=1}] LocalCnt:3}`
	if end != nil {
		e.s.Unk("S4", key, pos, "could not be evaluated: "+end.Error())
		return
	}
	got := e.render(res)
	if got == want {
		e.s.OK("S4", key, pos, got)
	} else {
		e.s.Bad("S4", key, pos, fmt.Sprintf("a function literal is rewritten in a new scope (pushed on the enclosing table) that holds its parameters at 0..n-1, and its LocalCnt is the size of that scope after the body was rewritten; expected %s, got %s", want, got))
	}
	// repeated parameter names: every parameter still owns its slot (the frame
	// has one slot per argument), so the scope the body sees has n entries with
	// the slots 0..n-1, the next new local takes slot n, and LocalCnt covers it
	for _, params := range [][]string{{"p", "p"}, {"p", "q", "p"}, {"p", "p", "p"}} {
		c2 := e.newCtx()
		var seen map[string]string
		inner2 := c2.in.Hooks.Invoke
		c2.in.Hooks.Invoke = func(in *absint.Interp, recv absint.Val, m *types.Func, args []absint.Val, site ssa.Instruction) (absint.Val, bool) {
			r, ok := inner2(in, recv, m, args, site)
			if ch, isC := recv.(*child); isC && ch.name == "body" {
				if tb, ok := args[0].(*absint.Slice); ok && tb.Len > 0 {
					if mp, ok := tb.Elems()[tb.Len-1].(*absint.Map); ok {
						seen = map[string]string{}
						for k, v := range mp.M {
							seen[k] = absint.Key(v)
						}
						mp.M[absint.Key(absint.MkString("bodyvar"))] = absint.MkInt(int64(len(mp.M)))
					}
				}
			}
			return r, ok
		}
		f2 := append([]absint.Val(nil), z.F...)
		for i := 0; i < st.NumFields(); i++ {
			switch st.Field(i).Name() {
			case "Parameters":
				var ps []absint.Val
				for _, n := range params {
					ps = append(ps, e.nameVal(n))
				}
				f2[i] = &absint.Struct{T: st.Field(i).Type(), F: []absint.Val{absint.NewSliceIn(c2.in, e.nodeNm, ps)}}
			case "Body":
				f2[i] = &child{name: "body"}
			}
		}
		res2, end2 := c2.in.Run(fn, []absint.Val{&absint.Struct{T: t, F: f2}, e.mkTable(c2.in, nil)})
		k := fmt.Sprintf("node.Function.STRewrite / repeated parameter names (%s): every argument slot stays owned", strings.Join(params, ", "))
		if end2 != nil {
			e.s.Unk("S4", k, pos, "could not be evaluated: "+end2.Error())
			continue
		}
		slots := map[string]bool{}
		for _, v := range seen {
			slots[v] = true
		}
		dense := len(seen) == len(params) && len(slots) == len(params)
		for i := range params {
			if !slots[fmt.Sprint(i)] {
				dense = false
			}
		}
		got2 := e.render(res2)
		if dense && strings.HasSuffix(got2, fmt.Sprintf("LocalCnt:%d}", len(params)+1)) {
			e.s.OK("S4", k, pos, fmt.Sprintf("body scope %v, %s", seen, got2[strings.LastIndex(got2, "LocalCnt"):]))
		} else {
			e.s.Bad("S4", k, pos, fmt.Sprintf("CALL pushes one slot per argument and PushFrame adds LocalCnt - ParamCnt more: with a repeated parameter name the scope must still hold %d entries occupying the slots 0..%d, so that the next local takes slot %d and LocalCnt >= ParamCnt; the body sees %v and the result is %s (a scope smaller than the parameter count makes the first new local share a parameter's slot and the frame shorter than its arguments: the return address is read as a variable)", len(params), len(params)-1, len(params), seen, got2))
		}
	}
	// the enclosing scope is not modified
	if d := tableDesc(outer); d != "[{o=0}]" {
		e.s.Bad("S4", "node.Function.STRewrite / enclosing scope untouched", pos, "rewriting a function literal changed the enclosing table to "+d)
	} else {
		e.s.OK("S4", "node.Function.STRewrite / enclosing scope untouched", pos, "the enclosing table is unchanged")
	}
}
