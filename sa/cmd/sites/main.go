package main

import (
	"fmt"
	"go/token"
	"os"
	"sort"
	"strings"

	"calcsa/load"

	"golang.org/x/tools/go/ssa"
	"golang.org/x/tools/go/ssa/ssautil"
)

func main() {
	p, err := load.Load(os.Args[1])
	if err != nil {
		panic(err)
	}
	var out []string
	for fn := range ssautil.AllFunctions(p.SSA) {
		if fn.Pkg == nil || !strings.HasPrefix(fn.Pkg.Pkg.Path(), load.ModPath) || fn.Blocks == nil || fn.Synthetic != "" {
			continue
		}
		for _, b := range fn.Blocks {
			for _, ins := range b.Instrs {
				switch x := ins.(type) {
				case *ssa.Panic:
					out = append(out, fmt.Sprintf("%s\tpanic\t%s\t%s", p.Pos(x.Pos()), p.FuncKey(fn), x.X))
				case *ssa.Call:
					if c := x.Call.StaticCallee(); c != nil && c.Pkg != nil {
						n := c.String()
						if strings.HasPrefix(n, "log.Panic") || strings.HasPrefix(n, "log.Fatal") || n == "os.Exit" {
							msg := ""
							if len(x.Call.Args) > 0 {
								msg = x.Call.Args[0].String()
							}
							out = append(out, fmt.Sprintf("%s\t%s\t%s\t%s", p.Pos(x.Pos()), n, p.FuncKey(fn), msg))
						}
					}
				case *ssa.TypeAssert:
					if !x.CommaOk {
						out = append(out, fmt.Sprintf("%s\tassert\t%s\t%s", p.Pos(x.Pos()), p.FuncKey(fn), x.AssertedType))
					}
				case *ssa.BinOp:
					if x.Op == token.QUO || x.Op == token.REM {
						if _, isC := x.Y.(*ssa.Const); !isC {
							out = append(out, fmt.Sprintf("%s\tdiv\t%s\t%s", p.Pos(x.Pos()), p.FuncKey(fn), x.Y.Type()))
						}
					}
				}
			}
		}
	}
	sort.Strings(out)
	for _, o := range out {
		fmt.Println(o)
	}
}
