package main

import (
	"fmt"
	"os"

	"calcsa/engines/vmshape"
	"calcsa/load"
	"calcsa/oblig"
)

func main() {
	p, err := load.Load(os.Args[1])
	if err != nil {
		fmt.Println(err)
		os.Exit(1)
	}
	s := oblig.NewSet()
	m := vmshape.Extract(p, s)
	for _, o := range s.Obls {
		fmt.Println(o)
	}
	for _, n := range s.Notes {
		fmt.Println("note:", n)
	}
	if m == nil {
		return
	}
	for _, op := range load.SortedKeys(m.Paths) {
		if len(os.Args) > 2 && os.Args[2] != op {
			continue
		}
		for i, pa := range m.Paths[op] {
			fmt.Printf("== %s path %d\n", op, i)
			for _, l := range pa.Describe() {
				fmt.Println("   ", l)
			}
			for k, v := range pa.Final {
				fmt.Printf("    final %s = %v\n", k, keyOf(v))
			}
			for k, c := range pa.Cells {
				fmt.Printf("    cell %s = %v\n", k, keyOf(c.V))
			}
		}
	}
}

func keyOf(v any) string { return absKey(v) }
