package main

import "calcsa/absint"

func absKey(v any) string { return absint.Key(v) }
