// Command calcsa decides the properties of /verif/properties.jsonl for the
// current source tree of paulsonkoly/calc by static analysis only.
//
//	calcsa -repo /repo -property C05 -tier quick
//
// exit 0: every obligation discharged (or listed as a known finding);
// exit 1: a VIOLATION line was printed (violated / undecided obligation, an
// unresolved anchor, a rule below its floor, a load or type-check failure, an
// analyser panic).
package main

import (
	"flag"
	"fmt"
	"os"
	"strings"

	"calcsa/props"
)

func main() {
	repo := flag.String("repo", "/repo", "repository to analyse")
	verif := flag.String("verif", "/verif", "verification directory (evidence, reports, known findings)")
	prop := flag.String("property", "", "property id (C01..C19), comma list, or 'all'")
	tier := flag.String("tier", "", "quick | thorough (default: $VERIF_TIER or quick)")
	list := flag.Bool("list", false, "list properties and their rules")
	manifest := flag.Bool("manifest", false, "print MANIFEST.json for the registered checks")
	engine := flag.String("engine", "", "debug: run one engine and print all its results")
	verbose := flag.Bool("v", false, "print every obligation")
	flag.Parse()

	if *tier == "" {
		*tier = os.Getenv("VERIF_TIER")
	}
	if *tier != "thorough" {
		*tier = "quick"
	}
	if *manifest {
		var all []string
		for i := 1; i <= 19; i++ {
			all = append(all, fmt.Sprintf("C%02d", i))
		}
		props.WriteManifest(os.Stdout, all)
		return
	}
	if *engine != "" {
		os.Exit(props.RunEngine(props.Config{Repo: *repo, Verif: *verif, Tier: *tier, Verbose: *verbose}, *engine))
	}
	if *list {
		props.List(os.Stdout)
		return
	}
	if *prop == "" {
		fmt.Fprintln(os.Stderr, "calcsa: -property required")
		os.Exit(2)
	}
	ids := strings.Split(*prop, ",")
	if *prop == "all" {
		ids = props.IDs()
	}
	rc := props.Run(props.Config{Repo: *repo, Verif: *verif, Tier: *tier, Verbose: *verbose}, ids)
	os.Exit(rc)
}
