package props

import (
	"encoding/json"
	"fmt"
	"io"
	"os"
	"sort"
	"strings"
)

// NotApplicable lists properties that are not claimed, with the reason.
var NotApplicable = map[string]string{}

// WriteManifest prints MANIFEST.json for the registered specs.
func WriteManifest(w io.Writer, allIDs []string) {
	type level struct {
		Category  string `json:"category"`
		Text      string `json:"text"`
		DesignRef string `json:"design_ref"`
	}
	type check struct {
		PropertyID   string `json:"property_id"`
		QuickCmd     string `json:"quick_cmd"`
		ThoroughCmd  string `json:"thorough_cmd"`
		EvidenceFile string `json:"evidence_file"`
		ReplayCmd    string `json:"replay_cmd_template"`
		Engine       string `json:"engine"`
		Level        level  `json:"level_claimed"`
		LevelNote    string `json:"level_note"`
		Technique    string `json:"technique"`
	}
	type na struct {
		PropertyID string `json:"property_id"`
		Reason     string `json:"reason"`
	}
	type engine struct {
		Name   string   `json:"name"`
		Path   string   `json:"path"`
		Serves []string `json:"serves_properties"`
		Kind   string   `json:"kind_free_text"`
	}
	m := map[string]any{
		"version":   1,
		"setup_cmd": "cd /verif/sa && GOFLAGS=-mod=mod GOPROXY=off GOSUMDB=off GOTOOLCHAIN=local GOWORK=off go build -o /verif/bin/calcsa ./cmd/calcsa",
		"hooks": map[string]any{
			"guard":            "verif",
			"enable":           "none: static analysis reads the source of /repo; no instrumentation exists, the build tag 'verif' guards nothing",
			"baseline_off_cmd": "cd /repo && go build ./... && go test -vet=off -count=1 ./...",
			"source_commits":   []string{},
			"add_only":         true,
		},
		"notes": "All checks are static analyses (go/packages + go/types + go/ssa abstract interpretation, path and provenance rules) of the current /repo tree; nothing of calc is executed by a check. See DESIGN.md. Known findings: known_findings.json.",
	}
	var checks []check
	serves := map[string][]string{}
	for _, id := range IDs() {
		s := specs[id]
		engs := map[string]bool{}
		var en []string
		rules := []string{}
		for _, r := range s.Rules {
			if !engs[r.Engine] {
				engs[r.Engine] = true
				en = append(en, r.Engine)
				serves[r.Engine] = append(serves[r.Engine], id)
			}
			rules = append(rules, r.Rule)
		}
		checks = append(checks, check{
			PropertyID:   id,
			QuickCmd:     fmt.Sprintf("/verif/tools/check.sh %s quick", id),
			ThoroughCmd:  fmt.Sprintf("/verif/tools/check.sh %s thorough", id),
			EvidenceFile: fmt.Sprintf("/verif/evidence/%s.json", id),
			ReplayCmd:    "/verif/tools/replay.sh {path}",
			Engine:       strings.Join(en, "+"),
			Level: level{
				Category:  "other",
				Text:      "Structural necessary conditions of the property, decided for all programs/inputs by static analysis of the source: " + s.Decides + " Not decided: " + s.NotDecided,
				DesignRef: "DESIGN.md section 5, " + id,
			},
			LevelNote: "trusted base: go/types and go/ssa (x/tools v0.29.0), Go semantics of slices/append/integers, the reference tables written into the checker from Readme.md and the property text; " + strings.Join(s.Assumptions, "; "),
			Technique: s.technique() + " (rules " + strings.Join(rules, ",") + ")",
		})
	}
	m["checks"] = checks
	var engs []engine
	for name := range engines {
		sort.Strings(serves[name])
		engs = append(engs, engine{Name: name, Path: "/verif/sa/engines/" + name, Serves: serves[name], Kind: engineKinds[name]})
	}
	sort.Slice(engs, func(i, j int) bool { return engs[i].Name < engs[j].Name })
	m["engines"] = engs
	var nas []na
	for _, id := range allIDs {
		if specs[id] == nil {
			r := NotApplicable[id]
			if r == "" {
				r = "no sound static rule built yet for this property"
			}
			nas = append(nas, na{id, r})
		}
	}
	if nas == nil {
		nas = []na{}
	}
	m["not_applicable"] = nas
	enc := json.NewEncoder(w)
	enc.SetIndent("", " ")
	enc.SetEscapeHTML(false)
	if err := enc.Encode(m); err != nil {
		fmt.Fprintln(os.Stderr, err)
	}
}

var engineKinds = map[string]string{}

func (s *Spec) technique() string {
	if s.Technique != "" {
		return s.Technique
	}
	return "static analysis of the SSA form"
}
