package props

import (
	"fmt"
	"go/token"
	"sort"
	"strings"

	"calcsa/load"
	"calcsa/oblig"

	"golang.org/x/tools/go/ssa"
	"golang.org/x/tools/go/ssa/ssautil"
)

// The abort inventory (C05): every way the host process can die — explicit
// panics, log.Panic*/log.Fatal*, os.Exit, unchecked type assertions, integer
// division by a non-constant — in every package of the module. Each site must
// be discharged by a named argument: a rule of another engine that shows the
// site unreachable (the engine reports a violation whenever its exhaustive
// abstract exploration reaches an abort), a documented behaviour, or an
// environment failure outside "programs the parser accepts".

type discharge struct {
	fn     string   // function key (prefix match when it ends in '*')
	msg    string   // substring of the panic message / asserted type ("" = any)
	kinds  string   // site kinds this entry applies to ("" = any)
	via    []string // engine:rule that must hold
	reason string
	doc    bool // documented behaviour / environment: no rule needed
	known  bool // reachable, reported as (known) finding
}

var dischargeTable = []discharge{
	{fn: "(parser.tokenWrapper).Wrap", via: []string{"grammar:G4", "txn:X6"}, reason: "Wrap evaluated for every token kind the grammar accepts; tokens are token.Type values handed out by the transactional lexer"},
	{fn: "parser.Parse", via: []string{"grammar:G4"}, reason: "program yields only node.Type results"},
	{fn: "parser.forLoop", via: []string{"grammar:G4"}, reason: "both lists are results of mkList"},
	{fn: "parser.acceptTerm$1", via: []string{"txn:X6"}, reason: "the only Token implementation handed to the parser is token.Type (TLexer.Token)"},
	{fn: "parser.acceptToken$1", via: []string{"txn:X6"}, reason: "see acceptTerm"},
	{fn: "parser.varName$1", via: []string{"txn:X6"}, reason: "see acceptTerm"},
	{fn: "parser.*", via: []string{"grammar:G4"}, reason: "every transformer (with the helpers it calls) was evaluated on every shape its grammar rule produces; an arity panic or failed assertion would have been reported"},
	{fn: "(parser.*", kinds: "assert", msg: "token.Type", via: []string{"txn:X6"}, reason: "a token predicate written as a method: the only Token implementation handed to the parser is token.Type (TLexer.Token)"},
	{fn: "(*parser.*", kinds: "assert", msg: "token.Type", via: []string{"txn:X6"}, reason: "see above"},
	{fn: "(parser.*", via: []string{"grammar:G4"}, reason: "methods of package parser are evaluated with the transformers and wrappers that call them"},
	{fn: "(*parser.*", via: []string{"grammar:G4"}, reason: "see above"},
	{fn: "combinator.Choose$1", via: []string{"grammar:G2"}, reason: "every Choose of the grammar ends in an alternative that cannot fail"},
	{fn: "combinator.OneOf", via: []string{"grammar:G5"}, reason: "every constructor call of the grammar was evaluated with its actual arguments"},
	{fn: "combinator.Seq", via: []string{"grammar:G5"}, reason: "every constructor call of the grammar was evaluated with its actual arguments"},
	{fn: "lexer.eof", via: []string{"lexfsm:L2", "lexfsm:N7"}, reason: "the end-of-input state is entered only at the end of input and never called"},
	{fn: "types/bytecode.*", msg: "srcAddr out of range", known: true, reason: "reachable by program size: the limit is enforced by panic"},
	{fn: "types/bytecode.*", msg: "wrong srcsel", via: []string{"bcai:B1"}, reason: "every operand selector in the compiler is a constant 0..2"},
	{fn: "(types/bytecode.Type).Src", via: []string{"bcai:B1"}, reason: "Src is called with selectors 0 and 1 only"},
	{fn: "(types/node.For).byteCode", via: []string{"bcai:B1", "bcai:B2", "grammar:G7"}, reason: "loops are explored with as many variables as iterators; the parser refuses every other loop (G7), so the count mismatch panic is unreachable"},
	{fn: "(types/node.*).byteCode", via: []string{"bcai:B1", "bcai:B2"}, reason: "never reached in the exhaustive exploration of the compiler (a reached panic is reported as B0)"},
	{fn: "(types/node.*).STRewrite", via: []string{"strw:S1", "strw:S3", "strw:S4", "pipeline:P2"}, reason: "every STRewrite method evaluated; parser output contains no Local/Closure and trees are rewritten exactly once"},
	{fn: "(*types/value.Type).SetFrame", via: []string{"vmshape:V7", "vmshape:V13", "bcai:B10"}, reason: "FUNC operands are function constants; RET calls it under ToFunction ok"},
	{fn: "(types/value.Type).String", via: []string{"valtab:A7"}, reason: "String evaluated for every kind"},
	{fn: "(types/value.Type).Index", via: []string{"valtab:A1"}, reason: "never reached in the operator table exploration"},
	{fn: "(types/value.Type).Mod", via: []string{"valtab:A2"}, reason: "divisor excluded from zero on the path"},
	{fn: "types/value.builtinArith*", via: []string{"valtab:A1", "valtab:A2"}, reason: "called with the opcodes the VM passes only; divisor guarded"},
	{fn: "types/value.builtinRelational*", via: []string{"valtab:A1"}, reason: "called with the opcodes the VM passes only"},
	{fn: "(types/value.Type).*", via: []string{"valtab:A1", "valtab:A2", "valtab:A7"}, reason: "every operator and renderer method is evaluated on every kind (pair); a reached abort is reported"},
	{fn: "types/value.*", via: []string{"valtab:A1", "valtab:A2", "valtab:A7"}, reason: "helpers of the operator methods are interpreted with them"},
	{fn: "@vm", msg: "unknown global", via: []string{"bcai:B10"}, reason: "global operands address string constants"},
	{fn: "@vm", msg: "unexpected dst", via: []string{"bcai:B1"}, reason: "destination kinds emitted are accepted"},
	{fn: "@vm", msg: "cannot convert", via: []string{"bcai:B10", "bcai:B2"}, reason: "ARR's array operand is an array constant or the result of a previous ARR"},
	{fn: "@vm", msg: "can't pop instruc", via: []string{"vmshape:V7", "own:O8"}, reason: "CALL pushes an int right after PushFrame at the slot IP reads"},
	{fn: "@vm", msg: "context not found", via: []string{"bcai:B8"}, reason: "SCONT ids are created by a CCONT of the same loop"},
	{fn: "@vm", msg: "unknown opcode", via: []string{"bcai:T1", "vmshape:T1"}, reason: "every emitted opcode has a handler"},
	{fn: "@vm", kinds: "os.Exit", doc: true, reason: "documented behaviour of the exit builtin"},
	{fn: "@vm", kinds: "assert", msg: "vm.context", via: []string{"vmshape:V8"}, reason: "the free list only ever receives *context values (deleteContext)"},
	{fn: "(*vm.Type).fetch", via: []string{"bcai:B1", "bcai:B10"}, reason: "operand kinds emitted are fetchable; global operands address strings"},
	{fn: "cmd/calc.*", doc: true, reason: "start-up code of the command (flags, profile files): environment failure, not a program the parser accepts"},
	{fn: "types/node.NewRLReader", doc: true, reason: "terminal initialisation failure: environment"},
	{fn: "types/node.NewFReader", doc: true, reason: "unreadable script file: environment"},
}

func matchFn(pat, fn string) bool {
	if pat == "@vm" {
		// any function of package vm: the run loop, fetch, or a helper split off
		// them (the message and the discharging rules identify the site)
		return strings.HasPrefix(fn, "vm.") || strings.HasPrefix(fn, "(*vm.") || strings.HasPrefix(fn, "(vm.")
	}
	if strings.Contains(pat, "*") {
		parts := strings.SplitN(pat, "*", 2)
		return strings.HasPrefix(fn, parts[0]) && strings.HasSuffix(fn, parts[1])
	}
	return pat == fn
}

type abortSite struct {
	pos, kind, fn, msg string
}

func abortSites(p *load.Program) []abortSite {
	var out []abortSite
	for fn := range ssautil.AllFunctions(p.SSA) {
		if fn.Pkg == nil || !strings.HasPrefix(fn.Pkg.Pkg.Path(), load.ModPath) || fn.Blocks == nil || fn.Synthetic != "" {
			continue
		}
		if strings.Contains(p.Pos(fn.Pos()), "graphvizzer.go") {
			continue
		}
		fk := p.FuncKey(fn)
		for _, b := range fn.Blocks {
			for _, ins := range b.Instrs {
				switch x := ins.(type) {
				case *ssa.Panic:
					out = append(out, abortSite{p.Pos(x.Pos()), "panic", fk, x.X.String()})
				case *ssa.Call:
					if c := x.Call.StaticCallee(); c != nil && c.Pkg != nil {
						n := c.String()
						if strings.HasPrefix(n, "log.Panic") || strings.HasPrefix(n, "log.Fatal") || n == "os.Exit" {
							msg := ""
							if len(x.Call.Args) > 0 {
								msg = x.Call.Args[0].String()
							}
							k := n
							if n != "os.Exit" {
								k = "log"
							}
							out = append(out, abortSite{p.Pos(x.Pos()), k, fk, msg})
						}
					}
				case *ssa.TypeAssert:
					if !x.CommaOk {
						out = append(out, abortSite{p.Pos(x.Pos()), "assert", fk, x.AssertedType.String()})
					}
				case *ssa.BinOp:
					if x.Op == token.QUO || x.Op == token.REM {
						if _, isC := x.Y.(*ssa.Const); !isC {
							if b, ok := x.Y.Type().Underlying().(interface{ Info() int }); ok {
								_ = b
							}
							if isIntegerType(x.Y) {
								out = append(out, abortSite{p.Pos(x.Pos()), "div", fk, "integer division"})
							}
						}
					}
				}
			}
		}
	}
	sort.Slice(out, func(i, j int) bool { return out[i].pos+out[i].kind+out[i].msg < out[j].pos+out[j].kind+out[j].msg })
	return out
}

func isIntegerType(v ssa.Value) bool {
	s := v.Type().Underlying().String()
	return strings.HasPrefix(s, "int") || strings.HasPrefix(s, "uint") || s == "t" || strings.Contains(s, "int |")
}

// abortRun is the engine function of the inventory.
func abortRun(p *load.Program, tier string) *oblig.Set {
	s := oblig.NewSet()
	sites := abortSites(p)
	s.Count("abort_sites", len(sites))
	// status of (engine, rule)
	type st struct{ n, bad int }
	status := map[string]st{}
	ruleStatus := func(er string) st {
		if v, ok := status[er]; ok {
			return v
		}
		parts := strings.SplitN(er, ":", 2)
		e := engines[parts[0]]
		var v st
		if e != nil {
			res := e.result(p, tier)
			for _, o := range res.Obls {
				if o.Rule == parts[1] || o.Rule == "PANIC" || o.Rule == "ANCHOR" || (parts[0] == "bcai" && o.Rule == "B0") {
					v.n++
					if o.Verdict != oblig.Discharged {
						v.bad++
					}
				}
			}
		}
		status[er] = v
		return v
	}
	ord := map[string]int{}
	for _, site := range sites {
		ord[site.fn+"|"+site.kind]++
		key := fmt.Sprintf("%s / %s #%d", site.fn, site.kind, ord[site.fn+"|"+site.kind])
		var d *discharge
		for i := range dischargeTable {
			t := &dischargeTable[i]
			if !matchFn(t.fn, site.fn) {
				continue
			}
			if t.msg != "" && !strings.Contains(site.msg, t.msg) {
				continue
			}
			if t.kinds != "" && t.kinds != site.kind {
				continue
			}
			d = t
			break
		}
		switch {
		case d == nil:
			s.Unk("C5", key, site.pos, fmt.Sprintf("a way to abort the interpreter (%s: %s) that no argument discharges: show it unreachable for parseable programs, or turn it into a calc runtime error", site.kind, short(site.msg)))
		case d.doc:
			s.OK("C5", key, site.pos, "documented / environment: "+d.reason)
		case d.known:
			// a recorded finding is identified by what aborts (package and
			// message), not by the name of the function the panic stands in
			kk := fmt.Sprintf("%s / %s %q", pkgOfFn(site.fn), site.kind, d.msg)
			s.Bad("C5", kk, site.pos, "reachable abort: "+d.reason)
		default:
			var failed []string
			for _, er := range d.via {
				v := ruleStatus(er)
				if v.n == 0 || v.bad > 0 {
					failed = append(failed, fmt.Sprintf("%s (%d obligations, %d not discharged)", er, v.n, v.bad))
				}
			}
			if len(failed) == 0 {
				s.OK("C5", key, site.pos, "unreachable: "+d.reason+" ["+strings.Join(d.via, ", ")+"]")
			} else {
				s.Bad("C5", key, site.pos, "the argument that makes this abort unreachable does not hold: "+d.reason+"; failing: "+strings.Join(failed, "; "))
			}
		}
	}
	return s
}

// pkgOfFn: "types/bytecode.EncodeSrc" -> "types/bytecode", "(*vm.Type).Run" -> "vm".
func pkgOfFn(fn string) string {
	fn = strings.TrimLeft(fn, "(*")
	if i := strings.Index(fn, "."); i > 0 {
		return fn[:i]
	}
	return fn
}

func short(s string) string {
	if len(s) > 80 {
		return s[:77] + "..."
	}
	return s
}
