// Package props maps each property to the rules that decide (clauses of) it,
// runs the engines, compares against the known-findings file and writes the
// evidence and report files.
package props

import (
	"encoding/json"
	"fmt"
	"io"
	"os"
	"path/filepath"
	"runtime/debug"
	"sort"
	"strconv"
	"strings"
	"sync"
	"time"

	"calcsa/absint"
	"calcsa/load"
	"calcsa/oblig"
)

type Config struct {
	Repo, Verif, Tier string
	Verbose           bool
}

// Engine is one analysis; its result is computed at most once per process.
type Engine struct {
	Name string
	Run  func(p *load.Program, tier string) *oblig.Set

	once sync.Once
	res  *oblig.Set
	wall float64
}

// RuleRef selects obligations of an engine by rule id (exact) and gives the
// floor: the number of instances confirmed by hand on the reference tree.
type RuleRef struct {
	Engine string
	Rule   string
	Floor  int
	Clause string // which clause of the property this rule is a necessary condition of
}

type Spec struct {
	ID          string
	Title       string
	Rules       []RuleRef
	Decides     string
	NotDecided  string
	Assumptions []string
	Technique   string
}

var engines = map[string]*Engine{}
var specs = map[string]*Spec{}

func RegisterEngine(e *Engine) { engines[e.Name] = e }
func RegisterSpec(s *Spec)     { specs[s.ID] = s }

func IDs() []string {
	var ids []string
	for id := range specs {
		ids = append(ids, id)
	}
	sort.Strings(ids)
	return ids
}

func List(w io.Writer) {
	for _, id := range IDs() {
		s := specs[id]
		fmt.Fprintf(w, "%s %s\n", id, s.Title)
		for _, r := range s.Rules {
			fmt.Fprintf(w, "    %-10s %-8s floor=%d  %s\n", r.Engine, r.Rule, r.Floor, r.Clause)
		}
	}
}

func (e *Engine) result(p *load.Program, tier string) (res *oblig.Set) {
	e.once.Do(func() {
		t0 := time.Now()
		defer func() {
			if r := recover(); r != nil {
				s := oblig.NewSet()
				s.Unk("PANIC", "engine "+e.Name, "-", fmt.Sprintf("analyser panic: %v", r), strings.Split(string(debug.Stack()), "\n")...)
				e.res = s
			}
			e.wall = time.Since(t0).Seconds()
		}()
		// an engine that does not come back is an incomplete analysis, not a
		// hanging check: give up on it after a generous budget
		budget := 8 * time.Minute
		if tier == "thorough" {
			budget = 40 * time.Minute
		}
		if v := os.Getenv("CALCSA_ENGINE_BUDGET_S"); v != "" {
			if n, err := strconv.Atoi(v); err == nil && n > 0 {
				budget = time.Duration(n) * time.Second
			}
		}
		done := make(chan *oblig.Set, 1)
		go func() {
			defer func() {
				if r := recover(); r != nil {
					s := oblig.NewSet()
					s.Unk("PANIC", "engine "+e.Name, "-", fmt.Sprintf("analyser panic: %v", r), strings.Split(string(debug.Stack()), "\n")...)
					done <- s
				}
			}()
			done <- e.Run(p, tier)
		}()
		select {
		case r := <-done:
			e.res = r
		case <-time.After(budget):
			s := oblig.NewSet()
			s.Unk("PANIC", "engine "+e.Name, "-", fmt.Sprintf("the engine did not finish within %s: the analysis of the current tree is incomplete (a loop or path explosion the engine does not bound)", budget))
			e.res = s
		}
	})
	return e.res
}

type evidence struct {
	PropertyID  string         `json:"property_id"`
	Tier        string         `json:"tier"`
	Seed        int            `json:"seed"`
	Level       string         `json:"level"`
	Coverage    map[string]any `json:"coverage"`
	Assumptions []string       `json:"assumptions"`
	WallS       float64        `json:"wall_s"`
	Violations  int            `json:"violations"`
}

type report struct {
	Property    string             `json:"property"`
	Tier        string             `json:"tier"`
	Repo        string             `json:"repo"`
	Obligations []oblig.Obligation `json:"obligations"`
	Known       []string           `json:"known_findings_matched"`
	Floors      []string           `json:"floor_failures"`
	Notes       []string           `json:"notes"`
}

// Run decides the given properties; returns the process exit code.
func Run(cfg Config, ids []string) int {
	t0 := time.Now()
	seed, _ := strconv.Atoi(os.Getenv("VERIF_SEED"))
	rc := 0

	for _, id := range ids {
		if specs[id] == nil {
			fmt.Printf("calcsa: unknown property %s\n", id)
			return 2
		}
	}

	absint.DefaultModule = load.ModPath
	prog, err := load.Load(cfg.Repo)
	if err != nil {
		// a tree that does not load cannot be shown to satisfy anything
		for _, id := range ids {
			rp := filepath.Join(cfg.Verif, "reports", id+"-"+cfg.Tier+".json")
			writeJSON(rp, map[string]any{"property": id, "error": err.Error()})
			fmt.Printf("%s: cannot load %s: %v\n", id, cfg.Repo, err)
			fmt.Printf("VIOLATION property=%s replay=%s\n", id, rp)
			writeEvidence(cfg, id, seed, time.Since(t0).Seconds(), map[string]any{
				"explanation": "load / type-check of the repository failed; nothing was decided: " + err.Error(),
				"obligations": 0, "discharged": 0,
			}, nil, 1)
		}
		return 1
	}
	if len(prog.All) < 15 {
		fmt.Printf("calcsa: only %d packages loaded, expected at least 15\n", len(prog.All))
	}

	kf, err := oblig.LoadFindings(filepath.Join(cfg.Verif, "known_findings.json"))
	if err != nil {
		fmt.Printf("calcsa: %v\n", err)
		kf = &oblig.FindingsFile{}
	}

	for _, id := range ids {
		tp := time.Now()
		s := specs[id]
		var obls []oblig.Obligation
		var notes []string
		var floors []string
		stats := map[string]int{}
		perRule := map[string][3]int{}
		seenEngine := map[string]bool{}
		for _, r := range s.Rules {
			e := engines[r.Engine]
			if e == nil {
				floors = append(floors, fmt.Sprintf("engine %s not registered (rule %s)", r.Engine, r.Rule))
				continue
			}
			res := e.result(prog, cfg.Tier)
			if !seenEngine[r.Engine] {
				seenEngine[r.Engine] = true
				for _, n := range res.Notes {
					notes = append(notes, r.Engine+": "+n)
				}
				for k, v := range res.Stats {
					stats[r.Engine+"."+k] += v
				}
				// engine-level failures (panic, unresolved anchors, paths the
				// engine could not evaluate) always count: every rule of the
				// engine is only as complete as its exploration
				for _, o := range res.Obls {
					if o.Rule == "PANIC" || o.Rule == "ANCHOR" || o.Rule == "B0" || o.Verdict == oblig.Undecided {
						obls = append(obls, o)
					}
				}
			}
			n := 0
			for _, o := range res.Obls {
				if o.Rule == r.Rule {
					obls = append(obls, o)
					n++
					c := perRule[r.Rule]
					switch o.Verdict {
					case oblig.Discharged:
						c[0]++
					case oblig.Violated:
						c[1]++
					default:
						c[2]++
					}
					perRule[r.Rule] = c
				}
			}
			if n < r.Floor {
				floors = append(floors, fmt.Sprintf("rule %s (%s) matched %d construct(s), floor is %d: the rule lost its anchors", r.Rule, r.Engine, n, r.Floor))
			}
		}
		// de-duplicate (a rule may be listed once per property only, but engine-level entries repeat)
		obls = dedup(obls)
		oblig.SortObls(obls)

		var known []string
		nviol := 0
		ndis := 0
		for _, o := range obls {
			switch o.Verdict {
			case oblig.Discharged:
				ndis++
				if cfg.Verbose {
					fmt.Printf("  ok   %s: %s: %s: %s\n", o.Pos, o.Rule, o.Key, o.Detail)
				}
			default:
				if f, ok := kf.Known(id, o.Rule, o.Key); ok {
					known = append(known, o.ID())
					fmt.Printf("KNOWN-FINDING: property=%s %s: %s [%s / %s]\n", id, o.Pos, f.What, o.Rule, o.Key)
					continue
				}
				nviol++
				fmt.Printf("%s: %s: %s: %s: %s\n", o.Pos, o.Rule, o.Verdict, o.Key, o.Detail)
				for i, w := range o.Witness {
					if i >= 12 {
						fmt.Printf("      ... (%d more lines in the report)\n", len(o.Witness)-i)
						break
					}
					fmt.Printf("      %s\n", w)
				}
			}
		}
		for _, f := range floors {
			fmt.Printf("%s: %s\n", id, f)
		}
		rp := filepath.Join(cfg.Verif, "reports", id+"-"+cfg.Tier+".json")
		writeJSON(rp, report{Property: id, Tier: cfg.Tier, Repo: cfg.Repo, Obligations: obls, Known: known, Floors: floors, Notes: notes})

		bad := nviol + len(floors)
		// evidence
		rulesApplied := []string{}
		for _, r := range s.Rules {
			c := perRule[r.Rule]
			rulesApplied = append(rulesApplied, fmt.Sprintf("%s[%s]: %d discharged, %d violated, %d undecided (floor %d) — %s", r.Rule, r.Engine, c[0], c[1], c[2], r.Floor, r.Clause))
		}
		distinct := map[string]bool{}
		for _, o := range obls {
			distinct[o.ID()] = true
		}
		samples := sampleObls(obls, seed, 8)
		cov := map[string]any{
			"explanation": fmt.Sprintf("Static analysis of the current source of %s (go/packages + go/types + go/ssa; nothing of calc is executed). DECIDES: %s NOT DECIDED: %s", cfg.Repo, s.Decides, s.NotDecided),
			"rule":        "one evaluation = one rule applied to one construct of the current source (obligation); distinct = distinct (rule, construct-key) pairs; every obligation counted had a real instance in the source",
			"obligations": len(obls), "discharged": ndis + len(known),
			"evaluations": len(obls), "distinct_nontrivial": len(distinct),
			"known_findings_matched": known,
			"rules_applied":          rulesApplied,
			"samples":                samples,
			"packages_analysed":      len(prog.All),
			"functions_analysed":     prog.NFuncs,
			"ssa_instructions":       prog.NInstrs,
			"engine_stats":           stats,
			"engine_notes":           notes,
			"checker_cmd":            fmt.Sprintf("/verif/bin/calcsa -repo %s -property %s -tier %s", cfg.Repo, id, cfg.Tier),
			"trusted_base":           []string{"go/types and go/ssa of golang.org/x/tools v0.29.0", "Go language semantics of slices, append, integer arithmetic", "the per-rule reference tables written into the checker from Readme.md and the property text"},
			"exhaustive":             false,
			"floor_failures":         floors,
		}
		writeEvidence(cfg, id, seed, time.Since(tp).Seconds(), cov, s.Assumptions, bad)

		if bad > 0 {
			fmt.Printf("VIOLATION property=%s replay=%s\n", id, rp)
			rc = 1
		} else {
			fmt.Printf("%s: %d obligations, all discharged (%d known finding(s)); %.1fs\n", id, len(obls), len(known), time.Since(tp).Seconds())
		}
	}
	return rc
}

func dedup(o []oblig.Obligation) []oblig.Obligation {
	seen := map[string]bool{}
	var out []oblig.Obligation
	for _, x := range o {
		k := x.ID() + "|" + x.Pos + "|" + string(x.Verdict) + "|" + x.Detail
		if seen[k] {
			continue
		}
		seen[k] = true
		out = append(out, x)
	}
	return out
}

func sampleObls(obls []oblig.Obligation, seed, n int) []any {
	var out []any
	if len(obls) == 0 {
		return []any{"no obligation instances"}
	}
	// non-discharged first, then a rotation chosen by the seed
	for _, o := range obls {
		if o.Verdict != oblig.Discharged && len(out) < n {
			out = append(out, o)
		}
	}
	if seed < 0 {
		seed = -seed
	}
	step := len(obls)/n + 1
	for i := seed % step; i < len(obls) && len(out) < n; i += step {
		out = append(out, obls[i])
	}
	return out
}

func writeEvidence(cfg Config, id string, seed int, wall float64, cov map[string]any, assumptions []string, viol int) {
	if assumptions == nil {
		assumptions = []string{}
	}
	ev := evidence{PropertyID: id, Tier: cfg.Tier, Seed: seed, Level: "other", Coverage: cov, Assumptions: assumptions, WallS: wall, Violations: viol}
	writeJSON(filepath.Join(cfg.Verif, "evidence", id+".json"), ev)
}

func writeJSON(path string, v any) {
	_ = os.MkdirAll(filepath.Dir(path), 0o755)
	b, err := json.MarshalIndent(v, "", " ")
	if err != nil {
		fmt.Printf("calcsa: cannot encode %s: %v\n", path, err)
		return
	}
	if err := os.WriteFile(path, append(b, '\n'), 0o644); err != nil {
		fmt.Printf("calcsa: %v\n", err)
	}
}

// RunEngine runs one engine and prints everything it produced (debugging aid).
func RunEngine(cfg Config, name string) int {
	e := engines[name]
	if e == nil {
		fmt.Println("unknown engine", name)
		return 2
	}
	absint.DefaultModule = load.ModPath
	prog, err := load.Load(cfg.Repo)
	if err != nil {
		fmt.Println(err)
		return 1
	}
	res := e.result(prog, cfg.Tier)
	kf, _ := oblig.LoadFindings(filepath.Join(cfg.Verif, "known_findings.json"))
	cnt := map[string][3]int{}
	obls := append([]oblig.Obligation(nil), res.Obls...)
	oblig.SortObls(obls)
	for _, o := range obls {
		c := cnt[o.Rule]
		switch o.Verdict {
		case oblig.Discharged:
			c[0]++
		case oblig.Violated:
			c[1]++
		default:
			c[2]++
		}
		cnt[o.Rule] = c
		if kf != nil && o.Verdict != oblig.Discharged {
			known := false
			for _, f := range kf.Findings {
				if f.Status == "known" && f.Rule == o.Rule && f.Key == o.Key {
					known = true
				}
			}
			if known {
				fmt.Printf("%s: %s: known-finding: %s\n", o.Pos, o.Rule, o.Key)
				continue
			}
		}
		if o.Verdict != oblig.Discharged || cfg.Verbose {
			fmt.Printf("%s: %s: %s: %s: %s\n", o.Pos, o.Rule, o.Verdict, o.Key, o.Detail)
			if o.Verdict != oblig.Discharged {
				for i, w := range o.Witness {
					if i > 25 {
						break
					}
					fmt.Println("      " + w)
				}
			}
		}
	}
	for _, n := range res.Notes {
		fmt.Println("note:", n)
	}
	var rules []string
	for r := range cnt {
		rules = append(rules, r)
	}
	sort.Strings(rules)
	for _, r := range rules {
		fmt.Printf("rule %-6s discharged %4d violated %3d undecided %3d\n", r, cnt[r][0], cnt[r][1], cnt[r][2])
	}
	fmt.Printf("engine %s: %.1fs\n", name, e.wall)
	return 0
}
