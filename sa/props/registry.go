package props

import (
	"calcsa/engines/bcai"
	"calcsa/engines/builtins"
	"calcsa/engines/enc"
	"calcsa/engines/grammar"
	"calcsa/engines/lexfsm"
	"calcsa/engines/own"
	"calcsa/engines/pipeline"
	"calcsa/engines/strw"
	"calcsa/engines/txn"
	"calcsa/engines/valtab"
	"calcsa/engines/vmshape"
)

func init() {
	RegisterEngine(&Engine{Name: "lexfsm", Run: lexfsm.Run})
	engineKinds["lexfsm"] = "finite-automaton extraction by abstract interpretation of the lexer's SSA; symbolic effect of one Lexer.Next iteration"

	RegisterEngine(&Engine{Name: "abort", Run: abortRun})
	engineKinds["abort"] = "inventory of every abort site (panic, log.Panic/Fatal, os.Exit, unchecked assertion, integer division) with a per-site discharging argument taken from the other engines' verdicts"
	RegisterEngine(&Engine{Name: "builtins", Run: builtins.Run})
	engineKinds["builtins"] = "the builtin function trees, obtained by interpreting package builtin's initialiser, compared with the documented definitions"
	RegisterEngine(&Engine{Name: "bcai", Run: bcai.Run})
	engineKinds["bcai"] = "abstract interpretation of the compiler: every byteCode method over opaque children answered from tabulated summaries (node type x flag context x operand slot), code segment as item list with symbolic labels; stack, tmp and jump simulation of the emitted code"
	RegisterEngine(&Engine{Name: "enc", Run: enc.Run})
	engineKinds["enc"] = "bit-field decomposition of the symbolically evaluated encoder / decoder functions; writer and reader compared field by field"
	RegisterEngine(&Engine{Name: "own", Run: own.Run})
	engineKinds["own"] = "symbolic effects of every memory.Type method (fields, element stores, results) compared with the frame layout, growth and ownership rules"
	RegisterEngine(&Engine{Name: "pipeline", Run: pipeline.Run})
	engineKinds["pipeline"] = "must-pass-through and provenance rules on the drivers' SSA; node.Loop interpreted abstractly for two reads"
	RegisterEngine(&Engine{Name: "strw", Run: strw.Run})
	engineKinds["strw"] = "abstract interpretation of every STRewrite method with opaque children over symbol tables enumerating which scopes define a name"
	RegisterEngine(&Engine{Name: "grammar", Run: grammar.Run})
	engineKinds["grammar"] = "the grammar as data: parser definitions interpreted abstractly with combinator constructors as IR builders; nullable/first analysis, precedence table, transformer shapes"
	RegisterEngine(&Engine{Name: "txn", Run: txn.Run})
	engineKinds["txn"] = "typestate of Snapshot/Rollback/Commit on every path of every combinator closure against an abstract input; symbolic effect of the TLexer primitives"
	RegisterEngine(&Engine{Name: "valtab", Run: valtab.Run})
	engineKinds["valtab"] = "operator table of package value by abstract interpretation of every operator method over kind pairs with symbolic payloads; compared with the documented algebra"
	RegisterEngine(&Engine{Name: "vmshape", Run: vmshape.Run})
	engineKinds["vmshape"] = "per-opcode effect summaries of the VM dispatch loop by abstract interpretation of vm.Run over a symbolic machine state; protocol rules on the summaries"

	RegisterSpec(&Spec{
		ID: "C11", Title: "Operators obey the documented value algebra on every operand pair",
		Rules: []RuleRef{
			{"valtab", "A9", 1, "index errors are reported by the operator, never by the Go runtime"},
			{"valtab", "A1", 900, "every (operator, opcode, kind, kind) cell has exactly the documented cases: result kind, Go primitive applied, int->float promotion, error class; index bounds are exactly 0<=i<=j<=len / 0<=i<len"},
			{"valtab", "A2", 1, "an integer / or % is never executed with a divisor that may be zero"},
			{"valtab", "A3", 60, "== takes the same cases for (x,y) and (y,x); != is its negation on every cell"},
			{"valtab", "A5", 2, "out-of-range shift counts are errors"},
			{"valtab", "A6", 1, "no shift by a possibly negative signed count"},
			{"vmshape", "V3", 70, "the VM hands the operands to the operator in (left, right) order with the opcode of the instruction"},
			{"vmshape", "V5", 3, "the increment instruction applies the same '+' (Arith ADD with the integer 1) as the general form"},
			{"bcai", "B11", 25, "x + 1 is only compiled to the integer increment for the integer literal 1"},
			{"bcai", "B9", 25, "the operator receives the operand values the expression denotes: a left operand parked in the temp register is not overwritten before the operator reads it"},
			{"bcai", "B5", 25, "operands are compiled into the slots the operator reads them from, left as receiver"},
		},
		Technique:   "abstract interpretation of every operator method of package value over all kind pairs with symbolic payloads; the extracted case table is compared with the documented algebra written as data",
		Decides:     "for all operand values: which cases every operator distinguishes on every pair of operand kinds, the Go primitive and conversions applied in each, the error class of every other pair, the zero-divisor guard, symmetry of == and != as its negation, and the exact index bounds; the VM side binding of operands to receiver/argument.",
		NotDecided:  "floating point results, overflow wrap-around and NaN ordering (Go semantics, trusted); element-wise array comparison is summarised (the recursive call is not unfolded); the laws about lengths of slices and concatenations follow from Go's slice semantics and are not re-derived.",
		Assumptions: []string{"loops over array payloads are explored for 0 and 1 iterations, the recursive element comparison is treated as an opaque (bool, error) pair"},
	})
	RegisterSpec(&Spec{
		ID: "C15", Title: "Encodings are lossless and size limits are enforced, never wrapped",
		Rules: []RuleRef{
			{"bcai", "B3", 25, "a jump distance is the difference of two code positions, patched once into a single operand (no split or partial encodings)"},
			{"vmshape", "V18", 11, "the VM continues at ip + that one operand: encoder and decoder of jump distances agree"},
			{"own", "O5", 2, "a frame of any size gets its room before it is written"},
			{"own", "O5c", 2, "growth appends at least the requested size, whatever the size"},
			{"pipeline", "P7", 1, "a refused program ends the process: the operand-limit abort is never swallowed into a session that continues on half-compiled code"},
			{"vmshape", "V13", 2, "RET hands a returned function on with the same node, parameter count and local count: it is re-pointed at the copied frame, or rebuilt with the fields in NewFunction's parameter order"},
			{"enc", "E1", 9, "every instruction field is read back with the shift and width it was written with; fields are disjoint"},
			{"enc", "E2", 1, "the operand range the encoder accepts is the range the decoder can return"},
			{"enc", "E3", 55, "opcodes fit their field; base opcodes stay below the temp flag; every TMP opcode is TempFlag|base"},
			{"enc", "E4", 4, "every value packed into a narrower field is range checked first"},
			{"enc", "E5", 4, "a function value preserves entry point, parameter count and local count"},
			{"enc", "E6", 3, "the function value can count every local the instruction encoding can address"},
		},
		Technique:  "symbolic evaluation of the encoder/decoder functions (abstract interpretation over go/ssa), bit-field decomposition of the results, writer/reader comparison",
		Decides:    "decode(encode(x)) = x field by field for instructions and function values (as shift/mask algebra over the extracted fields), accepted operand range within the decodable range, opcode/flag packing, range checks before narrowing packs.",
		NotDecided: "that a refused program is refused gracefully (today by panic: counted under C05); jump patching (compiler side, B-rules).",
	})
	RegisterSpec(&Spec{
		ID: "C13", Title: "Backtracking is invisible: failed alternatives consume nothing",
		Rules: []RuleRef{
			{"grammar", "G9", 5, "a look-ahead gate commits only to an alternative that can start with what it saw: an ordered choice behaves like trying the alternatives in order"},
			{"txn", "X8", 10, "a failed alternative leaves nothing behind in the result either: its partial nodes are dropped with its input"},
			{"txn", "X1", 13, "every Snapshot is matched by exactly one Rollback/Commit on every path; never popped without being taken"},
			{"txn", "X2", 13, "when a failed sub-parser is swallowed (another alternative tried, or success returned) the input is back where it started"},
			{"txn", "X3", 13, "input consumed by a sub-parser whose result is returned is not rolled back"},
			{"txn", "X4", 2, "look-ahead combinators (Assert, Not) return with the input untouched on every path"},
			{"txn", "X5", 3, "Snapshot pushes the read position, Rollback restores and pops it, Commit only pops"},
			{"txn", "X6", 6, "after a rollback tokens, errors and spans are answered from the replay cache; Next caches exactly what the live lexer produced"},
		},
		Technique:  "typestate analysis by abstract interpretation of every combinator closure against an abstract transactional input (symbolic position, sub-parsers as unknown functions that fork into success/failure)",
		Decides:    "on every path through every combinator (sub-parsers unknown, up to 7 sub-parser calls per path, variadic combinators with 1-3 arguments): snapshot balance, rollback of swallowed failures, retention of consumed input on success, non-consumption of look-ahead; the exact effect of the three TLexer primitives and of its accessors and Next on the symbolic lexer state.",
		NotDecided: "the replay law of TLexer over arbitrary operation histories (an inductive invariant over readp/writep); equivalence with an ordered-choice recogniser on all token streams.",
	})
	RegisterSpec(&Spec{
		ID: "C18", Title: "Frames are isolated under any growth: a variable holds its last written value",
		Rules: []RuleRef{
			{"strw", "S2", 15, "a read resolves to the own frame, the immediately enclosing frame or the global: never to an index of a frame that is not captured"},
			{"vmshape", "O3", 1, "a captured frame is a live slice of the reallocating stack (known finding)"},
			{"vmshape", "V8", 60, "a destroyed context is unregistered where it is freed: no context is handed to two live iterators (which would share one stack)"},
			{"vmshape", "V16", 1, "a recycled context carries no children"},
			{"own", "O2", 12, "a forked / recycled memory shares no growable storage (closure stack, value stack, frame pointers) with its donor"},
			{"own", "O4", 8, "a recycled memory is extended to the length needed and not consulted while it holds stale state"},
			{"own", "O5", 2, "room is ensured before a slot at or above sp is written"},
			{"own", "O5c", 2, "growStack leaves the stack alone only below its length and appends at least the requested size"},
			{"own", "O8", 20, "frame layout: PushFrame writes (start, end), every reader uses the same pair; locals nil-initialised; clone copies the whole frame"},
			{"vmshape", "V7", 6, "CALL pushes frame, closure, return address; RET pops them symmetrically"},
			{"enc", "E6", 3, "the function value counts every local the encoding can address"},
			{"strw", "S3", 20, "two variables of a function never share a frame slot and every slot lies below LocalCnt: an existing variable keeps its slot, a new one (assignment or loop variable) takes the next free one"},
			{"strw", "S4", 2, "parameters take slots 0..n-1, LocalCnt is the size of the scope after the body"},
		},
		Technique:  "abstract interpretation of every memory.Type method over a symbolic memory; the symbolic effects (fields, element stores, copies) are compared with the frame layout and growth rules",
		Decides:    "for all sp / fp / stack contents: the effect of each memory operation on sp, fp, closure and stack, that room is ensured before writes above sp, that the frame pair written by PushFrame is the one every reader uses, that new locals are nil, that a clone owns its growable storage and receives the whole top frame, and that the VM's CALL/RET use these operations symmetrically.",
		NotDecided: "equivalence with a reference memory model over all operation histories; absence of index-out-of-range for local indices beyond LocalCnt (depends on the symbol table rewrite, S-rules).",
	})
	RegisterSpec(&Spec{
		ID: "C03", Title: "Functions are pure: same arguments, same result, whatever happened before",
		Rules: []RuleRef{
			{"valtab", "A10", 1, "array values are never written in place: a result cannot change because an earlier result sharing its storage was extended"},
			{"vmshape", "O1", 1, "array construction builds new values"},
			{"valtab", "A1", 900, "a result never shares storage with an operand or an earlier result (array + clones)"},
			{"vmshape", "O7", 2, "only MOV and INC write variables, locals through Set"},
			{"strw", "S3", 20, "assignments inside a function write its own variables, never an outer one"},
			{"vmshape", "V6", 50, "a resumed generator continues on its own memory"},
			{"vmshape", "V15", 1, "iterator contexts of different call depths or loops never collide"},
			{"bcai", "B9", 25, "no expression reads a temp register that another evaluation may have overwritten"},
			{"vmshape", "O3", 1, "the set of places where a live slice of the reallocating value stack is captured into a value"},
			{"vmshape", "V13", 2, "a returned function value gets a private copy of its captured frame before the frame is popped"},
			{"vmshape", "V7", 6, "FUNC captures the current frame; CALL/RET symmetric"},
			{"own", "O2", 12, "forked contexts own their closure stack and value stack"},
			{"own", "O4", 8, "recycled contexts are re-initialised and long enough"},
			{"own", "O8", 20, "new locals are nil-initialised whatever the stack held before"},
			{"vmshape", "V8", 60, "what a yield leaves on the stack does not depend on the dynamic context (enclosing loop or not)"},
			{"vmshape", "V16", 1, "a recycled iterator context is never shared by two live iterators"},
		},
		Technique:  "abstract interpretation of the VM handlers FUNC/CALL/RET and of memory.Clone/PushFrame; provenance of captured slices",
		Decides:    "only the storage mechanisms the property is anchored in: where captured aliases of the growing value stack originate (exactly one site, a known finding), that a function value is detached from the frame it was created on when it is returned, that recycled or forked memories cannot leak earlier state into a call (own storage, nil-initialised locals, full re-initialisation).",
		NotDecided: "purity itself (equal arguments give equal results over all histories): that is a statement about run-time aliasing after arbitrary growth, which no static rule here decides.",
	})
	RegisterSpec(&Spec{
		ID: "C10", Title: "Values are immutable: operations never alter operands or program constants",
		Rules: []RuleRef{
			{"valtab", "A10", 1, "no function of the module stores into, appends onto, copies into or clears the backing array of an array value"},
			{"own", "O8", 20, "memory.Top hands out the frame itself"},
			{"vmshape", "V7", 6, "function values capture a frame value of their own, not a shared header"},
			{"vmshape", "V12", 2, "a string returned by read() is a value of its own (ReadString copies out of the reader's buffer)"},
			{"bcai", "B10", 25, "constants of the data segment are typed operands, only read"},
			{"vmshape", "V5", 3, "INC builds a new value"},
			{"vmshape", "V3", 70, "every operator instruction applies the operator method of the checked table (no second, unchecked implementation is reachable from the VM)"},
			{"pipeline", "P6", 2, "the data segment, where program constants live, only ever grows: no constant is dropped or replaced while code that addresses it exists"},
			{"vmshape", "O1", 1, "ARR appends to a private copy of its array operand; no handler stores into the data segment or a payload"},
			{"valtab", "A1", 900, "array + array builds a new array from a clone of the left payload; slicing and indexing only read"},
		},
		Technique:  "symbolic effects of the VM handlers and of the value operators; the result expressions show whether a payload is cloned before it is appended to",
		Decides:    "the Go-level condition: every place where a new array is built from an existing payload (ARR, array concatenation) appends to a clone, indexing and slicing only read, and no instruction handler stores into the data segment or into a payload. calc has no element assignment, so these are the only ways a value could change.",
		NotDecided: "aliasing introduced through unsafe pointer arithmetic outside the payload accessors; the compiler's constant folding of array literals (B-rules).",
	})
	RegisterSpec(&Spec{
		ID: "C16", Title: "All three run modes execute the same program the same way",
		Rules: []RuleRef{
			{"own", "O6", 2, "memory.Reset really resets"},
			{"pipeline", "P11", 1, "every mode reports a parse error against the chunk it parsed"},
			{"pipeline", "P10", 1, "script mode and the REPL hand the statement loop lines in the same form (no terminator): a multi-line statement is the same text in both"},
			{"vmshape", "O6", 1, "the reset after a runtime error happens inside the VM, for every driver alike"},
			{"pipeline", "P1", 2, "in every mode nothing is rewritten, compiled or run while the parse error is non-nil"},
			{"pipeline", "P2", 4, "in every mode every statement of the parse result goes through STRewrite(empty table) -> ByteCode* -> Run"},
			{"pipeline", "P3", 2, "a script line is never dropped: the reader returns whole lines of any length and a last line without line break is processed"},
			{"pipeline", "P4b", 1, "statement boundaries are computed on exactly the text that is handed to the parser"},
			{"pipeline", "P4", 1, "statement boundaries respect lexical context (strings, comments)"},
			{"pipeline", "P8", 3, "in every mode a statement compiled to leave its value is run with Run(true), one compiled to leave none with Run(false); the mode flag reaches processInput unchanged"},
			{"pipeline", "P9", 1, "vm.Run takes the value off the stack iff asked to"},
			{"lexfsm", "L4", 40, "a line break yields its EOL whatever precedes it (comment, blank): the modes lay the same program out differently (script mode repeats the line breaks of a multi-line statement, the REPL and -eval do not)"},
		},
		Technique:  "must-pass-through / provenance rules on the SSA of the three drivers; abstract interpretation of node.Loop over two reads",
		Decides:    "that -eval, REPL and script mode run the same Parse -> STRewrite -> ByteCode -> Run chain over every statement of the parse result and nothing after a parse error; that the script reader loses no line (length, missing final line break); that the boundary heuristic counts on the text it parses.",
		NotDecided: "equality of output between modes; that the boundary heuristic splits a script exactly as the grammar would (it does not: known finding D20).",
	})
	RegisterSpec(&Spec{
		ID: "C04", Title: "Lexical scoping and isolation: a call cannot disturb its caller",
		Rules: []RuleRef{
			{"grammar", "G8", 13, "an assignment is always an Assign node: x = x inside a function creates the function's own x"},
			{"vmshape", "O3", 1, "captured frames are live slices of the stack (known finding)"},
			{"own", "O4", 4, "a recycled context is re-initialised before use"},
			{"own", "O8", 20, "a call frame holds exactly its own locals, nil-initialised"},
			{"strw", "S1", 20, "every node rewrites into the same node with each child resolved from the same child under the same table"},
			{"strw", "S2", 15, "a read resolves to the own variable, else to the immediately enclosing function's, else to the global"},
			{"strw", "S3", 6, "assignments and loop variables inside a function always target the function's own slot; the right-hand side / iterators are resolved first"},
			{"strw", "S4", 2, "a function literal opens a fresh scope with its parameters at 0..n-1; LocalCnt covers every slot handed out"},
			{"vmshape", "O7", 2, "only MOV and INC write variables, Set for locals and SetGlobal for globals"},
			{"bcai", "B11", 25, "an assignment inside a function writes the function's own variable: the increment shortcut is not taken when the right-hand side reads an outer variable of the same name"},
			{"own", "O2", 6, "a forked iterator context sees the globals and the closure frames of the function that forked it, also when its memory is recycled"},
			{"vmshape", "V7", 6, "CALL pushes frame+closure+return address, RET pops them symmetrically"},
			{"vmshape", "V13", 2, "a returned function value is detached from the dying frame"},
			{"vmshape", "V13b", 1, "function values nested in a returned array are detached too"},
		},
		Technique:   "abstract interpretation of every STRewrite method (opaque children, enumerated scope membership); VM handler effects for variable writes and call/return",
		Decides:     "for every node type and every combination of scopes defining a name (table depth 0..3): what a read, an assignment, a loop variable and a function literal are rewritten to; that only MOV/INC write variables and locals/globals go to Set/SetGlobal; call/return symmetry and frame detachment of returned functions.",
		NotDecided:  "the run-time consequence for every program (closures escaping through yield, behaviour once the captured-frame aliasing of C03 bites); that the compiler maps Local/Closure/Name to Lcl/Cls/Gbl operands (compiler rules).",
		Assumptions: []string{"the rewrite of a name depends only on which scopes contain that name and at which index (data independence in the other names)"},
	})
	RegisterSpec(&Spec{
		ID: "C06", Title: "The front end is total: any text is parsed or rejected, in finite time",
		Rules: []RuleRef{
			{"grammar", "G9", 5, "no gate commits the parser to an alternative that must fail"},
			{"pipeline", "P11", 1, "the caret line is cut out of the text that was parsed (offsets and text belong together)"},
			{"txn", "X6", 6, "the transactional lexer hands the parser the spans the lexer measured, unedited (error spans lie inside the input)"},
			{"grammar", "G8", 13, "transformers are total constructors"},
			{"grammar", "G7", 1, "a malformed for loop is a parse error, not an abort later on"},
			{"lexfsm", "L1", 10, "lexing terminates: at end of input every state emits, advances or fails"},
			{"lexfsm", "L2", 60, "no lexer state aborts; the aborting end-of-input state is never called"},
			{"lexfsm", "N2", 5, "every iteration of the lexer loop advances the scan position or ends the loop"},
			{"lexfsm", "N7", 2, "a character of the text cannot be taken for the end-of-input marker"},
			{"lexfsm", "N8", 1, "a lexer error is delivered through the token stream so that the parser finds its span"},
			{"grammar", "G1", 50, "parsing terminates: no left recursion, every repetition consumes a token"},
			{"grammar", "G2", 4, "every Choose has an alternative that cannot fail (its panic is unreachable)"},
			{"grammar", "G4", 14, "no transformer arity panic, failed type assertion or literal conversion panic is reachable"},
			{"grammar", "T2", 20, "every operator the grammar accepts is wrapped as an operator node and has a compiler case"},
			{"txn", "X7", 1, "parse errors carry unmodified token / lexer spans (inside the input)"},
			{"pipeline", "P1", 2, "nothing is compiled or run when an error is reported"},
			{"pipeline", "P5", 1, "rendering the caret line cannot fail: repeat counts are non-negative"},
		},
		Technique:  "finite automaton of the lexer; nullable/first analysis and shape evaluation of the grammar IR; provenance of error spans; path conditions of reportError",
		Decides:    "termination of lexing (progress at end of input, position advances) and of parsing (no left recursion, productive repetitions), absence of every explicit abort in lexer states, combinators (Choose), transformers and literal conversion on the shapes the grammar can produce, provenance of error spans from token/lexer spans, nothing executed after an error, non-negative repeat counts in the caret rendering.",
		NotDecided: "time and memory bounds beyond termination; slice bounds in reportError for spans that are consistent (0 <= from <= to <= len) are assumed from the span provenance rather than proved.",
	})
	RegisterSpec(&Spec{
		ID: "C07", Title: "Parsing follows the documented grammar: trees round-trip through source text",
		Rules: []RuleRef{
			{"pipeline", "P10", 1, "no line break is added or lost between reader and parser"},
			{"pipeline", "P3", 2, "the text that is parsed is the text of the file: no line is split, dropped or edited by the reader"},
			{"lexfsm", "N6", 1, "the lexer scans the text as given (no normalisation that changes string literals)"},
			{"grammar", "G9", 5, "gates and the alternatives they guard agree (the grammar accepts what the documented BNF accepts)"},
			{"grammar", "G8", 13, "every transformer builds the node of its construct from the parsed pieces, whatever they are: the tree is the program as written"},
			{"grammar", "G3", 7, "five left-associative binary levels with the documented operator sets, prefix operators over index over atom; the transformers fold to the left"},
			{"grammar", "G5", 19, "every grammar definition equals the documented grammar (statement and block layout, line breaks, array literals, parentheses add no node)"},
			{"grammar", "G6", 3, "a literal stands for exactly the number its text spells: IntLit through the exact integer conversion, FloatLit through ParseFloat"},
			{"grammar", "G4", 14, "each transformer builds exactly one node of the documented kind from what its rule parses"},
			{"grammar", "T2", 20, "every documented operator is lexable, wrapped and compiled"},
			{"grammar", "T3", 30, "every literal the grammar expects is a single token of the lexer"},
			{"lexfsm", "L4", 40, "blanks and comments between tokens change no token (layout insensitivity on the lexer side)"},
			{"lexfsm", "L3", 200, "token structure: longest operator run, one EOL per line break, comments dropped"},
		},
		Technique:  "the grammar extracted as data by abstract interpretation of package parser, compared with the documented grammar and operator table; transformers evaluated on the shapes their rules produce",
		Decides:    "that the grammar the code builds is the documented one: precedence levels and their operator sets, left folding, prefix/index/atom nesting, statement/block/array layout with line breaks, and that parentheses, blanks and comments leave no trace in the tree.",
		NotDecided: "the round-trip law itself (print then parse is the identity needs a printer and an equality over all trees).",
	})
	RegisterSpec(&Spec{
		ID: "C01", Title: "Compiled execution matches the definitional semantics of the language",
		Rules: []RuleRef{
			{"valtab", "A10", 1, "arrays are immutable values"},
			{"grammar", "G8", 13, "the tree that is compiled is the program as written (no rewriting while parsing)"},
			{"pipeline", "P2", 4, "every statement of the input is rewritten, compiled and run"},
			{"vmshape", "V19", 2, "aton is the documented conversion"},
			{"vmshape", "V12", 2, "read takes the next line of standard input"},
			{"vmshape", "V11", 2, "write has its effect when it is executed: the value goes straight to standard output"},
			{"own", "O8", 20, "frames are laid out as the call protocol expects"},
			{"builtins", "U1", 9, "the builtin functions are the documented definitions"},
			{"valtab", "A3", 60, "== is symmetric and != its negation"},
			{"valtab", "A2", 1, "integer division and modulo are guarded against a zero divisor"},
			{"vmshape", "O7", 2, "only MOV and INC write variables"},
			{"vmshape", "O1", 1, "array construction never writes into an existing value"},
			{"vmshape", "V16", 1, "a destroyed iterator context leaves nothing behind that a later loop could pick up"},
			{"vmshape", "V15", 1, "iterator contexts are keyed injectively by (call depth, id)"},
			{"vmshape", "V13", 2, "a returned closure keeps its captured values"},
			{"vmshape", "V10", 30, "conditions, indices and arguments are type checked in every handler"},
			{"vmshape", "V8", 60, "yield, resume and context destruction transfer exactly one value and free what they must"},
			{"vmshape", "V7", 6, "call / return protocol"},
			{"vmshape", "V6", 50, "a context switch continues the right coroutine on the right memory"},
			{"vmshape", "V5", 3, "x = x + 1 compiled to INC applies the same + as the general form"},
			{"bcai", "B8", 25, "for loops create, resume and destroy their iterator contexts under consistent ids"},
			{"vmshape", "V18", 11, "jumps continue where the compiler rules assume: ip + operand when taken, ip + 1 otherwise"},
			{"bcai", "B1", 25, "no emitted instruction is meaningless to the VM: every operand kind is one the handler accepts"},
			{"bcai", "T1", 25, "every emitted opcode has a handler"},
			{"bcai", "T2m", 2, "every operator lexeme is compiled to the opcode of the same name"},
			{"bcai", "B5", 25, "strict left-to-right evaluation: children compiled in source order into the slots the VM reads them from"},
			{"bcai", "B2", 25, "each node's code leaves exactly its announced result on the operand stack, in every context"},
			{"bcai", "B3", 25, "jumps are patched once, into the node's own code; code is only appended"},
			{"bcai", "B4", 25, "the result descriptor tells where the value is"},
			{"bcai", "B6", 25, "conditions are tested with the right polarity"},
			{"bcai", "B11", 25, "an assignment evaluates its right-hand side; the only shortcut is the increment of the assigned variable by the literal 1"},
			{"bcai", "B9", 25, "tmp is never read after it may have been overwritten"},
			{"bcai", "B10", 25, "operands address constants of the right type"},
			{"vmshape", "V1", 60, "the VM fetches each operand from the slot the instruction names"},
			{"vmshape", "V3", 70, "the VM applies the operator of the opcode to (left, right) in that order, also in the TMP variants"},
			{"vmshape", "T1", 60, "every declared opcode has a case clause; an unknown one aborts"},
			{"valtab", "A1", 900, "each operator method applies the documented primitive with int->float promotion on mixed pairs"},
			{"grammar", "T2", 20, "every operator the grammar accepts is wrapped and has a compiler case"},
			{"strw", "S2", 15, "names resolve as the language defines (own, enclosing, global)"},
			{"strw", "S3", 6, "assignment targets and their right-hand sides resolve as the language defines"},
			{"strw", "S4", 2, "function literals open the scope the language defines"},
		},
		Technique:   "abstract interpretation of the compiler with tabulated child summaries (inductive over the tree), symbolic effect summaries of every VM handler, operator table of package value; relational comparison of what is emitted with what is accepted",
		Decides:     "for all programs (all trees of the class table under all reachable flag contexts): emitted instruction shapes are accepted by the VM; operator identity lexeme -> opcode -> value method -> primitive; children compiled in source order into the operand slots the VM pops in reverse; every node's code is stack neutral up to its announced result; jumps resolve inside the node's code; tmp is read only while valid.",
		NotDecided:  "that the values computed agree with a reference evaluator (the meaning of each statement form, closure and iterator run-time behaviour, error precedence): run-time equivalences no static rule here stands for.",
		Assumptions: []string{"child lists are explored with 0..3 elements (Block 2..3, loop variables 1..2)", "the class table of the grammar engine (which node types can occur in which field) after the symbol table rewrite"},
	})
	RegisterSpec(&Spec{
		ID: "C02", Title: "for loops consume exactly what their iterators yield, lazily and in order",
		Rules: []RuleRef{
			{"grammar", "G7", 1, "a loop binds as many variables as it has iterators"},
			{"vmshape", "V7", 6, "generator calls follow the call protocol inside their context"},
			{"own", "O8", 20, "a forked iterator context starts with exactly the creator's frame"},
			{"own", "O4", 4, "a recycled iterator context is re-initialised before use"},
			{"strw", "S3", 20, "the iterator expressions of a loop are resolved before its loop variables exist: a loop variable named like an outer variable does not capture the iterator's read of it"},
			{"own", "O2", 12, "a suspended generator's closure stack cannot be overwritten by the loop body (own closure stack per context)"},
			{"bcai", "B9", 25, "the value of a yield does not live in the VM-wide tmp register across the loop body"},
			{"bcai", "B8", 25, "iterator contexts are created, resumed and destroyed under consistent ids; a return destroys the loops it leaves"},
			{"bcai", "B2", 25, "the loop variable receives exactly one value per resume, the previous body result is dropped, one result remains"},
			{"vmshape", "V6", 50, "m == ctxp.m after every instruction"},
			{"vmshape", "V8", 60, "CCONT/YIELD/SCONT/DCONT/RCONT follow the coroutine transfer protocol the compiler's layout assumes"},
			{"vmshape", "V15", 1, "iterator contexts of loops at different recursion depths have different registration keys"},
			{"vmshape", "V16", 1, "an abandoned generator frees its own nested iterators and is recycled with an empty child table (no context is handed out twice)"},
		},
		Technique:  "coroutine-aware stack simulation of the emitted loop layout; symbolic effect of the five context opcodes; ownership of the closure stack in memory.Clone",
		Decides:    "fork/resume/destroy pairing and id consistency in the compiled loop, one pushed value per resume and stack neutrality of the loop layout (with the transfer semantics of the context opcodes, themselves extracted from the VM), that a yield's value survives the body, that parent and forked context own their closure stacks, context switch integrity in the VM.",
		NotDecided: "laziness and interleaving order as observable behaviour, cross product / lock-step enumeration, behaviour at recursion depth > 1 of the function containing the loop (context hashing by call depth), recycling of contexts over histories.",
	})
	RegisterSpec(&Spec{
		ID: "C05", Title: "No accepted program can crash the interpreter; failures are calc runtime errors",
		Rules: []RuleRef{
			{"vmshape", "V20", 1, "no handler indexes or slices an operand's text or payload without a guard on the same path (implicit bounds aborts)"},
			{"valtab", "A9", 1, "no operator method indexes or slices a payload without a guard on the same path"},
			{"own", "O6", 2, "memory.Reset empties the frame and closure stacks: stale frames after an error make the next fork slice out of range"},
			{"vmshape", "V19", 2, "aton hands its argument text to the library conversions unedited (no indexing into a possibly empty string)"},
			{"grammar", "G7", 1, "the parser refuses a for loop whose variable and iterator counts differ (the compiler aborts on one)"},
			{"grammar", "G2", 4, "no Choose without a total alternative"},
			{"lexfsm", "L2", 60, "no lexer state aborts"},
			{"enc", "E2", 1, "operand fields cannot wrap into other indices"},
			{"vmshape", "V15", 1, "context keys are injective"},
			{"vmshape", "V16", 1, "no context is freed twice"},
			{"vmshape", "V8", 60, "context protocol"},
			{"vmshape", "V7", 6, "CALL / RET protocol (can't pop instruction pointer is unreachable)"},
			{"own", "O8", 20, "frames are pushed and popped symmetrically; the return address is where RET reads it"},
			{"strw", "S4", 2, "LocalCnt covers every slot"},
			{"strw", "S3", 20, "every local slot handed out lies below LocalCnt (a slot beyond the frame indexes past the stack)"},
			{"vmshape", "V18", 11, "jumps continue at ip + operand"},
			{"bcai", "B3", 25, "every jump lands inside the code that was compiled (a wild jump runs off the code segment)"},
			{"bcai", "B2", 25, "no compiled code pops below the height it was entered with (a pop at height 0 indexes the stack at -1)"},
			{"vmshape", "O6", 1, "after a runtime error the main memory is reset completely (stale frames would make the next fork slice out of range)"},
			{"abort", "C5", 80, "every abort site of the module is discharged by a named argument (or is documented behaviour / environment)"},
			{"bcai", "B1", 25, "'unknown source' / 'unexpected dst' are unreachable: emitted kinds are accepted"},
			{"bcai", "B10", 25, "'unknown global', 'cannot convert value to array', SetFrame panic are unreachable"},
			{"bcai", "B8", 25, "'context not found' is unreachable"},
			{"bcai", "T1", 25, "'unknown opcode' is unreachable"},
			{"valtab", "A1", 900, "every operator on every kind pair returns a value or a documented error, never aborts"},
			{"valtab", "A2", 1, "integer division and modulo by zero are errors, not Go panics"},
			{"valtab", "A6", 1, "no shift by a possibly negative signed count"},
			{"valtab", "A5", 2, "out-of-range shift counts are reported as errors"},
			{"valtab", "A7", 21, "rendering any value cannot abort"},
			{"grammar", "G4", 14, "parser transformers and literal conversion cannot abort"},
			{"vmshape", "V4", 90, "operator errors become dumpStack + returned error"},
			{"own", "O5", 2, "the value stack is grown before a slot above sp is written (no index out of range in Push)"},
			{"own", "O5c", 2, "growStack appends at least the requested size (no index out of range in PushFrame)"},
			{"own", "O4", 8, "a recycled context memory is long enough for the frame copied into it"},
		},
		Technique:  "abort-site inventory over the SSA of all packages with per-site discharge by the verdicts of the exhaustive abstract explorations (compiler, operator table, grammar shapes, lexer automaton)",
		Decides:    "every explicit abort (panic, log.Panic*, log.Fatal*, os.Exit), unchecked type assertion and non-constant integer division in the module is either unreachable for parseable programs (by a named rule that reports a violation whenever its exploration reaches an abort), documented behaviour (exit) or an environment failure; operators never abort on any kind pair.",
		NotDecided: "slice/array index expressions and nil dereferences are not inventoried (partly covered for the value stack by the memory rules); stack exhaustion of the host on deep recursion.",
	})
	RegisterSpec(&Spec{
		ID: "C08", Title: "A session survives errors: a failed statement leaves no trace but its globals",
		Rules: []RuleRef{
			{"pipeline", "P2", 4, "after a failing statement the remaining statements of the same input are still executed, as they would be on separate lines"},
			{"grammar", "G7", 1, "no statement the parser accepts makes the compiler abort the session: for loops have equal counts"},
			{"vmshape", "V11", 1, "what a failed statement wrote is out before its error report: no output is carried into the next statement"},
			{"vmshape", "V16", 1, "contexts destroyed by the reset are not reused with stale children"},
			{"pipeline", "P7", 1, "a session is only resumed after errors that leave whole statements behind: no panic is recovered in the middle of a statement"},
			{"vmshape", "V4", 90, "every failure inside Run takes the dumpStack path"},
			{"vmshape", "O6", 1, "dumpStack resets the main context: memory, ip at the end of the code, child contexts"},
			{"own", "O6", 2, "Reset drops sp, frame pointers and closure stack and keeps the globals"},
			{"pipeline", "P1", 2, "a parse error adds no code (nothing compiled or run)"},
			{"pipeline", "P6", 50, "code and data segments only grow; nothing outside the compiler rewrites them"},
			{"bcai", "B3", 25, "the compiler only appends (so resuming at len(CS) skips exactly the failed statement)"},
			{"vmshape", "V7", 6, "a top-level return resets sp, pushes the value and jumps to the end of the code"},
		},
		Technique:  "error-return paths of every VM handler; symbolic effect of dumpStack and Reset; append-only discipline of the segments on the SSA of all writers",
		Decides:    "all failures reset; the reset is complete except for globals; a parse error adds no code; code and data only grow so that execution resumes after the failed statement and earlier code stays valid.",
		NotDecided: "equality of later results with a failure-free twin session; effects of a failure on recycled contexts of the free list (local to one Run).",
	})
	RegisterSpec(&Spec{
		ID: "C09", Title: "Evaluation leaves the machine clean: no stack, frame or context residue",
		Rules: []RuleRef{
			{"own", "O6", 2, "after a failure the memory is back to empty"},
			{"pipeline", "P2", 4, "statements are run one by one"},
			{"vmshape", "V6", 50, "contexts are switched, not leaked"},
			{"vmshape", "V15", 1, "context keys are injective: destroying a range destroys exactly that loop's contexts"},
			{"own", "O8", 20, "a forked or recycled context starts with exactly the creator's top frame: no frames of a previous life are kept"},
			{"own", "O2", 6, "a recycled context shares no storage with its previous owner"},
			{"own", "O4", 4, "a recycled context is re-initialised before use"},
			{"bcai", "B2", 25, "every statement form in discarded / used / returning position leaves exactly one value or none; loop back-edges have equal height"},
			{"bcai", "B4", 25, "the descriptor says whether a value was left"},
			{"bcai", "B8", 25, "every iterator context a loop creates is destroyed on exhaustion and on return"},
			{"bcai", "B3", 25, "no instruction is removed after its operands' code was emitted"},
			{"vmshape", "V7", 6, "frame and closure stacks are pushed and popped pairwise"},
			{"vmshape", "V8", 60, "DCONT/RCONT free every context in their range and remove the registration"},
			{"vmshape", "V16", 1, "destroying a context frees its whole subtree"},
			{"vmshape", "V17", 3, "a return outside any function leaves exactly what the end of Run takes: the value iff Run was asked for the result"},
			{"pipeline", "P8", 3, "no statement leaves a slot behind: the compile entry point and the argument of Run agree in every driver"},
			{"pipeline", "P9", 1, "vm.Run pops the result iff asked to"},
		},
		Technique:  "stack-height simulation over the control-flow graph of the emitted items (with coroutine transfer edges), inductive over the tree by child summaries",
		Decides:    "for all programs: operand stack neutrality of every node in every context including loops (heights agree at joins and back-edges, so storage does not grow with the iteration count), pairing of frames and closures in CALL/RET, destruction of every iterator context.",
		NotDecided: "heap residue of the free list; the high-water mark of the stack (never shrunk by design); the slot a top-level return leaves in script mode until the next statement resets sp.",
	})
	RegisterSpec(&Spec{
		ID: "C12", Title: "An expression means the same wherever it is written",
		Rules: []RuleRef{
			{"valtab", "A3", 60, "== is symmetric in every position"},
			{"valtab", "A1", 900, "an operator is a function of its operand values (no identity shortcuts): e op e is t op t"},
			{"grammar", "G8", 13, "!(a < b), x = x and every other construct become the node of that construct in every position"},
			{"bcai", "B10", 25, "typed operands"},
			{"vmshape", "V3", 70, "the same operator method in every code-generation strategy (plain, TMP variant, INC)"},
			{"bcai", "B5", 25, "operands are compiled in source order whatever the position"},
			{"bcai", "B2", 25, "every code-generation strategy (temp accumulation, PUSHTMP flush, discard / returning variants) delivers the value where the descriptor says"},
			{"bcai", "B4", 25, "result honesty in every context"},
			{"bcai", "B9", 25, "tmp strategies never read a clobbered tmp (call in right operand, array literal, yield)"},
			{"bcai", "B6", 25, "conditions are tested in every position, with negation folded correctly"},
			{"bcai", "B11", 25, "v = v + 1 means the same for every kind of variable: the increment shortcut needs the identical resolved reference on both sides"},
			{"bcai", "B1", 25, "no position-dependent operand kind the VM rejects"},
			{"vmshape", "V5", 3, "INC computes operand+1 with the same method as '+' and stores like MOV"},
			{"vmshape", "V10", 30, "JMPF and JMPT both demand a boolean; operator errors pass through unchanged"},
			{"vmshape", "V8", 60, "a used yield leaves its value whether or not a loop encloses it"},
		},
		Technique:  "all (node type x flag context) variants of the compiler checked against the same summaries; sibling comparison of VM handlers",
		Decides:    "context independence of the protocol: for every node type, every flag context reachable from the roots yields code that delivers the node's value where its descriptor says, tests conditions, and keeps tmp valid; INC is Arith(ADD,1) stored like MOV; both conditional jumps type-check.",
		NotDecided: "equality of observable results between two placements (a relational run-time property); whether INC is selected exactly for x = x + 1 shapes.",
	})
	RegisterSpec(&Spec{
		ID: "C17", Title: "Built-in functions keep their contracts for every argument",
		Rules: []RuleRef{
			{"vmshape", "V20", 1, "builtin handlers do not index into their argument unguarded"},
			{"vmshape", "V19", 2, "aton reads a decimal integer, else a float, from exactly its argument text"},
			{"valtab", "A1", 900, "aton / toa and the operators the builtins use follow the documented table"},
			{"vmshape", "V12", 2, "read takes whole lines from one buffered reader that outlives the instruction"},
			{"vmshape", "V11", 2, "toa and write render through value.Type.String"},
			{"vmshape", "V10", 30, "aton of a non-string is a type error, an unconvertible string a conversion error; wrong arity is an arity error, a non-function callee a type error"},
			{"vmshape", "V7", 6, "argument count is checked before the frame is pushed"},
			{"builtins", "U1", 9, "each builtin is the documented definition: fromto yields a, a+1, .. while below b; elems / indices walk 0..#x-1; read/write/aton/toa/exit take the documented arity and map to their primitive"},
			{"valtab", "A7", 21, "rendering is total for every kind of value"},
			{"valtab", "A8", 1, "floats are rendered with the shortest representation that reads back to the same value"},
			{"bcai", "B1", 25, "the builtin trees compile to instructions the VM accepts (they are part of the class table)"},
		},
		Technique:  "symbolic effect of the builtin opcodes' handlers",
		Decides:    "one shared line reader; same renderer for toa and write; error classes for wrong argument types and counts; the builtin trees are compiled by the same checked methods.",
		NotDecided: "aton(toa(n)) = n, the sequences produced by fromto / elems / indices (their trees are data; judging them without running them would mean freezing the source), float formatting precision.",
	})
	RegisterSpec(&Spec{
		ID: "C19", Title: "Runtime error reports point at the real failure",
		Rules: []RuleRef{
			{"pipeline", "P11", 1, "parse errors are shown against the text they refer to"},
			{"vmshape", "V7", 6, "the return address is pushed where the dump reads it"},
			{"bcai", "B3", 25, "the code position of an instruction is stable (code is only appended): the ip in a report names the failing instruction"},
			{"strw", "S2", 15, "a resolved reference keeps the name of its variable (the debug info of a call names the callee from it)"},
			{"own", "O8", 20, "the forked frame is copied whole and nothing else is written into the clone's stack (the return address slot the stack dump reads stays intact)"},
			{"vmshape", "V4", 40, "the failing ip, the current context and exactly the fetched operands reach the report"},
			{"vmshape", "V10", 30, "the error class reported is the class of the failure"},
			{"vmshape", "V1", 60, "operands are fetched from the slot the instruction names"},
			{"bcai", "B7", 25, "debug info is keyed by the address of the CALL (the return address the stack dump looks up), with the right argument count"},
			{"own", "O8", 20, "a forked context receives the whole top frame including the return address slot the stack dump reads"},
			{"own", "V14", 1, "the stack dump lists calls innermost first, reading each return address and argument list from the frame the call protocol wrote"},
			{"valtab", "A7", 21, "rendering operand values in the report cannot fail"},
			{"vmshape", "V6", 50, "every context records the memory it runs on, so the report walks the right stacks"},
			{"vmshape", "V8", 60, "a forked or recycled context is set up with its parent and its memory before anything can fail in it"},
		},
		Technique:  "abstract interpretation of vm.Run per opcode; assertions on the error-return paths",
		Decides:    "on every path of every opcode handler that ends the run with an error, the report function receives the current context, the ip of the failing instruction, the error that is returned and exactly the operand values fetched on that path in slot order; failures detected by the VM itself use the documented class.",
		NotDecided: "the rendered text of the report; the frame walk in memory.DumpStack over arbitrary stacks; debug-info keys (compiler side).",
	})
	RegisterSpec(&Spec{
		ID: "C14", Title: "Tokenisation is faithful to the text",
		Rules: []RuleRef{
			{"txn", "X6", 6, "the parser sees each token exactly as the lexer produced it"},
			{"pipeline", "P6", 50, "nothing edits the text between reader and lexer"},
			{"pipeline", "P10", 1, "lines reach the lexer without extra line breaks"},
			{"pipeline", "P4b", 1, "statement boundaries are computed on exactly the text that is parsed"},
			{"pipeline", "P3", 2, "the driver hands the lexer every line it read, unedited"},
			{"lexfsm", "L1", 10, "the lexer reaches the end of every input (needed for 'the stream ends with EOL then EOF')"},
			{"lexfsm", "L2", 60, "every transition has a successor state; the end-of-input state is never called"},
			{"lexfsm", "L3", 200, "documented token structure: start characters, longest operator run, one-character brackets, one EOL per line break, skipped text is blanks/comments only"},
			{"lexfsm", "L4", 40, "the token started by a character does not depend on what preceded it (blanks/comments change no token)"},
			{"lexfsm", "N1", 1, "token text is the input between the span bounds"},
			{"lexfsm", "N9", 1, "a token hands back the bounds the lexer measured (not bounds recomputed from its text)"},
			{"lexfsm", "N2", 5, "spans are consecutive: from only ever becomes to, to only grows by the size of the rune read"},
			{"lexfsm", "N3", 1, "the state saved at emit is the returned next state"},
			{"lexfsm", "N6", 1, "the lexer scans exactly the text it was given (no trimming or rewriting before scanning)"},
			{"lexfsm", "N7", 2, "the end-of-input marker handed to the state functions cannot be confused with a character of the text"},
			{"lexfsm", "N4", 4, "EOL unless the last token is EOL, then EOF exactly once, then nothing"},
		},
		Technique:   "abstract interpretation of the lexer state functions and of Lexer.Next over character classes / symbolic spans; table checks against the documented token structure",
		Decides:     "the complete transition table of the lexer (every state function evaluated over every behavioural character class) satisfies the documented token structure (L1-L4), and one iteration of Lexer.Next, interpreted symbolically, updates span, text and state exactly as the property requires (N1-N4).",
		NotDecided:  "the UTF-8 sizes returned by strings.Reader.ReadRune are trusted; the property is otherwise decided by the automaton.",
		Assumptions: []string{"strings.Reader.ReadRune returns sizes 1..4 and consumes exactly that many bytes", "the four sampled runes above 0x2ff stand for every rune the state functions do not compare against (checked: all rune constants in the state functions are below 0x2ff)"},
	})
}
