// Package oblig holds the obligation / report / evidence / known-findings
// plumbing shared by all engines.
package oblig

import (
	"encoding/json"
	"fmt"
	"os"
	"sort"
	"strconv"
	"strings"
)

type Verdict string

const (
	Discharged Verdict = "discharged"
	Violated   Verdict = "violated"
	Undecided  Verdict = "undecided"
)

// Obligation is one rule applied to one construct.
type Obligation struct {
	Rule    string   `json:"rule"`
	Key     string   `json:"key"` // stable construct descriptor: pkg.func / construct (no line numbers)
	Pos     string   `json:"pos"` // file:line, for humans only
	Verdict Verdict  `json:"verdict"`
	Detail  string   `json:"detail,omitempty"`
	Witness []string `json:"witness,omitempty"`
}

func (o Obligation) ID() string { return o.Rule + " / " + o.Key }

// Set collects obligations of one engine run.
type Set struct {
	Obls  []Obligation
	Notes []string       // free text facts for evidence (what was analysed)
	Stats map[string]int // measured counters
}

func NewSet() *Set { return &Set{Stats: map[string]int{}} }

func (s *Set) Add(rule, key, pos string, v Verdict, detail string, witness ...string) {
	s.Obls = append(s.Obls, Obligation{Rule: rule, Key: key, Pos: pos, Verdict: v, Detail: detail, Witness: witness})
}
func (s *Set) OK(rule, key, pos, detail string) { s.Add(rule, key, pos, Discharged, detail) }
func (s *Set) Bad(rule, key, pos, detail string, witness ...string) {
	s.Add(rule, key, pos, Violated, detail, witness...)
}
func (s *Set) Unk(rule, key, pos, detail string, witness ...string) {
	s.Add(rule, key, pos, Undecided, detail, witness...)
}
func (s *Set) Note(format string, a ...any) { s.Notes = append(s.Notes, fmt.Sprintf(format, a...)) }
func (s *Set) Count(k string, n int)        { s.Stats[k] += n }

// Merge appends other into s.
func (s *Set) Merge(o *Set) {
	s.Obls = append(s.Obls, o.Obls...)
	s.Notes = append(s.Notes, o.Notes...)
	for k, v := range o.Stats {
		s.Stats[k] += v
	}
}

// Finding is an entry of the committed known-findings file.
type Finding struct {
	Property string `json:"property"`
	Rule     string `json:"rule"`
	Key      string `json:"key"`
	What     string `json:"what"`
	Witness  string `json:"witness,omitempty"`
	Status   string `json:"status"` // "known" | "fixed"
	Commit   string `json:"commit,omitempty"`
	Fixed    string `json:"fixed,omitempty"` // the "fixed: property=<id> <commit> <what failed>" line
}

type FindingsFile struct {
	Comment  string    `json:"_comment,omitempty"`
	Findings []Finding `json:"findings"`
}

func LoadFindings(path string) (*FindingsFile, error) {
	b, err := os.ReadFile(path)
	if err != nil {
		return nil, err
	}
	var f FindingsFile
	if err := json.Unmarshal(b, &f); err != nil {
		return nil, fmt.Errorf("%s: %w", path, err)
	}
	return &f, nil
}

// Known reports whether (rule,key) is listed as a *known* finding for property.
func (f *FindingsFile) Known(property, rule, key string) (Finding, bool) {
	for _, e := range f.Findings {
		if e.Status == "known" && e.Rule == rule && e.Key == key && (e.Property == property || e.Property == "*" || strings.Contains(","+e.Property+",", ","+property+",")) {
			return e, true
		}
	}
	return Finding{}, false
}

// Floor is the minimal number of obligations a rule must produce.
type Floor struct {
	Rule string
	Min  int
}

// SortObls sorts by file, numeric line, rule, key.
func SortObls(o []Obligation) {
	sort.SliceStable(o, func(i, j int) bool {
		fi, li := splitPos(o[i].Pos)
		fj, lj := splitPos(o[j].Pos)
		if fi != fj {
			return fi < fj
		}
		if li != lj {
			return li < lj
		}
		if o[i].Rule != o[j].Rule {
			return o[i].Rule < o[j].Rule
		}
		return o[i].Key < o[j].Key
	})
}

func splitPos(p string) (string, int) {
	i := strings.LastIndex(p, ":")
	if i < 0 {
		return p, 0
	}
	n, _ := strconv.Atoi(p[i+1:])
	return p[:i], n
}
