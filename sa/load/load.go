// Package load loads the current source of paulsonkoly/calc (type-checked
// syntax + SSA for every package of the module) and resolves the anchors the
// engines work on. Nothing of calc is executed.
package load

import (
	"fmt"
	"go/ast"
	"go/token"
	"go/types"
	"os"
	"sort"
	"strings"

	"golang.org/x/tools/go/packages"
	"golang.org/x/tools/go/ssa"
	"golang.org/x/tools/go/ssa/ssautil"
)

const ModPath = "github.com/paulsonkoly/calc"

// Program is the loaded repository.
type Program struct {
	Dir   string
	Fset  *token.FileSet
	Pkgs  map[string]*packages.Package // by import path (module packages only)
	All   []*packages.Package          // module packages, sorted
	SSA   *ssa.Program
	SPkgs map[string]*ssa.Package

	NFuncs  int // source functions with SSA bodies in module packages
	NInstrs int
}

// Load loads every package of the module rooted at dir.
func Load(dir string) (*Program, error) {
	env := append(os.Environ(),
		"GOFLAGS=-mod=mod", "GOPROXY=off", "GOSUMDB=off", "GOWORK=off", "GOTOOLCHAIN=local")
	fset := token.NewFileSet()
	cfg := &packages.Config{
		Mode:  packages.LoadAllSyntax,
		Dir:   dir,
		Env:   env,
		Fset:  fset,
		Tests: false,
	}
	pkgs, err := packages.Load(cfg, "./...")
	if err != nil {
		return nil, fmt.Errorf("packages.Load: %w", err)
	}
	var errs []string
	packages.Visit(pkgs, nil, func(p *packages.Package) {
		for _, e := range p.Errors {
			errs = append(errs, fmt.Sprintf("%s: %v", p.PkgPath, e))
		}
	})
	if len(errs) > 0 {
		sort.Strings(errs)
		return nil, fmt.Errorf("type-check / load errors:\n  %s", strings.Join(errs, "\n  "))
	}
	p := &Program{Dir: dir, Fset: fset, Pkgs: map[string]*packages.Package{}, SPkgs: map[string]*ssa.Package{}}
	for _, pk := range pkgs {
		if pk.PkgPath == ModPath || strings.HasPrefix(pk.PkgPath, ModPath+"/") {
			p.Pkgs[pk.PkgPath] = pk
			p.All = append(p.All, pk)
		}
	}
	sort.Slice(p.All, func(i, j int) bool { return p.All[i].PkgPath < p.All[j].PkgPath })
	if len(p.All) == 0 {
		return nil, fmt.Errorf("no packages of module %s found under %s", ModPath, dir)
	}
	prog, spkgs := ssautil.AllPackages(pkgs, ssa.InstantiateGenerics)
	prog.Build()
	p.SSA = prog
	for i, sp := range spkgs {
		if sp == nil {
			continue
		}
		if _, ok := p.Pkgs[pkgs[i].PkgPath]; ok {
			p.SPkgs[pkgs[i].PkgPath] = sp
		}
	}
	for _, sp := range p.SPkgs {
		for fn := range ssautil.AllFunctions(prog) {
			if fn.Pkg == sp && fn.Blocks != nil {
				p.NFuncs++
				for _, b := range fn.Blocks {
					p.NInstrs += len(b.Instrs)
				}
			}
		}
	}
	return p, nil
}

// Pkg returns the package with the given path relative to the module ("" = root).
func (p *Program) Pkg(rel string) *packages.Package {
	path := ModPath
	if rel != "" {
		path += "/" + rel
	}
	return p.Pkgs[path]
}

// SPkg returns the SSA package with the given module relative path.
func (p *Program) SPkg(rel string) *ssa.Package {
	path := ModPath
	if rel != "" {
		path += "/" + rel
	}
	return p.SPkgs[path]
}

// Pos renders a position relative to the repository root.
func (p *Program) Pos(pos token.Pos) string {
	if !pos.IsValid() {
		return "-"
	}
	ps := p.Fset.Position(pos)
	f := strings.TrimPrefix(ps.Filename, p.Dir+"/")
	return fmt.Sprintf("%s:%d", f, ps.Line)
}

// Func returns the SSA function for a package level function.
func (p *Program) Func(rel, name string) *ssa.Function {
	sp := p.SPkg(rel)
	if sp == nil {
		return nil
	}
	return sp.Func(name)
}

// Method returns the SSA function of method name on named type typ (value or
// pointer receiver) in package rel.
func (p *Program) Method(rel, typ, name string) *ssa.Function {
	sp := p.SPkg(rel)
	if sp == nil {
		return nil
	}
	m := sp.Members[typ]
	t, ok := m.(*ssa.Type)
	if !ok {
		return nil
	}
	for _, T := range []types.Type{t.Type(), types.NewPointer(t.Type())} {
		ms := p.SSA.MethodSets.MethodSet(T)
		for i := 0; i < ms.Len(); i++ {
			if ms.At(i).Obj().Name() == name {
				fn := p.SSA.MethodValue(ms.At(i))
				if fn != nil && fn.Synthetic == "" {
					return fn
				}
				if fn != nil {
					// wrapper (pointer receiver calling value method): find the declared one
					if d := p.SSA.FuncValue(ms.At(i).Obj().(*types.Func)); d != nil {
						return d
					}
				}
			}
		}
	}
	return nil
}

// FuncDecl returns the syntax of a function / method declared in package rel.
// recv == "" selects a package level function.
func (p *Program) FuncDecl(rel, recv, name string) (*ast.FuncDecl, *packages.Package) {
	pk := p.Pkg(rel)
	if pk == nil {
		return nil, nil
	}
	for _, f := range pk.Syntax {
		for _, d := range f.Decls {
			fd, ok := d.(*ast.FuncDecl)
			if !ok || fd.Name.Name != name {
				continue
			}
			if recv == "" && fd.Recv == nil {
				return fd, pk
			}
			if recv != "" && fd.Recv != nil && len(fd.Recv.List) == 1 {
				t := fd.Recv.List[0].Type
				if s, ok := t.(*ast.StarExpr); ok {
					t = s.X
				}
				if id, ok := t.(*ast.Ident); ok && id.Name == recv {
					return fd, pk
				}
			}
		}
	}
	return nil, nil
}

// FuncKey is a stable name for an SSA function: pkg-relative path + receiver + name.
func (p *Program) FuncKey(fn *ssa.Function) string {
	if fn == nil {
		return "<nil>"
	}
	s := fn.String()
	s = strings.ReplaceAll(s, ModPath+"/", "")
	s = strings.ReplaceAll(s, ModPath, "calc")
	return s
}

// ConstInt returns the int64 value of package level constant name in package rel.
func (p *Program) ConstInt(rel, name string) (int64, bool) {
	pk := p.Pkg(rel)
	if pk == nil {
		return 0, false
	}
	obj := pk.Types.Scope().Lookup(name)
	c, ok := obj.(*types.Const)
	if !ok {
		return 0, false
	}
	return constInt64(c)
}
