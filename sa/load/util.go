package load

import (
	"go/constant"
	"go/types"
	"sort"
)

func constInt64(c *types.Const) (int64, bool) {
	v := constant.ToInt(c.Val())
	if v.Kind() != constant.Int {
		return 0, false
	}
	if i, ok := constant.Int64Val(v); ok {
		return i, true
	}
	if u, ok := constant.Uint64Val(v); ok {
		return int64(u), true
	}
	return 0, false
}

// ConstsOfType lists the package level constants of package rel whose type is
// the named type typName, by name.
func (p *Program) ConstsOfType(rel, typName string) map[string]int64 {
	out := map[string]int64{}
	pk := p.Pkg(rel)
	if pk == nil {
		return out
	}
	sc := pk.Types.Scope()
	for _, n := range sc.Names() {
		c, ok := sc.Lookup(n).(*types.Const)
		if !ok {
			continue
		}
		nt, ok := c.Type().(*types.Named)
		if !ok || nt.Obj().Name() != typName || nt.Obj().Pkg() != pk.Types {
			continue
		}
		if v, ok := constInt64(c); ok {
			out[n] = v
		}
	}
	return out
}

// SortedKeys returns the keys of m sorted.
func SortedKeys[V any](m map[string]V) []string {
	ks := make([]string, 0, len(m))
	for k := range m {
		ks = append(ks, k)
	}
	sort.Strings(ks)
	return ks
}
