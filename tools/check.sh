#!/bin/bash
# check.sh <property> <tier>: (re)build the analyser if needed and decide the
# property on /repo's current working tree by static analysis.
set -u
id="$1"; tier="${2:-${VERIF_TIER:-quick}}"
export GOFLAGS=-mod=mod GOPROXY=off GOSUMDB=off GOTOOLCHAIN=local GOWORK=off
cd /verif/sa || exit 2
if [ ! -x /verif/bin/calcsa ] || [ -n "$(find /verif/sa -name '*.go' -newer /verif/bin/calcsa -print -quit)" ]; then
  mkdir -p /verif/bin
  go build -o /verif/bin/calcsa ./cmd/calcsa || { echo "calcsa: build failed"; echo "VIOLATION property=$id replay=/verif/reports/$id-$tier.json"; exit 1; }
fi
mkdir -p /verif/evidence /verif/reports
/verif/bin/calcsa -repo "${CALC_REPO:-/repo}" -verif /verif -property "$id" -tier "$tier"
rc=$?
if [ "$tier" = thorough ] && [ -z "${CALC_REPO:-}" ]; then
  # sensitivity audit: does the check still see the seeded breakages of this property?
  python3 /verif/tools/audit.py "$id" || true
fi
exit $rc
