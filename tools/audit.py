#!/usr/bin/env python3
"""audit.py <property-id>: sensitivity audit for one property (thorough tier).

Every seeded breakage and reverted fix mapped to the property is applied to a
scratch copy of the current /repo tree (tools/mutest.sh) and the property's
quick check is run on the copy; the outcome is merged into the evidence file.
The audit analyses sources only and never changes the exit status of the check.
"""
import json, os, subprocess, sys, glob, concurrent.futures

pid = sys.argv[1]
muts = []
for d in sorted(glob.glob('/verif/seeded/*/')):
    try:
        meta = json.load(open(d + 'meta.json'))
    except Exception:
        continue
    if meta.get('property') == pid:
        muts.append((d + 'patch.diff', ''))
try:
    for line in open('/verif/mutants/PROPS.tsv'):
        f, props = line.rstrip('\n').split('\t')
        if pid in props.split(','):
            muts.append(('/verif/mutants/' + f, '-R'))
except FileNotFoundError:
    pass

def run(m):
    patch, rev = m
    cmd = ['/verif/tools/mutest.sh', patch, pid] + ([rev] if rev else [])
    try:
        out = subprocess.run(cmd, capture_output=True, text=True, timeout=900, env=dict(os.environ, MUTEST_LINES='2')).stdout
    except subprocess.TimeoutExpired:
        return patch, 'timeout', ''
    last = [l for l in out.splitlines() if l.startswith('MUTEST:')]
    first = [l for l in out.splitlines() if not l.startswith('MUTEST:')]
    status = 'skipped'
    if last:
        if 'DETECTED' in last[-1]: status = 'detected'
        elif 'MISSED' in last[-1]: status = 'missed'
        elif 'does not apply' in last[-1] or 'does not build' in last[-1]: status = 'not applicable to the current tree'
    return patch, status, (first[0][:200] if first else '')

res = []
with concurrent.futures.ThreadPoolExecutor(max_workers=4) as ex:
    for r in ex.map(run, muts):
        res.append(r)
        print('audit: %-10s %s' % (r[1], r[0]))
applied = [r for r in res if r[1] in ('detected', 'missed')]
detected = [r for r in res if r[1] == 'detected']
missed = [r for r in res if r[1] == 'missed']
for r in missed:
    print('audit: WARNING checker regression: %s is not detected by the check of %s' % (r[0], pid))
ev_path = '/verif/evidence/%s.json' % pid
try:
    ev = json.load(open(ev_path))
    cov = ev.setdefault('coverage', {})
    cov['mutants_considered'] = len(res)
    cov['mutants_applied'] = len(applied)
    cov['mutants_detected'] = len(detected)
    cov['mutants_missed'] = [r[0] for r in missed]
    cov['mutant_audit'] = [{'patch': r[0], 'outcome': r[1], 'first_report': r[2]} for r in res]
    json.dump(ev, open(ev_path, 'w'), indent=1)
except Exception as e:
    print('audit: could not update evidence:', e)
print('audit: %d considered, %d applied, %d detected' % (len(res), len(applied), len(detected)))
