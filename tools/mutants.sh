#!/bin/bash
# mutants.sh [jobs]: sensitivity audit. Every seeded breakage (seeded/*/patch.diff, property from
# meta.json) and every reverted fix (mutants/fix*.patch, applied in reverse) is applied to a scratch
# copy of the current /repo tree and checked with the check of its own property; prints one line
# per mutant and a summary. The audit analyses sources only.
jobs="${1:-4}"
out=$(mktemp -d /tmp/mutaudit.XXXXXX)
list=$out/list.txt
for d in /verif/seeded/*/; do
  id=$(python3 -c "import json,sys; print(json.load(open(sys.argv[1]))['property'])" $d/meta.json)
  echo "$d/patch.diff $id" >> $list
done
while IFS=$'\t' read -r f props; do
  echo "/verif/mutants/$f $props -R" >> $list
done < /verif/mutants/PROPS.tsv
cat $list | xargs -P $jobs -L 1 sh -c 'n=$(echo $0 | tr "/" "_"); MUTEST_LINES=2 /verif/tools/mutest.sh $0 $1 $2 > '$out'/$n.out 2>&1'
for f in $out/*.out; do
  l=$(grep '^MUTEST:' $f | tail -1)
  echo "$l :: $(grep -v '^MUTEST' $f | head -1 | cut -c1-160)"
done | sort > $out/summary.txt
cat $out/summary.txt
echo "mutants detected: $(grep -c 'MUTEST: DETECTED' $out/summary.txt)  missed: $(grep -c 'MUTEST: MISSED' $out/summary.txt)  other: $(grep -vc 'MUTEST: \(DETECTED\|MISSED\)' $out/summary.txt)"
rm -rf $out
