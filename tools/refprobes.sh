#!/bin/bash
# refprobes.sh [jobs]: every behaviour-preserving refactoring kept in /verif/refactors must leave
# all 19 checks silent (run on scratch copies of the current /repo tree; analysis of sources only).
jobs="${1:-4}"
ls /verif/refactors/*/R*.patch.diff | xargs -P "$jobs" -I{} sh -c 'out=$(MUTEST_LINES=6 /verif/tools/mutest.sh {} all 2>&1); if echo "$out" | grep -q "MUTEST: MISSED"; then echo "silent (ok): {}"; else echo "FALSE ALARM: {}"; echo "$out" | grep -v "^C[0-9][0-9]: " | head -6 | cut -c1-400; fi' | sort
