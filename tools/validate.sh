#!/bin/bash
# validate MANIFEST.json and all evidence files against the schemas
python3-vt - <<'PY'
import json,jsonschema,glob
jsonschema.validate(json.load(open('/verif/MANIFEST.json')), json.load(open('/root/.vp/MANIFEST.schema.json')))
es=json.load(open('/root/.vp/EVIDENCE.schema.json'))
for f in sorted(glob.glob('/verif/evidence/*.json')):
    jsonschema.validate(json.load(open(f)), es)
print('valid: MANIFEST +',len(glob.glob('/verif/evidence/*.json')),'evidence files')
PY
