#!/bin/bash
# refprobe.sh <dir with R*.patch.diff>: behaviour-preserving refactorings must not raise any alarm.
dir="$1"
for pch in "$dir"/R*.patch.diff; do
  out=$(MUTEST_LINES=6 /verif/tools/mutest.sh "$pch" all 2>&1)
  if echo "$out" | grep -q 'MUTEST: MISSED'; then echo "silent (ok): $pch"; else echo "FALSE ALARM: $pch"; echo "$out" | grep -v '^C[0-9][0-9]: ' | head -8 | cut -c1-420; fi
done
