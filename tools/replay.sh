#!/bin/bash
# replay.sh <report.json>: print the non-discharged obligations of a report and re-run the check
p="$1"
python3 - "$p" <<'PY'
import json,sys
r=json.load(open(sys.argv[1]))
print("property",r.get("property"),"tier",r.get("tier"))
for o in r.get("obligations",[]):
    if o["verdict"]!="discharged":
        print("%s: %s: %s: %s: %s"%(o["pos"],o["rule"],o["verdict"],o["key"],o.get("detail","")))
        for w in o.get("witness",[]) or []: print("     ",w)
for f in r.get("floor_failures") or []: print("floor:",f)
PY
id=$(python3 -c "import json,sys; print(json.load(open(sys.argv[1])).get('property',''))" "$p")
tier=$(python3 -c "import json,sys; print(json.load(open(sys.argv[1])).get('tier','quick'))" "$p")
[ -n "$id" ] && exec /verif/tools/check.sh "$id" "$tier"
