#!/bin/bash
# confirm_seed.sh <Cxx> <A|B>: apply the sub-agent's patch to a scratch copy of /repo HEAD,
# build, run the unedited suite; then run the calc-script demo (if any) on both trees.
set -u
id="$1"; x="$2"; src=${SEEDDIR:-/tmp/seed/out}/$id
export GOFLAGS=-mod=mod GOPROXY=off GOSUMDB=off GOTOOLCHAIN=local GOWORK=off
d=$(mktemp -d /tmp/confirm.XXXXXX); trap 'rm -rf "$d"' EXIT
mkdir -p $d/base $d/mut
git -C /repo archive HEAD | tar -x -C $d/base
git -C /repo archive HEAD | tar -x -C $d/mut
(cd $d/mut && git init -q . && git apply $src/$x.patch.diff) || { echo "$id/$x: PATCH DOES NOT APPLY"; exit 1; }
(cd $d/mut && go build ./... ) || { echo "$id/$x: DOES NOT BUILD"; exit 1; }
res=$(cd $d/mut && go test -json -vet=off -count=1 ./... 2>&1 | python3 -c "
import sys,json
p=f=0
for l in sys.stdin:
    try: e=json.loads(l)
    except: continue
    if e.get('Test'):
        if e['Action']=='pass': p+=1
        if e['Action']=='fail': f+=1
print(p,f)")
echo "$id/$x: tests pass/fail = $res"
(cd $d/base && go build -o $d/calc_base ./cmd/calc); (cd $d/mut && go build -o $d/calc_mut ./cmd/calc)
for demo in $src/$x.demo*.calc; do
  [ -f "$demo" ] || continue
  a=$(cd $src && (ulimit -v 6000000; timeout 60 $d/calc_base $demo 2>&1) | sed -E 's/0x[0-9a-f]+/PTR/g' | md5sum); b=$(cd $src && (ulimit -v 6000000; timeout 60 $d/calc_mut $demo 2>&1) | sed -E 's/0x[0-9a-f]+/PTR/g' | md5sum)
  if [ "$a" != "$b" ]; then echo "$id/$x: demo $(basename $demo): output DIFFERS between unchanged and changed tree (ok)"; else echo "$id/$x: demo $(basename $demo): SAME output"; fi
done
for t in $src/$x.demo*.go $src/$x.demo_test.go; do
  [ -f "$t" ] || continue
  pkgdir=$(grep -o '"[a-z/]*/[a-z0-9_]*_test.go' $src/$x.meta.json | head -1 | tr -d '"' | xargs dirname 2>/dev/null)
  [ -z "$pkgdir" ] && pkgdir=$(grep -oE '(cmd/calc|parser|lexer|combinator|types/[a-z]+|vm|memory)/[a-z0-9_]+_test\.go' $src/$x.meta.json | head -1 | xargs dirname)
  [ -z "$pkgdir" ] && { echo "$id/$x: go demo: package dir not found in meta"; continue; }
  for tree in base mut; do
    cp $t $d/$tree/$pkgdir/zz_seed_demo_test.go
    if (cd $d/$tree && go test -vet=off -count=1 ./$pkgdir >/dev/null 2>&1); then echo "$id/$x: go demo in $pkgdir on $tree: PASS"; else echo "$id/$x: go demo in $pkgdir on $tree: FAIL"; fi
  done
done
