#!/bin/bash
# intake.sh <Cxx> <round-note> <letterA> <letterB>: confirm the two changes a sub-agent left in
# $SEEDDIR/<Cxx> (A.*, B.*) with confirm_seed.sh and, when confirmed (applies, builds, 234 tests
# pass, demonstration differs), store them as /verif/seeded/<Cxx>-<letter>/.
set -u
id="$1"; note="$2"; la="$3"; lb="$4"
src=${SEEDDIR:-/tmp/seed/out}/$id
for pair in "A $la" "B $lb"; do
  set -- $pair; x=$1; l=$2
  [ -f "$src/$x.patch.diff" ] || { echo "$id/$x: no patch"; continue; }
  out=$(SEEDDIR=${SEEDDIR:-/tmp/seed/out} /verif/tools/confirm_seed.sh "$id" "$x" 2>&1)
  echo "$out"
  tests=$(echo "$out" | grep -o 'tests pass/fail = [0-9]* [0-9]*' | awk '{print $4" "$5}')
  differs=no
  echo "$out" | grep -q 'output DIFFERS' && differs=yes
  if echo "$out" | grep -q 'on base: PASS' && echo "$out" | grep -q 'on mut: FAIL'; then differs=yes; fi
  if [ "$tests" != "234 0" ] || [ "$differs" != yes ]; then echo "$id/$x: NOT CONFIRMED (tests=$tests differs=$differs)"; continue; fi
  d=/verif/seeded/$id-$l; mkdir -p "$d"
  cp "$src/$x.patch.diff" "$d/patch.diff"
  for f in "$src/$x".demo*; do b=$(basename "$f"); cp "$f" "$d/${b#$x.}"; done
  python3 - "$src/$x.meta.json" "$d/meta.json" "$note" "$id" "$x" <<'PY'
import json,sys
m=json.load(open(sys.argv[1]))
m['source']="independent sub-agent ("+sys.argv[3]+") given only the property text and its own scratch worktree of /repo"
m['confirmed_by_me']={"what_i_ran":"tools/intake.sh -> tools/confirm_seed.sh "+sys.argv[4]+" "+sys.argv[5]+": patch applied with git apply to a scratch copy of /repo HEAD (outside /repo and /verif), go build ./..., go test -vet=off -count=1 ./... (234 pass, 0 fail), then the demonstration on the unchanged and on the changed tree (calc script output compared / go test demo pass on unchanged, fail on changed)","tests_pass_with_change":True,"demo_differs":True}
json.dump(m,open(sys.argv[2],'w'),indent=1)
PY
  echo "$id/$x: CONFIRMED -> $d"
done
