#!/bin/bash
# mutest.sh <patch.diff> <property[,property...] | engine:<name>> [-R]
# Applies a patch to a scratch copy of /repo (outside /repo and /verif), runs
# the static checks for the given properties on the copy, prints the verdict
# and removes the copy. -R applies the patch in reverse (used to re-introduce a
# defect that a fix: commit repaired).
set -u
patch="$(readlink -f "$1")"; props="$2"; rev="${3:-}"
export GOFLAGS=-mod=mod GOPROXY=off GOSUMDB=off GOTOOLCHAIN=local GOWORK=off
d=$(mktemp -d "${TMPDIR:-/tmp}/calcmut.XXXXXX")
trap 'rm -rf "$d"' EXIT
mkdir -p "$d/repo" "$d/verif"
git -C /repo archive HEAD | tar -x -C "$d/repo"
cp /verif/known_findings.json "$d/verif/"
if ! (cd "$d/repo" && git init -q . >/dev/null 2>&1 && git apply $rev "$patch"); then
  echo "MUTEST: patch does not apply: $patch"; exit 3
fi
if ! (cd "$d/repo" && go build ./... 2>"$d/build.err"); then
  echo "MUTEST: mutant does not build"; head -5 "$d/build.err"; exit 4
fi
case "$props" in
engine:*)
  out=$(${CALCSA:-/verif/bin/calcsa} -repo "$d/repo" -verif "$d/verif" -engine "${props#engine:}" 2>&1)
  if echo "$out" | grep -q ': \(violated\|undecided\): '; then rc=1; else rc=0; fi
  out=$(echo "$out" | grep ': \(violated\|undecided\): ')
  ;;
*)
  out=$(${CALCSA:-/verif/bin/calcsa} -repo "$d/repo" -verif "$d/verif" -property "$props" 2>&1); rc=$?
  ;;
esac
echo "$out" | sed "s#$d/repo/##g" | grep -v '^      ' | grep -v '^KNOWN-FINDING' | cut -c1-${MUTEST_COLS:-300} | head -${MUTEST_LINES:-8}
if [ $rc -eq 1 ]; then echo "MUTEST: DETECTED ($patch)"; else echo "MUTEST: MISSED rc=$rc ($patch)"; fi
exit 0
